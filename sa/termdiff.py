"""Compare a computed term with its specification term.

Result kinds
* 'equal'      : identical canonical forms
* 'definite'   : same operator tree; the difference is confined to polynomial
                 leaves / constants / atoms at corresponding positions.  Within
                 the polynomial fragment the canonical form is complete (two
                 polynomials over independent atoms are equal iff identical), so
                 this is a definite disagreement with the specification.
* 'structural' : the operator trees differ; the normaliser knows no identity
                 relating them, so nothing is decided.
"""
from .sym import show, is_poly, _pdict

_COMM = {"max", "min"}


def diff(got, want, path=""):
    if got == want:
        return ("equal", path, None, None)
    if not isinstance(got, tuple) or not isinstance(want, tuple) or not got or not want:
        return ("definite", path, got, want)
    gk, wk = got[0], want[0]
    # a case distinction of the specification that the implementation ignores (or invents)
    if wk == "ite" and gk != "ite" and got in (want[2], want[3]) and want[2] != want[3]:
        return ("definite", path + "/ignores-condition(%s)" % show(want[1])[:40], got, want)
    if gk == "ite" and wk != "ite" and want in (got[2], got[3]) and got[2] != got[3]:
        return ("definite", path + "/extra-condition(%s)" % show(got[1])[:40], got, want)
    # polynomial leaves
    if is_poly(got) or is_poly(want):
        ga, wa = _poly_atoms(got), _poly_atoms(want)
        # same non-polynomial atoms inside (or simple base atoms only) -> definite
        g_complex = {a for a in ga if _is_complex(a)}
        w_complex = {a for a in wa if _is_complex(a)}
        if g_complex == w_complex:
            return ("definite", path, got, want)
        # one complex atom each at the same role: recurse into them if the polynomial frame is the same
        if len(g_complex) == len(w_complex) == 1 and _frame(got, next(iter(g_complex))) == _frame(want, next(iter(w_complex))):
            return diff(next(iter(g_complex)), next(iter(w_complex)), path + "/poly-atom")
        if len(g_complex) == len(w_complex):
            # try to pair complex atoms by operator
            gl = sorted(g_complex, key=lambda a: (a[0], _opname(a), repr(a)))
            wl = sorted(w_complex, key=lambda a: (a[0], _opname(a), repr(a)))
            if [(a[0], _opname(a)) for a in gl] == [(a[0], _opname(a)) for a in wl]:
                m = {}
                for a, b in zip(gl, wl):
                    m[a] = b
                if _subst_atoms(got, m) == want or _coeff_frame(got, gl) == _coeff_frame(want, wl):
                    for a, b in zip(gl, wl):
                        if a != b:
                            d = diff(a, b, path + "/poly-atom")
                            if d[0] != "equal":
                                return d
                return ("definite", path, got, want) if _coeff_frame(got, gl) != _coeff_frame(want, wl) else ("structural", path, got, want)
        return ("structural", path, got, want)
    if gk != wk:
        return ("structural", path, got, want)
    if gk in ("sym", "const"):
        return ("definite", path, got, want)
    if gk == "call":
        if got[1] != want[1]:
            return ("structural", path, got, want)
        ga, wa = list(got[2]), list(want[2])
        if len(ga) != len(wa) or [k for k, v in got[3]] != [k for k, v in want[3]]:
            return ("structural", path, got, want)
        name = show(got[1])
        if name in _COMM:
            # match equal args first
            rest_g = [a for a in ga if a not in wa]
            rest_w = [a for a in wa if a not in ga]
            if len(rest_g) == 1 and len(rest_w) == 1:
                return diff(rest_g[0], rest_w[0], path + "/" + name)
            if not rest_g and not rest_w:
                return ("equal", path, None, None)
            return ("structural", path, got, want) if len(rest_g) != len(rest_w) else _first(list(zip(rest_g, rest_w)), path + "/" + name)
        pairs = list(zip(ga, wa)) + [(v1, v2) for (k1, v1), (k2, v2) in zip(got[3], want[3])]
        return _first(pairs, path + "/" + name)
    if gk == "op":
        if got[1] != want[1] or len(got[2]) != len(want[2]):
            return ("structural", path, got, want)
        return _first(list(zip(got[2], want[2])), path + "/" + got[1])
    if gk in ("tuple", "list"):
        if len(got[1]) != len(want[1]):
            return ("structural", path, got, want)
        return _first([(a, b) for a, b in zip(got[1], want[1])], path + "/" + gk, indexed=True)
    if gk == "nt":
        if got[1] != want[1] or len(got[2]) != len(want[2]):
            return ("structural", path, got, want)
        return _first(list(zip(got[2], want[2])), path + "/" + got[1], indexed=True)
    if gk in ("attr", "item"):
        if got[2] != want[2]:
            return ("definite", path, got, want)
        return diff(got[1], want[1], path + "/." + str(got[2]))
    if gk in ("sub", "elem", "star", "slice", "ite"):
        if len(got) != len(want):
            return ("structural", path, got, want)
        return _first(list(zip(got[1:], want[1:])), path + "/" + gk, indexed=True)
    return ("structural", path, got, want)


def _is_complex(a):
    """An atom whose meaning is not just a free symbol: it is, or contains, a call / operator / case distinction."""
    from .sym import atoms_of
    return any(x[0] in ("call", "op", "ite") for x in atoms_of(a))


def _first(pairs, path, indexed=False):
    for i, (a, b) in enumerate(pairs):
        if a != b:
            d = diff(a, b, path + ("[%d]" % i if indexed else ""))
            if d[0] != "equal":
                return d
    return ("equal", path, None, None)


def _poly_atoms(t):
    out = set()
    for m, c in _pdict(t).items():
        for a, p in m:
            out.add(a)
    return out


def _opname(a):
    if a[0] == "op":
        return a[1]
    if a[0] == "call":
        return show(a[1])
    return ""


def _frame(t, atom):
    """The polynomial with *atom* replaced by a placeholder."""
    return _subst_atoms(t, {atom: ("sym", "<hole>")})


def _coeff_frame(t, atoms):
    m = {a: ("sym", "<hole%d>" % i) for i, a in enumerate(atoms)}
    return _subst_atoms(t, m)


def _subst_atoms(t, m):
    from .sym import _mk
    d = {}
    for mono, c in _pdict(t).items():
        mono2 = tuple(sorted(((m.get(a, a), p) for a, p in mono), key=repr))
        d[mono2] = d.get(mono2, 0) + c
    return _mk(d)


def lift(t, depth=0):
    """Lift if-then-else atoms out of polynomials / calls: f(ite(c,a,b)) -> ite(c, f(a), f(b)).
    All ite nodes testing the same condition are resolved together (so infeasible
    combinations never appear) and polynomial arithmetic is redone in each arm."""
    from .sym import atoms_of
    if depth > 8 or not isinstance(t, tuple) or not t:
        return t
    ites = [a for a in atoms_of(t) if a[0] == "ite"]
    if t[0] == "ite":
        ites.append(t)
    if not ites:
        return t
    # outermost condition first: the largest ite term
    ites.sort(key=lambda a: -len(repr(a)))
    c = ites[0][1]
    a = renorm(assume(t, c, True))
    b = renorm(assume(t, c, False))
    if a == b:
        return lift(a, depth + 1)
    return ("ite", c, lift(a, depth + 1), lift(b, depth + 1))


def assume(t, cond, value):
    """Resolve every if-then-else on *cond* in t under the assumption cond == value."""
    if not isinstance(t, tuple) or not t:
        return t
    if t[0] == "ite" and t[1] == cond:
        return assume(t[2] if value else t[3], cond, value)
    return tuple(assume(x, cond, value) if isinstance(x, tuple) else x for x in t)


def _replace(t, old, new):
    if t == old:
        return new
    if isinstance(t, tuple):
        return tuple(_replace(x, old, new) if isinstance(x, tuple) else x for x in t)
    return t


def renorm(t):
    """Re-normalise a term after substitution (polynomial arithmetic is redone)."""
    from . import sym
    if not isinstance(t, tuple) or not t:
        return t
    if t[0] == "poly":
        acc = sym.num(0)
        for mono, c in t[1]:
            term = sym.num(c)
            for a, p in mono:
                a2 = renorm(a)
                term = sym.mul(term, sym.powi(a2, p)) if p >= 0 else sym.div(term, sym.powi(a2, -p))
            acc = sym.add(acc, term)
        return acc
    if isinstance(t[0], str):
        return (t[0],) + tuple(renorm(x) if isinstance(x, tuple) else x for x in t[1:])
    return tuple(renorm(x) if isinstance(x, tuple) else x for x in t)


def describe(d):
    kind, path, got, want = d
    if kind == "equal":
        return "equal"
    gs = show(got) if got is not None else "?"
    ws = show(want) if want is not None else "?"
    # skip the common prefix of long renderings so that the differing part is visible
    cp = 0
    while cp < min(len(gs), len(ws)) and gs[cp] == ws[cp]:
        cp += 1
    if cp > 40:
        gs, ws = "..." + gs[cp - 30:], "..." + ws[cp - 30:]
    return "%s difference at %s: got %s, specification %s" % (kind, path or "<root>", gs[:150], ws[:150])
