"""Template-string abstract interpretation (A6): turn a string-valued term into a
sequence of literal pieces and symbolic holes.

Supported constructors: string constants, `+` concatenation, "...{}...".format(a, b),
f-strings, os.path.join(a, b, ...), str(x) (transparent), `x or y` (kept as one hole).
Anything else becomes a single hole carrying the term.
"""
import re

from .sym import show

SEP = "/"


def template(t):
    """-> list of ('lit', str) | ('var', term); adjacent literals merged."""
    out = []
    _tpl(t, out)
    merged = []
    for k, v in out:
        if k == "lit" and merged and merged[-1][0] == "lit":
            merged[-1] = ("lit", merged[-1][1] + v)
        elif k == "lit" and v == "":
            continue
        else:
            merged.append((k, v))
    return merged


def _tpl(t, out):
    if t[0] == "const" and isinstance(t[1], str):
        out.append(("lit", t[1]))
        return
    if t[0] == "op" and t[1] == "concat":
        for a in t[2]:
            _tpl(a, out)
        return
    if t[0] == "fstr":
        for p in t[1]:
            if p[0] == "const":
                out.append(("lit", p[1]))
            else:
                _tpl(p[2][0], out)
        return
    if t[0] == "call":
        fn = show(t[1])
        if fn in ("os.path.join", "join", "posixpath.join") and not t[3]:
            first = True
            for a in t[2]:
                if not first:
                    out.append(("lit", SEP))
                _tpl(a, out)
                first = False
            return
        if fn == "str" and len(t[2]) == 1:
            _tpl(t[2][0], out)
            return
        if t[1][0] == "attr" and t[1][2] == "format" and t[1][1][0] == "const" and isinstance(t[1][1][1], str) and not t[3]:
            fmt = t[1][1][1]
            pieces = re.split(r"(\{\d*\})", fmt)
            auto = 0
            for p in pieces:
                m = re.fullmatch(r"\{(\d*)\}", p)
                if m:
                    i = int(m.group(1)) if m.group(1) else auto
                    if not m.group(1):
                        auto += 1
                    if i < len(t[2]):
                        _tpl(t[2][i], out)
                    else:
                        out.append(("var", ("const", "<missing format arg %d>" % i)))
                elif p:
                    out.append(("lit", p.replace("{{", "{").replace("}}", "}")))
            return
    out.append(("var", t))


def expand_scheme(scheme, subst):
    """WWT URL scheme string with {1} {2} {3} placeholders -> template list."""
    out = []
    for p in re.split(r"(\{\d+\})", scheme):
        m = re.fullmatch(r"\{(\d+)\}", p)
        if m:
            out.append(("var", subst[int(m.group(1))]))
        elif p:
            out.append(("lit", p))
    return out


def render(tpl):
    return "".join(v if k == "lit" else "<" + show(v)[:30] + ">" for k, v in tpl)
