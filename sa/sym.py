"""Abstract interpretation of function bodies over a *term* domain.

Every program variable is mapped to a canonical term: Laurent polynomials with
rational coefficients over atoms (A4 of DESIGN.md), where atoms are free
symbols, attribute/subscript/call terms with canonicalised arguments, and
opaque operator nodes (floordiv, mod, comparisons, if-then-else joins ...).
Branches are joined with if-then-else terms (no path enumeration, no solver);
loops havoc what their body assigns.  The evaluator records, in program order,
every call it evaluated (*events*) with its fully substituted arguments, the
returned / yielded terms and the loops, so that rules can compare sibling
implementations modulo renaming, temporaries and statement order (A7).

No code of the analysed repository is executed: terms are built from syntax.
"""
import ast
from fractions import Fraction as Fr

from .model import dotted

# ---------------------------------------------------------------------------
# terms are hashable nested tuples

PI = ("sym", "PI")


def is_poly(t):
    return isinstance(t, tuple) and t and t[0] == "poly"


def _pdict(t):
    if is_poly(t):
        return dict(t[1])
    return {((t, 1),): Fr(1)}


def _key(x):
    return repr(x)


def _mk(d):
    d = {m: c for m, c in d.items() if c != 0}
    if len(d) == 1:
        (m, c), = d.items()
        if c == 1 and len(m) == 1 and m[0][1] == 1:
            return m[0][0]
    return ("poly", tuple(sorted(d.items(), key=_key)))


def num(v):
    return _mk({(): Fr(v)})


ZERO = num(0)
ONE = num(1)


def is_num(t):
    return is_poly(t) and all(m == () for m, _ in t[1])


def num_value(t):
    if not is_num(t):
        return None
    return t[1][0][1] if t[1] else Fr(0)


def add(a, b):
    d = _pdict(a)
    for m, c in _pdict(b).items():
        d[m] = d.get(m, 0) + c
    return _mk(d)


def neg(a):
    return _mk({m: -c for m, c in _pdict(a).items()})


def sub(a, b):
    return add(a, neg(b))


def _mmul(m1, m2):
    e = {}
    for a, p in m1 + m2:
        e[a] = e.get(a, 0) + p
    return tuple(sorted(((a, p) for a, p in e.items() if p != 0), key=_key))


def mul(a, b):
    d = {}
    for m1, c1 in _pdict(a).items():
        for m2, c2 in _pdict(b).items():
            m = _mmul(m1, m2)
            d[m] = d.get(m, 0) + c1 * c2
    return _mk(d)


def div(a, b):
    """Exact only when b is a single monomial; otherwise an opaque atom."""
    db = _pdict(b)
    if len(db) == 1:
        (m, c), = db.items()
        if c != 0:
            inv = _mk({tuple((x, -p) for x, p in m): Fr(1) / c})
            return mul(a, inv)
    return ("op", "div", (a, b))


def powi(a, k):
    r = ONE
    for _ in range(k):
        r = mul(r, a)
    return r


def coeffs(t, atom):
    """Split polynomial t = c1*atom + c0 where c0 is free of *atom*; returns
    (c1, c0) or None if atom occurs non-linearly."""
    c1, c0 = {}, {}
    for m, c in _pdict(t).items():
        ps = dict(m)
        if atom in ps:
            if ps[atom] != 1:
                return None
            m2 = tuple(x for x in m if x[0] != atom)
            c1[m2] = c1.get(m2, 0) + c
        else:
            c0[m] = c0.get(m, 0) + c
    return _mk(c1), _mk(c0)


def atoms_of(t, acc=None):
    """All sub-terms (recursively) of a term."""
    if acc is None:
        acc = set()
    if not isinstance(t, tuple):
        return acc
    if t in acc:
        return acc
    acc.add(t)
    for x in t[1:]:
        _walk_any(x, acc)
    return acc


def _walk_any(x, acc):
    if isinstance(x, tuple):
        if x and isinstance(x[0], str) and x[0] in _TAGS:
            atoms_of(x, acc)
        else:
            for y in x:
                _walk_any(y, acc)


_TAGS = {"poly", "sym", "attr", "call", "tuple", "list", "sub", "slice", "const",
         "op", "ite", "item", "elem", "nt", "top", "dict", "lambda", "star", "fstr", "new", "last", "vol"}


def contains(t, needle):
    return needle in atoms_of(t)


def syms_of(t):
    return {a[1] for a in atoms_of(t) if a[0] == "sym"}


def show(t):
    """Readable rendering of a term."""
    if not isinstance(t, tuple) or not t:
        return repr(t)
    k = t[0]
    if k == "poly":
        if not t[1]:
            return "0"
        parts = []
        for m, c in t[1]:
            ms = "*".join(show(a) if p == 1 else "%s**%d" % (show(a), p) for a, p in m)
            cs = str(c.numerator) if c.denominator == 1 else "%s/%s" % (c.numerator, c.denominator)
            if not m:
                parts.append(cs)
            elif c == 1:
                parts.append(ms)
            elif c == -1:
                parts.append("-" + ms)
            else:
                parts.append(cs + "*" + ms)
        return "(" + " + ".join(parts) + ")"
    if k == "sym":
        return t[1]
    if k == "const":
        return repr(t[1])
    if k == "attr":
        return show(t[1]) + "." + t[2]
    if k == "call":
        args = [show(a) for a in t[2]] + ["%s=%s" % (n, show(v)) for n, v in t[3]]
        return show(t[1]) + "(" + ", ".join(args) + ")"
    if k in ("tuple", "list"):
        return ("(%s)" if k == "tuple" else "[%s]") % ", ".join(show(a) for a in t[1])
    if k == "sub":
        return show(t[1]) + "[" + show(t[2]) + "]"
    if k == "slice":
        return ":".join("" if a == ("const", None) else show(a) for a in t[1:])
    if k == "op":
        return t[1] + "(" + ", ".join(show(a) for a in t[2]) + ")"
    if k == "ite":
        return "(%s ? %s : %s)" % (show(t[1]), show(t[2]), show(t[3]))
    if k == "item":
        return show(t[1]) + "#" + str(t[2])
    if k == "elem":
        return "elem(" + show(t[1]) + ")"
    if k == "last":
        return "last(" + show(t[1]) + ")"
    if k == "nt":
        return t[1] + "(" + ", ".join(show(a) for a in t[2]) + ")"
    if k == "star":
        return "*" + show(t[1])
    if k == "new":
        return "<%s=%s>" % (t[1], show(t[2]))
    if k == "vol":
        return "%s@L%s" % (show(t[1]), t[2])
    if k == "fstr":
        return "f" + repr("".join(x[1] if x[0] == "const" else "{" + show(x[2][0]) + "}" for x in t[1]))
    if k == "dict":
        return "{" + ", ".join("%s: %s" % (show(a), show(b)) for a, b in t[1]) + "}"
    if k == "lambda":
        return "<lambda>"
    return repr(t)


def cmp(op, a, b):
    """Canonical comparison term; symmetric comparisons have their operands ordered."""
    if op == "Gt":
        op, a, b = "Lt", b, a
    elif op == "GtE":
        op, a, b = "LtE", b, a
    if a[0] == "const" and b[0] == "const" and op in ("Eq", "NotEq", "Is", "IsNot") and (a[1] is None or b[1] is None or type(a[1]) is type(b[1])):
        same = a[1] == b[1] and (a[1] is None) == (b[1] is None)
        return TRUE if same == (op in ("Eq", "Is")) else FALSE
    if op in ("Eq", "NotEq", "Is", "IsNot"):
        # a freshly built tuple / named tuple / list / dict is never None
        for x, y in ((a, b), (b, a)):
            if x == NONE and (y[0] in ("nt", "tuple", "list", "dict", "new") or is_num(y)):
                return FALSE if op in ("Eq", "Is") else TRUE
    if op in ("In", "NotIn") and a[0] == "const" and b[0] in ("tuple", "list") and all(x[0] == "const" for x in b[1]):
        # membership of a constant in a literal collection of constants
        try:
            found = any(x[1] == a[1] and type(x[1]) is type(a[1]) for x in b[1])
            return TRUE if found == (op == "In") else FALSE
        except Exception:
            pass
    if op in ("In", "NotIn") and a[0] == "const" and b[0] == "const" and isinstance(a[1], str) and isinstance(b[1], str):
        return TRUE if (a[1] in b[1]) == (op == "In") else FALSE
    if op in ("Eq", "NotEq", "Is", "IsNot"):
        # comparing a case distinction with a constant: compare case by case
        for x, y in ((a, b), (b, a)):
            if x[0] == "ite" and y[0] == "const" and (x[2][0] == "const" or x[3][0] == "const"):
                return mk_ite(x[1], cmp(op, x[2], y), cmp(op, x[3], y))
    if is_num(a) and is_num(b) and op in ("Eq", "NotEq", "Lt", "LtE"):
        va, vb = num_value(a), num_value(b)
        return TRUE if {"Eq": va == vb, "NotEq": va != vb, "Lt": va < vb, "LtE": va <= vb}[op] else FALSE
    if op in ("Eq", "NotEq", "Lt", "LtE") and (_proper_poly(a) or _proper_poly(b)) and _numericish(a) and _numericish(b):
        # arithmetic comparisons: everything on the left, leading coefficient 1 (x + 1 == d  <=>  x == d - 1)
        d = sub(a, b)
        lead = None
        for m, c in sorted(_pdict(d).items(), key=_key):
            if m != ():
                lead = c
                break
        if lead is not None:
            if op in ("Eq", "NotEq"):
                d = mul(d, num(Fr(1) / lead))
                return ("op", "cmp:" + op, tuple(sorted((d, ZERO), key=_key)))
            d = mul(d, num(Fr(1) / abs(lead)))
            if lead > 0:
                return ("op", "cmp:" + op, (d, ZERO))
            return ("op", "cmp:" + op, (ZERO, neg(d)))
    if op in ("Eq", "NotEq", "Is", "IsNot"):
        a, b = sorted((a, b), key=_key)
    return ("op", "cmp:" + op, (a, b))


def _proper_poly(t):
    if not is_poly(t) or is_num(t):
        return False
    return True


def _numericish(t):
    return t[0] not in ("const", "tuple", "list", "nt", "dict", "fstr", "lambda", "new", "slice", "star")


_NEGATED = {"cmp:NotEq": "cmp:Eq", "cmp:IsNot": "cmp:Is", "cmp:NotIn": "cmp:In"}


def literals(c, pol=True):
    """Split a condition taken with polarity *pol* into the conjunction of literals it stands for:
    `a and b` (true) -> a, b ; `a or b` (false) -> not a, not b ; `not a` -> a with flipped polarity ;
    `a != b` -> (a == b, False).  Anything else is one literal."""
    if c[0] == "op":
        if c[1] == "not":
            return literals(c[2][0], not pol)
        if (c[1] == "and" and pol) or (c[1] == "or" and not pol):
            out = []
            for x in c[2]:
                out += literals(x, pol)
            return out
        if c[1] in _NEGATED:
            return [(("op", _NEGATED[c[1]], c[2]), not pol)]
    if c[0] == "ite":
        k, a, b = c[1], c[2], c[3]
        # (k ? True : b) is `k or b`; (k ? False : b) is `not k and b`; (k ? a : True) is `not k or a`; (k ? a : False) is `k and a`
        if a == TRUE and not pol:
            return literals(k, False) + literals(b, False)
        if a == FALSE and pol:
            return literals(k, False) + literals(b, True)
        if b == TRUE and not pol:
            return literals(k, True) + literals(a, False)
        if b == FALSE and pol:
            return literals(k, True) + literals(a, True)
    if c == TRUE and pol or c == FALSE and not pol:
        return []
    return [(c, pol)]


NONE = ("const", None)
TRUE = ("const", True)
FALSE = ("const", False)

COMMUTATIVE_CALLS = {"max", "min"}
MUTATORS = {"append", "extend", "add", "update", "pop", "sort", "reverse", "remove", "insert", "clear",
            "setdefault", "popitem", "discard"}
# calls that create a fresh object with identity: two textually equal calls are
# different objects, so the bound variable name is kept as the allocation site
ALLOCATORS = {"Queue", "JoinableQueue", "SimpleQueue", "Event", "Process", "Lock", "RLock",
              "SoftFileLock", "FileLock", "Semaphore", "Condition", "Pipe", "Manager", "Pool",
              "zeros", "empty", "ones", "full", "zeros_like", "empty_like", "ones_like"}


# ---------------------------------------------------------------------------

class Event:
    __slots__ = ("kind", "term", "node", "pc", "extra")

    def __init__(self, kind, term, node, pc, extra=None):
        self.kind = kind      # 'call' | 'yield' | 'return' | 'raise' | 'store' | 'with' | 'loop' | 'del'
        self.term = term
        self.node = node
        self.pc = pc
        self.extra = extra

    @property
    def line(self):
        return getattr(self.node, "lineno", 0)

    def __repr__(self):
        return "<%s %s @%d>" % (self.kind, show(self.term) if self.term is not None else "", self.line)


class Result:
    def __init__(self):
        self.env = None
        self.events = []
        self.returns = []   # (pc, term, node)
        self.yields = []    # (pc, term, node)
        self.loops = []     # (index, iter_term, node)
        self.after_loop = {}  # loop index -> env right after the loop
        self.nested = {}    # name -> (FunctionDef, env snapshot)
        self.objects = {}   # object symbol -> {l-value term: value} as left by its constructor (model_objects)
        self.lambdas = []

    def calls(self, name=None, attr=None):
        out = []
        for e in self.events:
            if e.kind != "call":
                continue
            f = e.term[1]
            if name is not None and show(f) != name:
                continue
            if attr is not None and not (f[0] == "attr" and f[2] == attr) and not (f == ("sym", attr)):
                continue
            out.append(e)
        return out


class Evaluator:
    """Evaluate one function body (and, on request, nested closures)."""

    def __init__(self, project=None, namedtuples=None, inline=None, module_env=None,
                 max_inline_depth=3, local_module=None, no_inline=()):
        self.project = project
        self.namedtuples = namedtuples or {}
        self.inline = inline or {}      # name -> Func (pure helper functions to inline)
        self.module_env = module_env or {}
        self.max_inline_depth = max_inline_depth
        self.local_module = local_module   # module name whose top-level helpers are inlined on demand
        self.no_inline = set(no_inline)
        self._loop_counter = 0
        self._cont_stack = []
        self._brk_stack = []
        self._pending_pc = ()
        self.inline_closures = True
        self.model_objects = False     # constructors of project classes run on a fresh symbol; calling the object runs __call__
        self.volatile = set()     # method names whose calls read shared mutable state (e.g. Event.is_set)
        self._closures = {}       # nested function name -> (FunctionDef, defining env): local helpers are inlined when called
        self._depth = 0
        self._stack = ()
        self.ctx_module = local_module  # module whose imports resolve call targets (calling-convention normalisation)
        self.static_len = None    # optional callback: term -> known length of that sequence (protocol knowledge of a rule)
        self.unroll = False       # unroll `for` statements over statically known iterables (no break/continue/return inside)
        self.assume = None        # optional callback: condition term -> True / False / None (partial evaluation)
        self.self_class = None    # qualified class name: `self.method(...)` of that class may be inlined
        self.recv_classes = {}    # receiver term -> qualified class name: `<receiver>.method(...)` may be inlined with self := receiver
        self.inline_resolved = False   # inline every call that resolves to exactly one project function (see _callee), except
                                       # constructors, generators, properties and the names in no_inline

    def _decide(self, c):
        """Decide a condition term under the current assumptions (None = unknown)."""
        if self.assume is None:
            return None
        if c == TRUE:
            return True
        if c == FALSE:
            return False
        if c[0] == "op" and c[1] == "not":
            d = self._decide(c[2][0])
            return None if d is None else (not d)
        if c[0] == "op" and c[1] == "and":
            ds = [self._decide(x) for x in c[2]]
            if any(d is False for d in ds):
                return False
            return True if all(d is True for d in ds) else None
        if c[0] == "op" and c[1] == "or":
            ds = [self._decide(x) for x in c[2]]
            if any(d is True for d in ds):
                return True
            return False if all(d is False for d in ds) else None
        return self.assume(c)

    # -- entry points -------------------------------------------------------
    def run(self, fnode, env=None, args=None):
        res = Result()
        e = dict(self.module_env)
        if env:
            e.update(env)
        a = fnode.args
        params = [x.arg for x in a.posonlyargs + a.args + a.kwonlyargs]
        if a.vararg:
            params.append(a.vararg.arg)
        if a.kwarg:
            params.append(a.kwarg.arg)
        for p in params:
            e[p] = ("sym", p)
        if args:
            e.update(args)
        self._loop_counter = getattr(self, "_loop_base", 0)
        out = self._block(fnode.body, e, (), res)
        res.env = out
        return res

    def run_block(self, stmts, env=None):
        """Evaluate a statement list (e.g. the body of one loop) from a given environment; Result.env is the final env."""
        res = Result()
        e = dict(self.module_env)
        e.update(env or {})
        res.env = self._block(list(stmts), e, (), res)
        return res

    def expr(self, src_or_node, env=None):
        node = ast.parse(src_or_node, mode="eval").body if isinstance(src_or_node, str) else src_or_node
        e = dict(self.module_env)
        e.update(env or {})
        return self._e(node, e, (), Result())

    # -- statements ---------------------------------------------------------
    def _block(self, stmts, env, pc, res):
        for s in stmts:
            if env is None:
                return None
            if isinstance(s, ast.If):
                env, pc = self._if(s, env, pc, res)
                continue
            self._pending_pc = ()
            env = self._stmt(s, env, pc, res)
            if self._pending_pc:
                # an unrolled loop that may `return` puts the rest of the block under "did not return"
                pc = pc + self._pending_pc
                self._pending_pc = ()
        return env

    def _unrolled(self, s, items, env, pc, res):
        """Straight-line evaluation of `for` over statically known items.  `continue` ends an iteration, `break` ends
        the loop, `return` ends the function: later iterations (and, for `return`, the code after the loop) are
        evaluated under the negation of the conditions under which an earlier iteration left."""
        env = dict(env)
        gone = ()            # literals: no earlier iteration broke out / returned
        breaks = []          # (condition term, env) of the break sites
        returned = ()
        for item in items:
            ipc = pc + gone
            self._bind(s.target, item, env, ipc, res)
            self._cont_stack.append([])
            self._brk_stack.append([])
            n_ret = len(res.returns)
            out = self._block(s.body, env, ipc, res)
            for pcx, envx in self._cont_stack.pop():
                cond = _conj([(c if pol else ("op", "not", (c,))) for c, pol in pcx[len(ipc):] if c != "loop" and c[0] != "loop"])
                out = self._join(cond, envx, out)
            for pcx, envx in self._brk_stack.pop():
                cond = _conj([(c if pol else ("op", "not", (c,))) for c, pol in pcx[len(ipc):] if c[0] != "loop"])
                breaks.append((_conj([(c if pol else ("op", "not", (c,))) for c, pol in pcx[len(pc):] if c[0] != "loop"]), envx))
                gone = gone + tuple(literals(cond, False))
            for pcx, v, node in res.returns[n_ret:]:
                cond = _conj([(c if pol else ("op", "not", (c,))) for c, pol in pcx[len(ipc):] if c[0] != "loop"])
                lits = tuple(literals(cond, False))
                gone = gone + lits
                returned = returned + lits
            env = out
            if env is None:
                break
        for cond, envx in reversed(breaks):
            env = self._join(cond, envx, env)
        return env, returned

    def _if(self, s, env, pc, res):
        """An `if` whose one branch leaves the block (return / continue / break) puts the rest of the block
        under the negated condition: guard-clause style and if/else style give the same path conditions."""
        c = self._e(s.test, env, pc, res)
        d = self._decide(c)
        if d is True:
            return self._block(s.body, dict(env), pc, res), pc
        if d is False:
            return self._block(s.orelse, dict(env), pc, res), pc
        pa = pc + tuple(literals(c, True))
        pb = pc + tuple(literals(c, False))
        a = self._block(s.body, dict(env), pa, res)
        b = self._block(s.orelse, dict(env), pb, res)
        if a is None and b is not None and _leaves_block(s.body):
            return b, pb
        if b is None and a is not None and _leaves_block(s.orelse):
            return a, pa
        return self._join(c, a, b), pc

    def _assigned(self, stmts, mutated=None):
        """Names (and `self.<attr>`) rebound by the statements; with *mutated*, containers only mutated through a method
        call are collected there instead (the name keeps referring to the same object)."""
        names = set()
        for s in stmts:
            for n in ast.walk(s):
                if isinstance(n, (ast.FunctionDef, ast.AsyncFunctionDef, ast.Lambda)):
                    continue
                if isinstance(n, (ast.Assign, ast.AugAssign, ast.AnnAssign, ast.For, ast.With, ast.NamedExpr)):
                    tgts = []
                    if isinstance(n, ast.Assign):
                        tgts = n.targets
                    elif isinstance(n, (ast.AugAssign, ast.AnnAssign, ast.NamedExpr)):
                        tgts = [n.target]
                    elif isinstance(n, ast.For):
                        tgts = [n.target]
                    elif isinstance(n, ast.With):
                        tgts = [i.optional_vars for i in n.items if i.optional_vars is not None]
                    for t in tgts:
                        for x in _target_names(t):
                            names.add(x)
                elif isinstance(n, ast.Call) and isinstance(n.func, ast.Attribute) and n.func.attr in MUTATORS:
                    # x.append(...) / self.items.append(...) change the *contents* of the container held in x / self.items
                    for x in _target_names(n.func.value) if isinstance(n.func.value, (ast.Attribute, ast.Subscript)) else \
                            ([n.func.value.id] if isinstance(n.func.value, ast.Name) else []):
                        if mutated is not None:
                            mutated.add(x)
                        else:
                            names.add(x)
        return names

    def _havoc(self, env, stmts, tag):
        env = dict(env)
        only_mutated = set()
        rebound = self._assigned(stmts, mutated=only_mutated)
        for n in rebound:
            if isinstance(n, str):
                env[n] = ("sym", "%s@%s" % (n, tag))
        for n in only_mutated - rebound:
            # mutated in place: an object with identity stays that object; a literal value we were tracking is no longer known
            cur = env.get(n)
            if isinstance(n, str) and cur is not None and cur[0] != "new" and cur[0] in ("list", "tuple", "dict", "op"):
                env[n] = ("sym", "%s@%s" % (n, tag))
        # stored attribute/subscript facts rooted at something the loop body mutates become unknown
        muts = rebound | only_mutated
        # facts about objects held in local names (e.g. h = wcs.to_header(); h["K"] = v) are rooted at that name
        holders = {}
        for name, val in env.items():
            if isinstance(name, str) and isinstance(val, tuple) and val and val[0] in ("call", "new"):
                holders.setdefault(val, set()).add(name)
        for k in [k for k in env if isinstance(k, tuple)]:
            root, first_attr = _root_of(k)
            if root is None:
                base = _base_of(k)
                names = holders.get(base)
                if names is not None and not (names & set(x for x in muts if isinstance(x, str))):
                    continue
                del env[k]
            elif root in muts or (root == "self" and ("self." + str(first_attr)) in muts):
                del env[k]
        return env

    def _join(self, cond, a, b):
        if a is None:
            return b
        if b is None:
            return a
        out = {}
        for k in set(a) | set(b):
            va, vb = a.get(k), b.get(k)
            if va == vb:
                out[k] = va
            elif va is None or vb is None:
                if isinstance(k, str):
                    out[k] = mk_ite(cond, va if va is not None else ("sym", k + "@undef"),
                                    vb if vb is not None else ("sym", k + "@undef"))
                else:
                    # an attribute / item stored on one branch only keeps its previous value (the lvalue itself) on the other
                    out[k] = mk_ite(cond, va if va is not None else k, vb if vb is not None else k)
            else:
                ext = _filtered_extension(va, vb)
                out[k] = ext if ext is not None else mk_ite(cond, va, vb)
        return out

    def _stmt(self, s, env, pc, res):
        if isinstance(s, ast.Assign):
            v = self._e(s.value, env, pc, res)
            if v[0] == "call" and len(s.targets) == 1 and isinstance(s.targets[0], ast.Name):
                last = v[1][2] if v[1][0] == "attr" else (v[1][1] if v[1][0] == "sym" else "")
                if last in ALLOCATORS or (last in ("list", "dict", "set", "OrderedDict", "defaultdict", "deque") and not v[2]):
                    v = ("new", s.targets[0].id, v)
            elif v in (("list", ()), ("dict", ())) and len(s.targets) == 1 and isinstance(s.targets[0], ast.Name):
                # an empty container that will be filled by mutation keeps its identity (the variable name)
                v = ("new", s.targets[0].id, v)
            env = dict(env)
            for t in s.targets:
                self._bind(t, v, env, pc, res)
            return env
        if isinstance(s, ast.AnnAssign):
            if s.value is None:
                return env
            v = self._e(s.value, env, pc, res)
            env = dict(env)
            self._bind(s.target, v, env, pc, res)
            return env
        if isinstance(s, ast.AugAssign):
            cur = self._e(_as_load(s.target), env, pc, res)
            rhs = self._e(s.value, env, pc, res)
            v = self._binop(s.op, cur, rhs)
            env = dict(env)
            self._bind(s.target, v, env, pc, res)
            return env
        if isinstance(s, ast.Expr):
            if isinstance(s.value, (ast.Yield, ast.YieldFrom)):
                self._e(s.value, env, pc, res)
                return env
            if isinstance(s.value, ast.Constant):
                return env
            self._e(s.value, env, pc, res)
            return env
        if isinstance(s, ast.Return):
            v = self._e(s.value, env, pc, res) if s.value is not None else NONE
            res.returns.append((pc, v, s))
            res.events.append(Event("return", v, s, pc))
            return None
        if isinstance(s, ast.Raise):
            v = self._e(s.exc, env, pc, res) if s.exc is not None else NONE
            res.events.append(Event("raise", v, s, pc))
            return None
        if isinstance(s, ast.If):
            return self._if(s, env, pc, res)[0]
        if isinstance(s, (ast.For, ast.AsyncFor)):
            it = self._e(s.iter, env, pc, res)
            if self.unroll and not s.orelse:
                items = self._static_items(it)
                if items is not None and not any(isinstance(x, (ast.Yield, ast.YieldFrom)) for b in s.body for x in ast.walk(b)):
                    out_env, extra = self._unrolled(s, items, env, pc, res)
                    self._pending_pc = extra
                    return out_env
            self._loop_counter += 1
            k = self._loop_counter
            res.loops.append((k, it, s))
            res.events.append(Event("loop", it, s, pc, extra=k))
            benv = self._havoc(env, s.body, "L%d" % k)
            self._bind(s.target, self._iter_elem(it), benv, pc, res)
            self._cont_stack.append(None)
            self._brk_stack.append(None)
            out = self._block(s.body, benv, pc + (("loop", k),), res)
            self._cont_stack.pop()
            self._brk_stack.pop()
            after = self._havoc(env, s.body, "A%d" % k)
            self._bind_havoc(s.target, after, "A%d" % k)
            if out is not None and not _has_loop_escape(s.body):
                # after >= 1 iterations the variables hold the values of the last iteration: keep the relations among
                # values computed in that same iteration (elem -> last); join with the pre-loop value for 0 iterations
                ran = ("op", "nonempty", (it,))
                for key, v in out.items():
                    if env.get(key) == v:
                        continue
                    v2 = _replace(v, ("elem", it), ("last", it))
                    pre = env.get(key)
                    if pre is None or isinstance(key, tuple):
                        after[key] = v2
                    else:
                        after[key] = ("ite", ran, v2, pre)
            res.after_loop[k] = dict(after)
            if s.orelse:
                after = self._block(s.orelse, after, pc, res)
            return after
        if isinstance(s, ast.While):
            self._loop_counter += 1
            k = self._loop_counter
            benv = self._havoc(env, s.body, "L%d" % k)
            c = self._e(s.test, benv, pc, res)
            res.loops.append((k, ("op", "while", (c,)), s))
            res.events.append(Event("loop", ("op", "while", (c,)), s, pc, extra=k))
            self._cont_stack.append(None)
            self._brk_stack.append(None)
            self._block(s.body, benv, pc + (("loop", k),), res)
            self._cont_stack.pop()
            self._brk_stack.pop()
            after = self._havoc(env, s.body, "A%d" % k)
            if s.orelse:
                after = self._block(s.orelse, after, pc, res)
            return after
        if isinstance(s, (ast.With, ast.AsyncWith)):
            env = dict(env)
            for it in s.items:
                v = self._e(it.context_expr, env, pc, res)
                res.events.append(Event("with", v, s, pc))
                entered = ("op", "enter", (v,))
                if self.inline_resolved and v[0] == "call":
                    y = self._enter_project_cm(v, res, pc, env)
                    if y is not None:
                        entered = y
                if it.optional_vars is not None:
                    self._bind(it.optional_vars, entered, env, pc, res)
            return self._block(s.body, env, pc, res)
        if isinstance(s, ast.Try):
            a = self._block(s.body, dict(env), pc, res)
            if a is not None and s.orelse:
                a = self._block(s.orelse, a, pc, res)
            out = a
            single_assign = len(s.body) == 1 and isinstance(s.body[0], ast.Assign) and all(isinstance(t_, ast.Name) for t_ in s.body[0].targets)
            fell_through = []
            for i, h in enumerate(s.handlers):
                # `try: x = <expr>`: if the expression raised, the assignment did not happen and x keeps its old value
                henv = dict(env) if single_assign else self._havoc(env, s.body, "T%d" % s.lineno)
                if h.name:
                    henv[h.name] = ("sym", h.name)
                ht = self._e(h.type, env, pc, res) if h.type is not None else NONE
                b = self._block(h.body, henv, pc + ((("op", "except", (ht,)), True),), res)
                if b is not None:
                    fell_through.append(("op", "except", (ht,)))
                out = self._join(("op", "except", (ht,)), b, out) if out is not None or b is not None else None
            if s.finalbody:
                if out is None:
                    self._block(s.finalbody, self._havoc(env, s.body, "F%d" % s.lineno), pc, res)
                else:
                    out = self._block(s.finalbody, out, pc, res)
            if a is None and out is not None and len(fell_through) == 1 and _leaves_block(s.body):
                # `try: return X` / `except E: pass`: the rest of the block runs only when E was raised
                self._pending_pc = ((fell_through[0], True),)
            return out
        if isinstance(s, (ast.FunctionDef, ast.AsyncFunctionDef)):
            res.nested[s.name] = (s, dict(env))
            env = dict(env)
            env[s.name] = ("sym", "<closure %s>" % s.name)
            self._closures[s.name] = (s, env)
            return env
        if isinstance(s, ast.Delete):
            for t in s.targets:
                v = self._e(_as_load(t), env, pc, res)
                res.events.append(Event("del", v, s, pc))
            return env
        if isinstance(s, ast.Assert):
            c = self._e(s.test, env, pc, res)
            res.events.append(Event("assert", c, s, pc))
            return env
        if isinstance(s, (ast.Import, ast.ImportFrom, ast.Pass, ast.Global, ast.Nonlocal, ast.ClassDef)):
            return env
        if isinstance(s, (ast.Break, ast.Continue)):
            res.events.append(Event("break" if isinstance(s, ast.Break) else "continue", None, s, pc))
            if isinstance(s, ast.Continue) and self._cont_stack and self._cont_stack[-1] is not None:
                self._cont_stack[-1].append((pc, dict(env)))
            if isinstance(s, ast.Break) and self._brk_stack and self._brk_stack[-1] is not None:
                self._brk_stack[-1].append((pc, dict(env)))
            return None
        return env

    def _bind_havoc(self, target, env, tag):
        for x in ast.walk(target):
            if isinstance(x, ast.Name):
                env[x.id] = ("sym", "%s@%s" % (x.id, tag))

    def _bind(self, target, v, env, pc, res):
        if isinstance(target, ast.Name):
            env[target.id] = v
            res.events.append(Event("assign", ("tuple", (("sym", target.id), v)), target, pc))
        elif isinstance(target, (ast.Tuple, ast.List)):
            n = len(target.elts)
            for i, t in enumerate(target.elts):
                if isinstance(t, ast.Starred):
                    self._bind(t.value, ("item", v, "%d:" % i), env, pc, res)
                else:
                    self._bind(t, self._item(v, i, n), env, pc, res)
        elif isinstance(target, (ast.Attribute, ast.Subscript)):
            lv = self._lvalue(target, env, pc, res)
            env[lv] = v
            res.events.append(Event("store", ("tuple", (lv, v)), target, pc))
        elif isinstance(target, ast.Starred):
            self._bind(target.value, v, env, pc, res)

    def _lvalue(self, target, env, pc, res):
        if isinstance(target, ast.Attribute):
            return ("attr", self._e(target.value, env, pc, res), target.attr)
        base = self._e(target.value, env, pc, res)
        idx = self._e(target.slice, env, pc, res)
        k = _as_int(idx)
        if k is not None and k >= 0:
            return ("item", base, k)
        return ("sub", base, idx)

    def _item(self, v, i, n=None):
        if v[0] == "sub" and v[2][0] == "slice" and isinstance(i, int) and i >= 0:
            # x[lo:hi][i] is x[lo + i] when it exists
            lo, hi, st = v[2][1], v[2][2], v[2][3]
            lo_k = 0 if lo == NONE else _as_int(lo)
            hi_k = None if hi == NONE else _as_int(hi)
            if lo_k is not None and lo_k >= 0 and (st == NONE or _as_int(st) == 1) and (hi == NONE or (hi_k is not None and lo_k + i < hi_k)):
                return self._item(v[1], lo_k + i, None)
        if v[0] in ("tuple", "list") and not any(x[0] == "star" for x in v[1]):
            if i < len(v[1]):
                return v[1][i]
        if v[0] == "nt" and i < len(v[2]):
            return v[2][i]
        if v[0] == "ite":
            return mk_ite(v[1], self._item(v[2], i, n), self._item(v[3], i, n))
        return ("item", v, i)

    # -- expressions --------------------------------------------------------
    def _e(self, n, env, pc, res):
        if n is None:
            return NONE
        if isinstance(n, ast.Constant):
            v = n.value
            if isinstance(v, bool) or v is None or isinstance(v, (str, bytes)) or v is Ellipsis:
                return ("const", v)
            if isinstance(v, (int, float)):
                try:
                    return num(Fr(v))
                except (ValueError, OverflowError):
                    return ("const", repr(v))
            return ("const", repr(v))
        if isinstance(n, ast.Name):
            if n.id in env:
                v = env[n.id]
                # a case distinction already decided by the path condition
                while v[0] == "ite" and ((v[1], True) in pc or (v[1], False) in pc):
                    v = v[2] if (v[1], True) in pc else v[3]
                return v
            return ("sym", n.id)
        if isinstance(n, ast.Attribute):
            d = dotted(n)
            if d in ("np.pi", "numpy.pi", "math.pi"):
                return PI
            base = self._e(n.value, env, pc, res)
            lv = ("attr", base, n.attr)
            if lv in env:
                return env[lv]
            if base[0] == "nt":
                fields = self.namedtuples.get(base[1])
                if fields and n.attr in fields:
                    return base[2][fields.index(n.attr)]
            if base[0] == "ite":
                return mk_ite(base[1], self._attr(base[2], n.attr, env), self._attr(base[3], n.attr, env))
            if n.attr in ("start", "stop", "step") and ((base[0] == "call" and base[1] == ("sym", "slice") and not base[3] and 1 <= len(base[2]) <= 3) or base[0] == "slice"):
                # slice(a, b[, c]).start / .stop / .step
                if base[0] == "slice":
                    parts = list(base[1:4])
                elif len(base[2]) == 1:
                    parts = [NONE, base[2][0], NONE]
                else:
                    parts = list(base[2]) + [NONE] * (3 - len(base[2]))
                return parts[("start", "stop", "step").index(n.attr)]
            if n.attr.isupper():
                return self._attr(base, n.attr, env)        # class-level constants of locally created project objects
            return lv
        if isinstance(n, ast.BinOp):
            return self._binop(n.op, self._e(n.left, env, pc, res), self._e(n.right, env, pc, res))
        if isinstance(n, ast.UnaryOp):
            v = self._e(n.operand, env, pc, res)
            if isinstance(n.op, ast.USub):
                return neg(v)
            if isinstance(n.op, ast.UAdd):
                return v
            if isinstance(n.op, ast.Not):
                return ("op", "not", (v,))
            return ("op", "invert", (v,))
        if isinstance(n, ast.BoolOp):
            vs = tuple(self._e(x, env, pc, res) for x in n.values)
            return ("op", "and" if isinstance(n.op, ast.And) else "or", vs)
        if isinstance(n, ast.Compare):
            left = self._e(n.left, env, pc, res)
            parts = []
            for op, c in zip(n.ops, n.comparators):
                r = self._e(c, env, pc, res)
                opn = type(op).__name__
                folded = None
                if opn in ("Is", "IsNot", "Eq", "NotEq"):
                    # a module-level function / class of the project (a value picked from a table of handlers) is not None
                    for x_, y_ in ((left, r), (r, left)):
                        if x_ == NONE and y_[0] == "sym" and self._names_project_callable(y_[1]):
                            folded = FALSE if opn in ("Is", "Eq") else TRUE
                parts.append(folded if folded is not None else cmp(opn, left, r))
                left = r
            return parts[0] if len(parts) == 1 else ("op", "and", tuple(parts))
        if isinstance(n, ast.IfExp):
            c = self._e(n.test, env, pc, res)
            d = self._decide(c)
            if d is not None:
                return self._e(n.body if d else n.orelse, env, pc, res)
            a = self._e(n.body, env, pc, res)
            b = self._e(n.orelse, env, pc, res)
            return mk_ite(c, a, b)
        if isinstance(n, (ast.Tuple, ast.List)):
            items = []
            for x in n.elts:
                if isinstance(x, ast.Starred):
                    v = self._e(x.value, env, pc, res)
                    if v[0] in ("tuple", "list") and not any(y[0] == "star" for y in v[1]):
                        items.extend(v[1])
                    else:
                        items.append(("star", v))
                else:
                    items.append(self._e(x, env, pc, res))
            return ("tuple" if isinstance(n, ast.Tuple) else "list", tuple(items))
        if isinstance(n, ast.Subscript):
            base = self._e(n.value, env, pc, res)
            idx = self._e(n.slice, env, pc, res)
            lv = ("sub", base, idx)
            if lv in env:
                return env[lv]
            if base[0] == "dict" and base[1] and all(kk[0] != "const" or kk[1] != "**" for kk, _v in base[1]):
                hit = self._table_lookup(base, idx, ("op", "keyerror", (idx,)))
                if hit is not None:
                    return hit
            k = num_value(idx)
            if k is not None and k.denominator == 1:
                k = int(k)
                if base[0] in ("tuple", "list") and not any(x[0] == "star" for x in base[1]):
                    if -len(base[1]) <= k < len(base[1]):
                        return base[1][k]
                if base[0] == "nt" and 0 <= k < len(base[2]):
                    return base[2][k]
                if k >= 0:
                    # x[k] with a constant k is the same thing as the k-th item of an unpacking of x
                    if base[0] == "sub" and base[2][0] == "slice":
                        return self._item(base, k)
                    lv = ("item", base, k)
                    if lv in env:
                        return env[lv]
                    if base[0] == "ite":
                        return mk_ite(base[1], self._item(base[2], k), self._item(base[3], k))
            return lv
        if isinstance(n, ast.Slice):
            return ("slice", self._e(n.lower, env, pc, res), self._e(n.upper, env, pc, res),
                    self._e(n.step, env, pc, res))
        if isinstance(n, ast.Call):
            return self._call(n, env, pc, res)
        if isinstance(n, ast.Yield):
            v = self._e(n.value, env, pc, res) if n.value is not None else NONE
            res.yields.append((pc, v, n))
            res.events.append(Event("yield", v, n, pc))
            return ("sym", "<sent>")
        if isinstance(n, ast.YieldFrom):
            v = self._e(n.value, env, pc, res)
            res.yields.append((pc, ("star", v), n))
            res.events.append(Event("yield", ("star", v), n, pc))
            return ("sym", "<sent>")
        if isinstance(n, ast.Lambda):
            res.lambdas.append((n, dict(env)))
            return ("lambda", ast.dump(n), id(n))
        if isinstance(n, ast.Dict):
            items = tuple((self._e(k, env, pc, res) if k is not None else ("const", "**"),
                           self._e(v, env, pc, res)) for k, v in zip(n.keys, n.values))
            return ("dict", items)
        if isinstance(n, ast.JoinedStr):
            parts = []
            for v in n.values:
                if isinstance(v, ast.Constant):
                    parts.append(("const", v.value))
                elif isinstance(v, ast.FormattedValue):
                    parts.append(("op", "fmt", (self._e(v.value, env, pc, res),
                                                self._e(v.format_spec, env, pc, res) if v.format_spec else NONE)))
            return ("fstr", tuple(parts))
        if isinstance(n, ast.Starred):
            return ("star", self._e(n.value, env, pc, res))
        if isinstance(n, (ast.ListComp, ast.GeneratorExp, ast.SetComp, ast.DictComp)):
            return self._comp(n, env, pc, res)
        if isinstance(n, ast.NamedExpr):
            v = self._e(n.value, env, pc, res)
            env[n.target.id] = v
            return v
        if isinstance(n, ast.Set):
            return ("op", "set", tuple(self._e(x, env, pc, res) for x in n.elts))
        return ("op", "unknown", (("const", ast.dump(n)),))

    def _static_items(self, it):
        """The items of an iterable whose contents are known statically (None otherwise)."""
        if self.static_len is not None:
            k = self.static_len(it)
            if k is not None:
                return [self._item(it, i) for i in range(k)]
        if it[0] in ("list", "tuple") and not any(x[0] == "star" for x in it[1]):
            return list(it[1])
        if it[0] == "ite":
            a, b = self._static_items(it[2]), self._static_items(it[3])
            if a is not None and b is not None and len(a) == len(b):
                return [mk_ite(it[1], x, y) for x, y in zip(a, b)]
            return None
        if it[0] == "call" and not it[3]:
            name = show(it[1])
            if name == "range" and 1 <= len(it[2]) <= 3:
                ks = [_as_int(a) for a in it[2]]
                if all(k is not None for k in ks):
                    r = range(*ks) if len(ks) != 3 or ks[2] != 0 else None
                    if r is not None and len(r) <= 16:
                        return [num(k) for k in r]
            if name == "enumerate" and len(it[2]) == 1:
                xs = self._static_items(it[2][0])
                if xs is not None:
                    return [("tuple", (num(i), x)) for i, x in enumerate(xs)]
            if name == "zip" and it[2]:
                cols = [self._static_items(a) for a in it[2]]
                if all(c is not None for c in cols):
                    return [("tuple", tuple(row)) for row in zip(*cols)]
            if name == "reversed" and len(it[2]) == 1:
                xs = self._static_items(it[2][0])
                if xs is not None:
                    return list(reversed(xs))
            if name in ("list", "tuple", "iter") and len(it[2]) == 1:
                return self._static_items(it[2][0])
        return None

    def _iter_elem(self, it):
        """The generic element of an iteration over *it*."""
        if it[0] == "call" and show(it[1]) in ("itertools.product", "product"):
            kw = dict(it[3])
            rep = _as_int(kw.get("repeat", ONE))
            if rep is not None and 1 <= rep <= 4 and set(kw) <= {"repeat"}:
                return ("tuple", tuple(("elem", a) for a in it[2]) * rep)
        if it[0] == "call" and show(it[1]) == "enumerate" and len(it[2]) == 1 and not it[3]:
            return ("tuple", (("op", "index", (it[2][0],)), self._iter_elem(it[2][0])))
        if it[0] == "call" and show(it[1]) == "zip" and not it[3]:
            return ("tuple", tuple(self._iter_elem(a) for a in it[2]))
        return ("elem", it)

    def _comp(self, n, env, pc, res):
        """Comprehensions.  Over statically known iterables (literal sequences, range(k), the result of an
        inlined helper) they are unrolled to a list of elements; otherwise they become
        comp(kind, element, iterable, condition, ...) over the generic element of each iterable."""
        is_dict = isinstance(n, ast.DictComp)
        out = []          # (elt, conds)
        static = [True]
        generic = []

        def elt_of(e2, pcx):
            if is_dict:
                return ("tuple", (self._e(n.key, e2, pcx, res), self._e(n.value, e2, pcx, res)))
            return self._e(n.elt, e2, pcx, res)

        def rec(gens, e2, conds, pcx):
            if not gens:
                out.append((elt_of(e2, pcx), tuple(conds)))
                return
            g = gens[0]
            it = self._e(g.iter, e2, pcx, res)
            items = self._static_items(it)
            if items is not None:
                for item in items:
                    e3 = dict(e2)
                    self._bind(g.target, item, e3, pcx, Result())
                    cs, dead = [], False
                    pcy = pcx
                    for c in g.ifs:
                        ct = self._e(c, e3, pcy, res)
                        d = _const_truth(ct)
                        if d is None:
                            d = self._decide(ct)
                        if d is False:
                            dead = True
                            break
                        if d is None:
                            cs.append(ct)
                            pcy = pcy + tuple(literals(ct, True))
                    if not dead:
                        rec(gens[1:], e3, conds + cs, pcy)
            else:
                static[0] = False
                self._loop_counter += 1
                k = self._loop_counter
                res.loops.append((k, it, n))
                e3 = dict(e2)
                self._bind(g.target, self._iter_elem(it), e3, pcx, Result())
                pcy = pcx + (("loop", k),)
                cs = []
                for c in g.ifs:
                    ct = self._e(c, e3, pcy, res)
                    cs.append(ct)
                    pcy = pcy + tuple(literals(ct, True))
                generic.append((it, tuple(cs)))
                rec(gens[1:], e3, conds + cs, pcy)

        rec(list(n.generators), dict(env), [], pc)
        kind = {ast.ListComp: "list", ast.GeneratorExp: "list", ast.SetComp: "set", ast.DictComp: "dict"}[type(n)]
        if static[0]:
            if all(not cs for _, cs in out):
                if kind == "dict":
                    return ("dict", tuple((e[1][0], e[1][1]) for e, _ in out))
                if kind == "set":
                    return ("op", "set", tuple(e for e, _ in out))
                return ("list", tuple(e for e, _ in out))
            return ("op", "filtered", tuple(("tuple", (_conj(cs), e)) for e, cs in out))
        if len(out) != 1:
            return ("op", "comp", (("const", ast.dump(n)),))
        elt, _ = out[0]
        parts = [("const", kind), elt]
        for it, cs in generic:
            parts += [it, _conj(cs)]
        return ("op", "comp", tuple(parts))

    def _attr(self, base, name, env):
        if base[0] == "nt":
            fields = self.namedtuples.get(base[1])
            if fields and name in fields:
                return base[2][fields.index(name)]
        # a class-level constant read through an instance the function created itself: `Table().LIMIT`
        obj = base[2] if base[0] == "new" else base
        if obj[0] == "call" and obj[1][0] == "sym" and self.project is not None and name.isupper():
            for q, (cnode, cmod) in self.project.classes.items():
                if q.rsplit(".", 1)[-1] == obj[1][1]:
                    for m in cnode.body:
                        if isinstance(m, ast.Assign) and len(m.targets) == 1 and isinstance(m.targets[0], ast.Name) and m.targets[0].id == name \
                                and isinstance(m.value, ast.Constant) and isinstance(m.value.value, (int, float, str)) and not isinstance(m.value.value, bool):
                            v = m.value.value
                            return num(v) if isinstance(v, (int, float)) else ("const", v)
        return ("attr", base, name)

    def _binop(self, op, a, b):
        if isinstance(op, ast.Add):
            if a[0] in ("tuple", "list") and b[0] == a[0]:
                return (a[0], a[1] + b[1])
            def _strish(x):
                return x[0] in ("const", "fstr", "tuple", "list") or (x[0] == "op" and x[1] in ("concat", "repeat"))
            if _strish(a) or _strish(b):
                parts = (a[2] if (a[0] == "op" and a[1] == "concat") else (a,)) + (b[2] if (b[0] == "op" and b[1] == "concat") else (b,))
                return ("op", "concat", tuple(parts))
            return add(a, b)
        if isinstance(op, ast.Sub):
            return sub(a, b)
        if isinstance(op, ast.Mult):
            if a[0] in ("const", "tuple", "list") or b[0] in ("const", "tuple", "list"):
                return ("op", "repeat", (a, b))
            return mul(a, b)
        if isinstance(op, ast.Div):
            return div(a, b)
        if isinstance(op, ast.Pow):
            k = num_value(b)
            if k is not None and k.denominator == 1 and 0 <= k <= 8:
                return powi(a, int(k))
            return ("op", "pow", (a, b))
        ia, ib = _as_int(a), _as_int(b)
        if ia is not None and ib is not None:
            try:
                if isinstance(op, ast.FloorDiv) and ib != 0:
                    return num(ia // ib)
                if isinstance(op, ast.Mod) and ib != 0:
                    return num(ia % ib)
                if isinstance(op, ast.LShift) and 0 <= ib < 64:
                    return num(ia << ib)
                if isinstance(op, ast.RShift) and 0 <= ib < 64:
                    return num(ia >> ib)
                if isinstance(op, ast.BitOr):
                    return num(ia | ib)
                if isinstance(op, ast.BitAnd):
                    return num(ia & ib)
                if isinstance(op, ast.BitXor):
                    return num(ia ^ ib)
                if isinstance(op, ast.Pow) and 0 <= ib < 64:
                    return num(ia ** ib)
            except (ValueError, OverflowError):
                pass
        if isinstance(op, ast.FloorDiv):
            return ("op", "floordiv", (a, b))
        if isinstance(op, ast.Mod):
            return ("op", "mod", (a, b))
        if isinstance(op, ast.LShift):
            if num_value(a) == 1:
                return ("op", "lshift", (a, b))   # bit masks stay recognisable as 1 << k
            # a << b  ==  a * 2**b
            return mul(a, ("op", "pow", (num(2), b)))
        if isinstance(op, ast.RShift):
            return ("op", "rshift", (a, b))
        if isinstance(op, ast.BitOr):
            return ("op", "bitor", tuple(sorted((a, b), key=_key)))
        if isinstance(op, ast.BitAnd):
            return ("op", "bitand", tuple(sorted((a, b), key=_key)))
        if isinstance(op, ast.BitXor):
            return ("op", "bitxor", tuple(sorted((a, b), key=_key)))
        if isinstance(op, ast.MatMult):
            return ("op", "matmul", (a, b))
        return ("op", type(op).__name__, (a, b))

    def _call(self, n, env, pc, res):
        # a method call on a receiver that is a case distinction stays one call on that receiver
        self._callee_attr = isinstance(n.func, ast.Attribute)
        try:
            if isinstance(n.func, ast.Attribute):
                base = self._e(n.func.value, env, pc, res)
                self._callee_attr = False
                fnode = n.func
                d = dotted(fnode)
                lv = ("attr", base, fnode.attr)
                if base[0] == "ite" and not _has_nt_arm(base):
                    f = lv
                else:
                    f = self._e(n.func, env, pc, Result())
            else:
                f = self._e(n.func, env, pc, res)
        finally:
            self._callee_attr = False
        args = []
        for x in n.args:
            if isinstance(x, ast.Starred):
                v = self._e(x.value, env, pc, res)
                if v[0] in ("tuple", "list") and not any(y[0] == "star" for y in v[1]):
                    args.extend(v[1])
                elif self._static_items(v) is not None:
                    args.extend(self._static_items(v))
                else:
                    args.append(("star", v))
            else:
                args.append(self._e(x, env, pc, res))
        kws = []
        for k in n.keywords:
            v = self._e(k.value, env, pc, res)
            if k.arg is None and v[0] == "dict" and v[1] and all(kk[0] == "const" and isinstance(kk[1], str) and kk[1] != "**" for kk, _vv in v[1]):
                kws.extend((kk[1], vv) for kk, vv in v[1])      # f(**{"a": x, "b": y}) is f(a=x, b=y)
                continue
            kws.append((k.arg if k.arg is not None else "**", v))
        kws.sort(key=lambda kv: kv[0])
        if f == ("sym", "dict") and not args and kws and all(k != "**" for k, _v in kws) and "dict" not in env:
            return ("dict", tuple((("const", k), v) for k, v in kws))          # dict(a=x, b=y) is {"a": x, "b": y}
        if f[0] == "attr" and f[2] == "get" and f[1][0] == "dict" and 1 <= len(args) <= 2 and not kws and f[1][1]:
            hit = self._table_lookup(f[1], args[0], args[1] if len(args) == 2 else NONE)
            if hit is not None:
                return hit
        if f[0] == "ite" and not any(a[0] == "star" for a in args):
            # the callee is chosen by a case distinction (e.g. looked up in a table of functions): call each alternative
            # under its condition
            return self._call_alternatives(f, n, args, kws, env, pc, res)
        return self._call_with(f, n, args, kws, env, pc, res)

    def _call_with(self, f, n, args, kws, env, pc, res):
        """The call of the (evaluated) callee term *f* with evaluated arguments."""
        args = list(args)
        kws = list(kws)
        fname = show(f)
        # named tuples: canonical positional form
        if f[0] == "sym" and f[1] in self.namedtuples or (f[0] == "attr" and f[2] in self.namedtuples):
            tname = f[1] if f[0] == "sym" else f[2]
            fields = self.namedtuples[tname]
            vals = list(args) + [None] * (len(fields) - len(args))
            ok = len(args) <= len(fields)
            for k, v in kws:
                if k in fields and vals[fields.index(k)] is None:
                    vals[fields.index(k)] = v
                else:
                    ok = False
            if ok and all(v is not None for v in vals):
                t = ("nt", tname, tuple(vals))
                res.events.append(Event("call", ("call", f, tuple(args), tuple(kws)), n, pc, extra=t))
                return t
        # methods of a string constant with constant arguments
        if f[0] == "attr" and f[1][0] == "const" and isinstance(f[1][1], str) and not kws \
                and f[2] in ("startswith", "endswith", "lower", "upper", "strip", "lstrip", "rstrip", "isdigit", "isalpha", "count", "find") \
                and all(a[0] == "const" and isinstance(a[1], (str, tuple)) for a in args):
            try:
                v = getattr(f[1][1], f[2])(*[a[1] for a in args])
                return (TRUE if v else FALSE) if isinstance(v, bool) else (num(v) if isinstance(v, int) else ("const", v))
            except Exception:
                pass
        if fname in ("any", "all", "sum", "len", "list", "tuple") and len(args) == 1 and not kws:
            arg0 = args[0]
            if arg0[0] not in ("list", "tuple") and not (arg0[0] == "op" and arg0[1] == "filtered"):
                items = self._static_items(arg0)
                if items is not None:
                    arg0 = ("list", tuple(items))
            folded = _fold_reducer(fname, arg0)
            if folded is not None:
                return folded
        if fname in ("min", "max") and len(args) == 1 and not kws and args[0][0] in ("list", "tuple") and len(args[0][1]) >= 1 \
                and not any(x[0] == "star" for x in args[0][1]):
            args = list(args[0][1])
            if len(args) == 1:
                return args[0]
        if kws or args:
            args, kws = self._canonical_args(f, args, kws)
        # numpy spellings of the same boolean array operation
        if fname in ("np.logical_not", "numpy.logical_not") and len(args) == 1 and not kws:
            return ("op", "invert", (args[0],))
        if f[0] == "attr" and f[2] in ("any", "all") and not args and f[1][0] in ("call", "sub", "op", "item", "attr") and show(f[1]) not in ("np", "numpy") \
                and set(k for k, v in kws) <= {"axis"}:
            f = ("attr", ("sym", "np"), f[2])
            args = [self._recv_of(n, env, pc)]          # x.any(axis=k) is np.any(x, axis=k)
            fname = show(f)
        if fname in ("np.all", "numpy.all") and len(args) == 1 and args[0][0] == "op" and args[0][1] == "invert" and set(k for k, v in kws) <= {"axis"}:
            inner = ("call", ("attr", ("sym", "np"), "any"), (args[0][2][0],), tuple(kws))
            res.events.append(Event("call", inner, n, pc))
            return ("op", "invert", (inner,))
        if fname == "divmod" and not kws and len(args) == 2:
            return ("tuple", (self._binop(ast.FloorDiv(), args[0], args[1]), self._binop(ast.Mod(), args[0], args[1])))
        if fname == "range" and not kws and len(args) == 2 and args[0] == ZERO:
            args = [args[1]]           # range(0, n) is range(n)
        if fname == "range" and not kws and len(args) == 3 and args[2] == ONE:
            args = [args[1]] if args[0] == ZERO else list(args[:2])
        if fname in COMMUTATIVE_CALLS and not kws and len(args) >= 2:
            args = sorted(set(args), key=_key)
            if len(args) == 1:
                return args[0]
        if fname in ("np.mod", "np.remainder", "numpy.mod", "numpy.remainder") and len(args) == 2 and not kws:
            return self._binop(ast.Mod(), args[0], args[1])
        if fname == "getattr" and len(args) in (2, 3) and not kws and args[1][0] == "const" and isinstance(args[1][1], str):
            if len(args) == 2:
                lvk = ("attr", args[0], args[1][1])
                return env.get(lvk, self._attr(args[0], args[1][1], env))
        if f[0] == "attr" and f[2] == "_replace" and f[1][0] == "nt" and not args and kws and f[1][1] in self.namedtuples:
            flds = self.namedtuples[f[1][1]]
            if all(k in flds for k, _v in kws):
                vals = list(f[1][2])
                for k, v_ in kws:
                    vals[flds.index(k)] = v_
                return ("nt", f[1][1], tuple(vals))            # record._replace(field=value)
        if fname in ("np.isnan", "numpy.isnan", "math.isnan") and len(args) == 1 and not kws:
            if is_num(args[0]) or args[0] in (TRUE, FALSE):
                return FALSE                                     # a finite literal
            if args[0] in (("attr", ("sym", "np"), "nan"), ("attr", ("sym", "numpy"), "nan"), ("attr", ("sym", "math"), "nan"), ("attr", ("sym", "np"), "NaN")):
                return TRUE
        if fname == "dict" and len(args) == 1 and not kws and args[0][0] in ("list", "tuple") and args[0][1] \
                and all(x[0] == "tuple" and len(x[1]) == 2 for x in args[0][1]):
            return ("dict", tuple((x[1][0], x[1][1]) for x in args[0][1]))            # dict([(k, v), ...])
        if f[0] == "attr" and f[2] == "update" and len(args) == 1 and not kws and args[0][0] == "dict" and args[0][1] \
                and all(k[0] == "const" and k[1] != "**" for k, _v in args[0][1]) and f[1][0] not in ("dict", "const"):
            # m.update({"a": x, "b": y}) is m["a"] = x; m["b"] = y
            for k, v in args[0][1]:
                lvk = ("sub", f[1], k)
                env[lvk] = v
                res.events.append(Event("store", ("tuple", (lvk, v)), n, pc))
            return NONE
        if fname == "setattr" and len(args) == 3 and not kws and args[1][0] == "const" and isinstance(args[1][1], str):
            lvk = ("attr", args[0], args[1][1])
            env[lvk] = args[2]
            res.events.append(Event("store", ("tuple", (lvk, args[2])), n, pc))
            return NONE
        # floor(log2(x)) in its two spellings: int(np.log2(x)) / int(math.log2(x)) and x.bit_length() - 1
        if fname == "int" and len(args) == 1 and not kws and args[0][0] == "call" and show(args[0][1]) in ("np.log2", "numpy.log2", "math.log2") \
                and len(args[0][2]) == 1 and not args[0][3]:
            return ("op", "ilog2", (args[0][2][0],))
        if f[0] == "attr" and f[2] == "bit_length" and not args and not kws:
            return add(("op", "ilog2", (f[1],)), ONE)
        if fname in ("np.flipud", "numpy.flipud") and len(args) == 1 and not kws:
            return ("sub", args[0], ("slice", NONE, NONE, num(-1)))        # flipud(a) is a[::-1]
        if fname in ("np.flip", "numpy.flip") and len(args) == 1 and dict(kws).get("axis") == ZERO and len(kws) == 1:
            return ("sub", args[0], ("slice", NONE, NONE, num(-1)))
        if fname in ("np.floor_divide", "numpy.floor_divide") and len(args) == 2 and not kws:
            return self._binop(ast.FloorDiv(), args[0], args[1])
        if fname in ("int", "float") and len(args) == 1 and not kws and is_num(args[0]):
            return args[0] if fname == "float" or num_value(args[0]).denominator == 1 else ("call", f, tuple(args), ())
        t = ("call", f, tuple(args), tuple(kws))
        if self.volatile and isinstance(n.func, ast.Attribute) and n.func.attr in self.volatile:
            # a read of shared mutable state: two reads are two values, told apart by their site
            t = ("vol", t, getattr(n, "lineno", 0), getattr(n, "col_offset", 0))
            res.events.append(Event("call", t[1], n, pc, extra=t))
            return t
        ev = Event("call", t, n, pc)
        res.events.append(ev)
        # straight-line code (unrolled evaluation): appending to a local list literal extends the literal
        if self.unroll and isinstance(n.func, ast.Attribute) and isinstance(n.func.value, ast.Name) and n.func.attr == "append" \
                and len(args) == 1 and not kws and not any(c[0] == "loop" for c in pc):
            cur = env.get(n.func.value.id)
            items = None
            if cur is not None and cur[0] == "list" and not any(x[0] == "star" for x in cur[1]):
                items = cur[1]
            elif cur is not None and cur[0] == "new" and cur[2] == ("list", ()):
                items = ()
            if items is not None and not [c for c in pc if c[0] != "loop"]:
                env[n.func.value.id] = ("list", tuple(items) + (args[0],))
                return NONE
            # `if c: L.append(v)`: the list holds v exactly when c (the conditions on the way here) held
            pairs = None
            if items is not None:
                pairs = tuple(("tuple", (TRUE, x)) for x in items)
            elif cur is not None and cur[0] == "op" and cur[1] == "filtered":
                pairs = cur[2]
            if pairs is not None:
                cond = _conj([(c if pol else ("op", "not", (c,))) for c, pol in pc if c[0] != "loop"])
                env[n.func.value.id] = ("op", "filtered", tuple(pairs) + (("tuple", (cond, args[0])),))
                return NONE
        # a mutating method call on a local container invalidates its literal value
        if isinstance(n.func, ast.Attribute) and isinstance(n.func.value, ast.Name) and n.func.attr in MUTATORS:
            cur = env.get(n.func.value.id)
            if cur is not None and cur[0] in ("list", "tuple", "dict", "op"):
                env[n.func.value.id] = ("sym", n.func.value.id)
        elif isinstance(n.func, ast.Attribute) and n.func.attr in MUTATORS and f[0] == "attr" and f[1][0] in ("list", "tuple", "dict"):
            # mutation of a container stored in an attribute/subscript whose literal value we were tracking
            for key in [k2 for k2, v2 in env.items() if isinstance(k2, tuple) and v2 == f[1]]:
                del env[key]
        # bounded inlining of pure project helpers
        target = None
        if f[0] == "sym" and f[1] in self.inline:
            target = self.inline[f[1]]
        elif f[0] == "attr" and f[1][0] == "sym" and (f[1][1] + "." + f[2]) in self.inline:
            target = self.inline[f[1][1] + "." + f[2]]
        if target is None and self.local_module and self.project is not None and f[0] == "sym" \
                and f[1] not in self.no_inline:
            q = self.local_module + "." + f[1]
            cand = self.project.funcs.get(q)
            if cand is not None and cand.qual not in self._stack and not _is_generator(cand.node):
                target = cand
        if target is None and self.self_class and self.project is not None and f[0] == "attr" and f[1] == ("sym", "self") \
                and f[2] not in self.no_inline:
            cand = self.project.funcs.get(self.self_class + "." + f[2])
            if cand is not None and cand.qual not in self._stack and not _is_generator(cand.node) \
                    and not any((dotted(d) or "").endswith(("property", "contextmanager", "classmethod", "staticmethod")) for d in cand.node.decorator_list):
                margs = [("sym", "self")] + list(args)
                if self._depth < self.max_inline_depth and not any(a[0] == "star" for a in margs):
                    # what is known about the object's fields holds inside its own method, and what the method
                    # stores into them holds afterwards
                    self_facts = {k: v for k, v in env.items() if isinstance(k, tuple) and _root_of(k)[0] == "self"}
                    back = {}
                    r = self._inline(cand, margs, kws, res, pc, env=self_facts, out_env=back)
                    if r is not None:
                        for k, v in back.items():
                            if isinstance(k, tuple) and _root_of(k)[0] == "self":
                                env[k] = v
                        ev.extra = r
                        return r
        if target is None and self.self_class and self.project is not None and f[0] == "attr" and f[2] not in self.no_inline \
                and f[1] in (("sym", "cls"), ("sym", "self"), ("sym", self.self_class.rsplit(".", 1)[-1])):
            # classmethods / staticmethods of the class under analysis: cls.helper(..), self.helper(..), Class.helper(..)
            cand = self.project.funcs.get(self.self_class + "." + f[2])
            if cand is not None and cand.qual not in self._stack and not _is_generator(cand.node):
                decos = [(dotted(d) or "") for d in cand.node.decorator_list]
                margs = None
                if any(d.endswith("classmethod") for d in decos):
                    margs = [("sym", "cls")] + list(args)
                elif any(d.endswith("staticmethod") for d in decos):
                    margs = list(args)
                if margs is not None and self._depth < self.max_inline_depth and not any(a[0] == "star" for a in margs):
                    r = self._inline(cand, margs, kws, res, pc)
                    if r is not None:
                        ev.extra = r
                        return r
        if target is None and self.recv_classes and self.project is not None and f[0] == "attr" and f[1] in self.recv_classes \
                and f[2] not in self.no_inline:
            cand = self.project.funcs.get(self.recv_classes[f[1]] + "." + f[2])
            if cand is not None and cand.qual not in self._stack and not _is_generator(cand.node) \
                    and not any((dotted(d) or "").endswith(("property", "contextmanager", "classmethod", "staticmethod")) for d in cand.node.decorator_list):
                margs = [f[1]] + list(args)
                if self._depth < self.max_inline_depth and not any(a[0] == "star" for a in margs):
                    facts = {k: v for k, v in env.items() if isinstance(k, tuple)}
                    r = self._inline(cand, margs, kws, res, pc, env=facts)
                    if r is not None:
                        ev.extra = r
                        return r
        if target is None and self.model_objects and self.project is not None and self._depth < self.max_inline_depth \
                and not any(a[0] == "star" for a in args) and not any(k == "**" for k, _v in kws):
            # (a) construction of a project object: the constructor runs on a fresh symbol, what it stores into the object's fields
            #     is remembered in the environment, and the symbol is the value
            if f[0] == "sym" and f[1] not in self.no_inline and f[1] not in self.namedtuples:
                cand, bound = self._callee(f)
                if cand is not None and cand.node.name == "__init__" and bound and cand.qual not in self._stack and cand.module.kind == "py":
                    osym = ("sym", "$%s@%d" % (f[1], getattr(n, "lineno", 0)))
                    facts = {k: v for k, v in env.items() if isinstance(k, tuple)}
                    back = {}
                    r = self._inline(cand, [osym] + list(args), kws, res, pc, env=facts, out_env=back)
                    if r is not None and r[0] != "op":
                        fields = {}
                        for k, v in back.items():
                            if isinstance(k, tuple) and k[0] == "attr" and _root_term(k) == osym:
                                env[k] = v
                                fields[k] = v
                        if res is not None:
                            res.objects[osym] = (cand.qual.rsplit(".", 1)[0], fields)
                        self.recv_classes = dict(self.recv_classes or {})
                        self.recv_classes[osym] = cand.qual.rsplit(".", 1)[0]
                        ev.extra = osym
                        return osym
            # (b) calling such an object: its __call__ with the object as self
            if f[0] == "sym" and self.recv_classes and f in self.recv_classes:
                cand = self.project.funcs.get(self.recv_classes[f] + ".__call__")
                if cand is not None and cand.qual not in self._stack and not _is_generator(cand.node):
                    facts = {k: v for k, v in env.items() if isinstance(k, tuple)}
                    r = self._inline(cand, [f] + list(args), kws, res, pc, env=facts)
                    if r is not None:
                        ev.extra = r
                        return r
        if target is None and self.inline_resolved and self.project is not None and f[0] in ("sym", "attr") \
                and (f[1] if f[0] == "sym" else f[2]) not in self.no_inline and self._depth < self.max_inline_depth:
            cand, bound = self._callee(f)
            if cand is not None and cand.node.name != "__init__" and cand.qual not in self._stack and not _is_generator(cand.node) \
                    and not any((dotted(d) or "").endswith(("property", "contextmanager", "setter")) for d in cand.node.decorator_list):
                margs = ([f[1]] if (bound and f[0] == "attr") else []) + list(args)
                if not any(a[0] == "star" for a in margs) and not any(k == "**" for k, _v in kws):
                    facts = {k: v for k, v in env.items() if isinstance(k, tuple)}
                    back = {}
                    r = self._inline(cand, margs, kws, res, pc, env=facts, out_env=back if f[0] == "attr" and f[1] == ("sym", "self") else None)
                    if r is not None:
                        for k, v in back.items():
                            if isinstance(k, tuple) and _root_of(k)[0] == "self":
                                env[k] = v
                        ev.extra = r
                        return r
        if target is None and self.inline_closures and f[0] == "sym" and f[1].startswith("<closure ") and f[1][9:-1] in self._closures \
                and ("closure:" + f[1][9:-1]) not in self._stack and f[1][9:-1] not in self.no_inline:
            cnode, cenv = self._closures[f[1][9:-1]]
            if not _is_generator(cnode) and self._depth < self.max_inline_depth and not any(a[0] == "star" for a in args):
                r = self._inline(cnode, args, kws, res, pc, env=cenv, tag="closure:" + f[1][9:-1])
                if r is not None:
                    ev.extra = r
                    return r
        if target is not None and self._depth < self.max_inline_depth and not any(a[0] == "star" for a in args):
            r = self._inline(target, args, kws, res, pc)
            if r is not None:
                ev.extra = r
                return r
        return t

    def _enter_project_cm(self, call, res, pc, env):
        """`with helper(...) as x` for a project function decorated with @contextmanager that yields exactly once:
        x is what it yields, and what it does on the way belongs to the caller's trace."""
        f = call[1]
        if (f[1] if f[0] == "sym" else f[2] if f[0] == "attr" else None) in self.no_inline or self._depth >= self.max_inline_depth:
            return None
        cand, bound = self._callee(f)
        if cand is None or cand.qual in self._stack or not any((dotted(d) or "").endswith("contextmanager") for d in cand.node.decorator_list):
            return None
        margs = ([f[1]] if (bound and f[0] == "attr") else []) + list(call[2])
        if any(a[0] == "star" for a in margs) or any(k == "**" for k, _v in call[3]):
            return None
        a = cand.node.args
        params = [x.arg for x in a.posonlyargs + a.args]
        if len(margs) > len(params) or a.vararg or a.kwarg:
            return None
        binding = dict(zip(params, margs))
        for k, v in call[3]:
            if k not in params or k in binding:
                return None
            binding[k] = v
        defaults = dict(zip(params[len(params) - len(a.defaults):], a.defaults))
        menv = self.module_env
        if self.project is not None and cand.module.name != (self.ctx_module or self.local_module):
            menv = _cached_module_env(self.project, cand.module.name)
        sub_ev = Evaluator(self.project, self.namedtuples, self.inline, menv, self.max_inline_depth, self.local_module, self.no_inline)
        sub_ev._depth = self._depth + 1
        sub_ev._stack = self._stack + (cand.qual,)
        sub_ev.assume, sub_ev.static_len, sub_ev.unroll = self.assume, self.static_len, self.unroll
        sub_ev.self_class, sub_ev.recv_classes, sub_ev.inline_resolved = self.self_class, self.recv_classes, self.inline_resolved
        sub_ev.ctx_module = cand.module.name
        for p_ in params:
            if p_ not in binding:
                if p_ in defaults:
                    binding[p_] = sub_ev._e(defaults[p_], dict(menv), (), Result())
                else:
                    return None
        sub_ev._loop_base = self._loop_counter
        facts = {k: v for k, v in env.items() if isinstance(k, tuple)}
        r = sub_ev.run(cand.node, env=facts, args=binding)
        self._loop_counter = max(self._loop_counter, sub_ev._loop_counter)
        if len(r.yields) != 1:
            return None
        for e in r.events:
            if e.kind in ("call", "store", "raise", "del", "with"):
                res.events.append(Event(e.kind, e.term, e.node, pc + e.pc, e.extra))
        return r.yields[0][1]

    def _call_alternatives(self, f, n, args, kws, env, pc, res):
        if f[0] != "ite":
            if f[0] == "op" and f[1] == "keyerror":
                return ("op", "never-returns", ())
            return self._call_with(f, n, args, kws, env, pc, res)
        c = f[1]
        a = self._call_alternatives(f[2], n, args, kws, env, pc + tuple(literals(c, True)), res)
        b = self._call_alternatives(f[3], n, args, kws, env, pc + tuple(literals(c, False)), res)
        return mk_ite(c, a, b)

    def _table_lookup(self, table, key, default):
        """`TABLE[key]` / `TABLE.get(key, default)` for a literal dictionary: the entry whose key equals *key* -- decided when the
        comparison is (constants, enum members under an assumption), a case distinction over the keys otherwise."""
        out = default
        decided_all = True
        picked = None
        for kk, vv in table[1]:
            c = cmp("Eq", key, kk)
            d = self._decide(c)
            if d is None and self.assume is not None:
                try:
                    d = self.assume(("op", "cmp:Is", tuple(sorted((key, kk), key=_key))))
                except Exception:
                    d = None
            if d is True:
                picked = vv
                break
            if d is None:
                decided_all = False
        if picked is not None:
            return picked
        if decided_all:
            return default
        for kk, vv in reversed(table[1]):
            c = cmp("Eq", key, kk)
            d = self._decide(c)
            if d is False:
                continue
            out = mk_ite(c, vv, out)
        return out

    def _recv_of(self, n, env, pc):
        return self._e(n.func.value, env, pc, Result())

    def _names_project_callable(self, name):
        pr = self.project
        if pr is None:
            return False
        for mod in (self.ctx_module, self.local_module):
            if mod and ((mod + "." + name) in pr.funcs or (mod + "." + name) in pr.classes):
                return True
        return False

    def _callee(self, f):
        """(FunctionDef-bearing Func, is_bound_method) of a call target when it resolves to one project function."""
        pr = self.project
        if pr is None:
            return None, False
        if f[0] == "sym":
            if f[1] in self.inline:
                return self.inline[f[1]], False
            mod = self.ctx_module or self.local_module
            if mod:
                cand = pr.funcs.get(mod + "." + f[1])
                if cand is not None:
                    return cand, False
                cand = pr.funcs.get(mod + "." + f[1] + ".__init__")     # a class of this module: its constructor
                if cand is not None:
                    return cand, True
                tgt = self._imports(mod).get(f[1])
                if tgt and tgt[0] == "symbol":
                    cand = pr.funcs.get(tgt[1] + "." + tgt[2])
                    if cand is not None:
                        return cand, False
                    cand = pr.funcs.get(tgt[1] + "." + tgt[2] + ".__init__")
                    if cand is not None:
                        return cand, True
            return None, False
        if f[0] == "attr":
            if f[1][0] == "sym" and (f[1][1] + "." + f[2]) in self.inline:
                return self.inline[f[1][1] + "." + f[2]], False
            if f[1] == ("sym", "self") and self.self_class:
                cand = pr.funcs.get(self.self_class + "." + f[2])
                if cand is not None:
                    return cand, True
            if f[1][0] == "sym":
                # Class.method(...) for a class of this module or imported by name (classmethods / static factories)
                mod0 = self.ctx_module or self.local_module
                if mod0:
                    cand = pr.funcs.get("%s.%s.%s" % (mod0, f[1][1], f[2]))
                    if cand is None:
                        tgt0 = self._imports(mod0).get(f[1][1])
                        if tgt0 and tgt0[0] == "symbol":
                            cand = pr.funcs.get("%s.%s.%s" % (tgt0[1], tgt0[2], f[2]))
                    if cand is not None:
                        decos0 = [(dotted(d) or "") for d in cand.node.decorator_list]
                        if any(d.endswith("classmethod") for d in decos0):
                            return cand, True
                        if any(d.endswith("staticmethod") for d in decos0):
                            return cand, False
            mod = self.ctx_module or self.local_module
            if f[1][0] == "sym" and mod:
                tgt = self._imports(mod).get(f[1][1])
                if tgt and tgt[0] == "module":
                    cand = pr.funcs.get(tgt[1] + "." + f[2])
                    if cand is not None:
                        return cand, False
            cands = _methods_named(pr, f[2])
            if len(cands) == 1:
                return cands[0], True
        return None, False

    def bound_args(self, t):
        """(Func, {parameter: term}) for a call term whose target resolves to one project function, else (None, None)."""
        if t[0] != "call":
            return None, None
        func, bound = self._callee(t[1])
        if func is None:
            return None, None
        a = func.node.args
        params = [x.arg for x in a.posonlyargs + a.args]
        decos = [(dotted(d) or "") for d in func.node.decorator_list]
        if bound or (func.cls is not None and params and params[0] in ("self", "cls") and not any(d.endswith("staticmethod") for d in decos)):
            params = params[1:]
        if any(x[0] == "star" for x in t[2]):
            return func, None
        binding = dict(zip(params, t[2]))
        for k, v in t[3]:
            binding[k] = v
        return func, binding

    def _imports(self, mod):
        try:
            return self.project.imports(mod)
        except Exception:
            return {}

    def _canonical_args(self, f, args, kws):
        """Calling convention made canonical for calls that resolve to one project function: parameters without
        a default are positional, parameters with a default are keywords (sorted).  `f(a, b=1)`, `f(a=a, b=1)`
        and `f(a, 1)` then build the same term."""
        if any(a[0] == "star" for a in args) or any(k == "**" for k, _ in kws):
            return args, kws
        func, bound = self._callee(f)
        if func is None:
            return args, kws
        a = func.node.args
        if a.vararg or a.kwarg or a.posonlyargs:
            return args, kws
        params = [x.arg for x in a.args]
        decos = [(dotted(d) or "") for d in func.node.decorator_list]
        if any(d.endswith(("property", "contextmanager")) for d in decos) and not bound:
            return args, kws
        if bound or (func.cls is not None and params and params[0] in ("self", "cls") and not any(d.endswith("staticmethod") for d in decos)):
            params = params[1:]
        ndef = len(a.defaults)
        required = params[:len(params) - ndef] if ndef else list(params)
        optional = params[len(params) - ndef:] if ndef else []
        kwonly = [x.arg for x in a.kwonlyargs]
        if len(args) > len(params):
            return args, kws
        binding = dict(zip(params, args))
        for k, v in kws:
            if k in binding or (k not in params and k not in kwonly):
                return args, kws
            binding[k] = v
        if any(p not in binding for p in required):
            return args, kws
        new_args = [binding[p] for p in required]
        new_kws = sorted(((p, binding[p]) for p in optional + kwonly if p in binding), key=lambda kv: kv[0])
        return new_args, new_kws

    def _inline(self, func, args, kws, res=None, pc=(), env=None, tag=None, out_env=None):
        fnode = func.node if hasattr(func, "node") else func
        a = fnode.args
        params = [x.arg for x in a.posonlyargs + a.args]
        if len(args) > len(params) or a.vararg or a.kwarg:
            return None
        binding = {}
        defaults = dict(zip(params[len(params) - len(a.defaults):], a.defaults))
        for p, v in zip(params, args):
            binding[p] = v
        for k, v in kws:
            if k not in params or k in binding:
                return None
            binding[k] = v
        menv = self.module_env
        if hasattr(func, "module") and self.project is not None and func.module.name != (self.ctx_module or self.local_module):
            menv = _cached_module_env(self.project, func.module.name)
        sub_ev = Evaluator(self.project, self.namedtuples, self.inline, menv, self.max_inline_depth,
                           self.local_module, self.no_inline)
        sub_ev._depth = self._depth + 1
        sub_ev._stack = self._stack + ((func.qual,) if hasattr(func, "qual") else ((tag,) if tag else ()))
        sub_ev._closures = dict(self._closures)
        sub_ev.inline_closures = self.inline_closures
        sub_ev.volatile = self.volatile
        sub_ev.assume = self.assume
        sub_ev.static_len = self.static_len
        sub_ev.unroll = self.unroll
        sub_ev.self_class = self.self_class
        sub_ev.recv_classes = self.recv_classes
        sub_ev.inline_resolved = self.inline_resolved
        sub_ev.model_objects = self.model_objects
        sub_ev.ctx_module = func.module.name if hasattr(func, "module") else self.ctx_module
        for p in params:
            if p not in binding:
                if p in defaults:
                    binding[p] = sub_ev._e(defaults[p], dict(menv), (), Result())
                else:
                    return None
        sub_ev._loop_base = self._loop_counter          # loop ids stay unique across inlined bodies
        r = sub_ev.run(fnode, env=env, args=binding)
        self._loop_counter = max(self._loop_counter, sub_ev._loop_counter)
        if r.yields:
            return None
        # a closure the helper defines and hands back (a factory of lookup functions) can be called by the caller
        for ck, cv in sub_ev._closures.items():
            if ck not in self._closures and any(_mentions_term(v, ("sym", "<closure %s>" % ck)) for _pc, v, _n in r.returns if v is not None):
                self._closures[ck] = cv
        if res is not None:
            res.loops.extend(r.loops)
            res.objects.update(r.objects)
        if out_env is not None and r.env is not None:
            out_env.update(r.env)
        if res is not None:
            # what the helper does belongs to the caller's trace
            for e in r.events:
                if e.kind in ("call", "store", "raise", "del", "with"):
                    res.events.append(Event(e.kind, e.term, e.node, pc + e.pc, e.extra))
        if len(r.returns) == 0:
            if any(e.kind == "raise" for e in r.events):
                return ("op", "never-returns", ())
            return NONE if res is not None else None
        # fold returns into an ite chain by their path conditions
        if len(r.returns) == 1:
            return r.returns[0][1]
        rets = list(r.returns)
        uncond = [i for i, (pcx, v, _) in enumerate(rets) if not [c for c in pcx if c[0] != "loop"]]
        if len(uncond) == 1 and uncond[0] != len(rets) - 1:
            # `try: return A` / `except E: pass` / `return B`: the unconditional return is the default, the later ones
            # are taken under their own (exception) conditions
            rets.append(rets.pop(uncond[0]))
        out = rets[-1][1]
        for pcx, v, _ in reversed(rets[:-1]):
            conds = [c for c in pcx if c[0] != "loop"]
            if not conds:
                return None
            c = conds[-1]
            cond = c[0] if c[1] else ("op", "not", (c[0],))
            if len(conds) > 1:
                cond = ("op", "and", tuple(x[0] if x[1] else ("op", "not", (x[0],)) for x in conds))
            out = mk_ite(cond, v, out)
        return out


def project_cache(project, name):
    """A per-project cache dictionary.  Kept *on* the project object: a module-level table keyed by id(project) hands a new
    project the entries of a dead one whose address it happens to reuse (the self-test analyses hundreds of source variants
    in one process)."""
    caches = getattr(project, "_analysis_caches", None)
    if caches is None:
        caches = {}
        try:
            project._analysis_caches = caches
        except Exception:
            return {}
    return caches.setdefault(name, {})


def _methods_named(project, name):
    tab = project_cache(project, "methods-by-name")
    if not tab:
        for q, fn in project.funcs.items():
            if getattr(fn, "cls", None) is not None and getattr(fn, "parent", None) is None and not name_is_dunder(fn.node.name):
                tab.setdefault(fn.node.name, []).append(fn)
        tab.setdefault("<built>", [])
    return tab.get(name, [])


def name_is_dunder(n):
    return n.startswith("__") and n.endswith("__")


def _replace(t, old, new):
    if t == old:
        return new
    if isinstance(t, tuple):
        return tuple(_replace(x, old, new) if isinstance(x, tuple) else x for x in t)
    return t


def mk_ite(c, a, b):
    """Case distinction with a canonical (un-negated) condition."""
    if a == b:
        return a
    while True:
        if c[0] == "op" and c[1] == "not":
            c, a, b = c[2][0], b, a
        elif c[0] == "op" and c[1] in _NEGATED:
            c, a, b = ("op", _NEGATED[c[1]], c[2]), b, a
        else:
            break
    if c == TRUE:
        return a
    if c == FALSE:
        return b
    return ("ite", c, a, b)


def _has_nt_arm(t):
    if t[0] == "ite":
        return _has_nt_arm(t[2]) or _has_nt_arm(t[3])
    return t[0] == "nt"


def _conj(cs):
    cs = list(cs)
    if not cs:
        return TRUE
    return cs[0] if len(cs) == 1 else ("op", "and", tuple(cs))


def _filtered_pairs(t):
    if t[0] == "op" and t[1] == "filtered":
        return tuple(t[2])
    if t[0] == "list" and not any(x[0] == "star" for x in t[1]):
        return tuple(("tuple", (TRUE, x)) for x in t[1])
    if t[0] == "new" and t[2] == ("list", ()):
        return ()
    return None


def _filtered_extension(a, b):
    """One branch appended to a list under its own conditions (`if c: L.append(v)`), the other left it alone: the element
    conditions already say when each element is there, so the join is the longer list."""
    pa, pb = _filtered_pairs(a), _filtered_pairs(b)
    if pa is None or pb is None or pa == pb:
        return None
    for short, long_, longt in ((pa, pb, b), (pb, pa, a)):
        if len(long_) > len(short) and long_[:len(short)] == short and longt[0] == "op":
            return longt
    return None


def _const_truth(t):
    if t[0] == "const" and isinstance(t[1], (bool, type(None))):
        return bool(t[1])
    if is_num(t):
        return num_value(t) != 0
    return None


def _fold_reducer(name, arg):
    """any / all / sum / len / list / tuple of a statically known sequence."""
    items = None
    if arg[0] in ("list", "tuple") and not any(x[0] == "star" for x in arg[1]):
        items = [(TRUE, x) for x in arg[1]]
    elif arg[0] == "op" and arg[1] == "filtered":
        items = [(x[1][0], x[1][1]) for x in arg[2]]
    if items is None:
        return None
    plain = all(c == TRUE for c, _ in items)
    if name == "any":
        xs = [x if c == TRUE else ("op", "and", (c, x)) for c, x in items]
        return FALSE if not xs else (xs[0] if len(xs) == 1 else ("op", "or", tuple(xs)))
    if name == "all":
        xs = [x if c == TRUE else ("op", "or", (("op", "not", (c,)), x)) for c, x in items]
        return TRUE if not xs else (xs[0] if len(xs) == 1 else ("op", "and", tuple(xs)))
    if name == "sum":
        t = ZERO
        for c, x in items:
            t = add(t, x if c == TRUE else ("ite", c, x, ZERO))
        return t
    if name == "len" and plain:
        return num(len(items))
    if name in ("list", "tuple") and plain:
        return (name, tuple(x for _, x in items))
    return None


def _leaves_block(stmts):
    """The statement list ends by leaving the enclosing block (return / continue / break / raise)."""
    if not stmts:
        return False
    last = stmts[-1]
    if isinstance(last, (ast.Return, ast.Continue, ast.Break, ast.Raise)):
        return True
    if isinstance(last, ast.If):
        return _leaves_block(last.body) and _leaves_block(last.orelse)
    return False


def _has_loop_escape(stmts):
    for st in stmts:
        for n in ast.walk(st):
            if isinstance(n, (ast.Break, ast.Return)):
                return True
    return False


def _as_int(t):
    v = num_value(t)
    if v is not None and v.denominator == 1:
        return int(v)
    return None


def _is_generator(fnode):
    for n in ast.walk(fnode):
        if isinstance(n, (ast.Yield, ast.YieldFrom)):
            return True
    return False


def _target_names(t):
    """Names (re)bound or mutated by an assignment target: plain names, and
    the base container of subscript/attribute stores (not names in indices)."""
    if isinstance(t, ast.Name):
        return [t.id]
    if isinstance(t, (ast.Tuple, ast.List)):
        out = []
        for e in t.elts:
            out += _target_names(e)
        return out
    if isinstance(t, ast.Starred):
        return _target_names(t.value)
    if isinstance(t, (ast.Subscript, ast.Attribute)):
        b = t.value
        first = t.attr if isinstance(t, ast.Attribute) else None
        while isinstance(b, (ast.Subscript, ast.Attribute)):
            if isinstance(b, ast.Attribute):
                first = b.attr
            b = b.value
        if isinstance(b, ast.Name) and b.id == "self":
            return ["self." + str(first)]
        return [b.id] if isinstance(b, ast.Name) else []
    return []


def _base_of(term):
    t = term
    while isinstance(t, tuple) and t and t[0] in ("attr", "sub", "item"):
        t = t[1]
    return t


def _root_term(term):
    t = term
    while isinstance(t, tuple) and t and t[0] in ("attr", "sub", "item"):
        t = t[1]
    return t


def _root_of(term):
    """(root symbol name, first attribute) of an lvalue term like self.a.b[c]."""
    first = None
    t = term
    while isinstance(t, tuple) and t and t[0] in ("attr", "sub", "item"):
        if t[0] == "attr":
            first = t[2]
        t = t[1]
    if isinstance(t, tuple) and t and t[0] == "sym":
        return t[1].split("@")[0], first
    if isinstance(t, tuple) and t and t[0] == "new":
        return t[1], first
    return None, first


def _as_load(t):
    t2 = ast.parse(ast.unparse(t), mode="eval").body
    ast.copy_location(t2, t)
    for x in ast.walk(t2):
        if hasattr(t, "lineno"):
            x.lineno = getattr(t, "lineno", 0)
            x.col_offset = getattr(t, "col_offset", 0)
    return t2


# ---------------------------------------------------------------------------
# project-level helpers

def find_namedtuples(project):
    """{'Pos': ('n','x','y'), ...} from ``X = namedtuple('X', 'a b c')``."""
    out = {}
    for mod in project.modules.values():
        for n in mod.tree.body:
            if isinstance(n, ast.Assign) and isinstance(n.value, ast.Call) and len(n.targets) == 1 \
                    and isinstance(n.targets[0], ast.Name):
                c = n.value
                fn = dotted(c.func)
                if fn and fn.split(".")[-1] == "namedtuple" and len(c.args) >= 2:
                    spec = c.args[1]
                    if isinstance(spec, ast.Constant) and isinstance(spec.value, str):
                        out[n.targets[0].id] = tuple(spec.value.replace(",", " ").split())
                    elif isinstance(spec, (ast.List, ast.Tuple)) and all(isinstance(e, ast.Constant) for e in spec.elts):
                        out[n.targets[0].id] = tuple(e.value for e in spec.elts)
            elif isinstance(n, ast.ClassDef) and len(n.bases) == 1 and isinstance(n.bases[0], ast.Call) and (dotted(n.bases[0].func) or "").split(".")[-1] == "namedtuple" \
                    and len(n.bases[0].args) >= 2 and not any(isinstance(m, ast.FunctionDef) and m.name in ("__new__", "__init__") for m in n.body):
                # class X(namedtuple("X", "a b c")): methods added to a plain record; construction is the record's
                spec = n.bases[0].args[1]
                if isinstance(spec, ast.Constant) and isinstance(spec.value, str):
                    out[n.name] = tuple(spec.value.replace(",", " ").split())
                elif isinstance(spec, (ast.List, ast.Tuple)) and all(isinstance(e, ast.Constant) for e in spec.elts):
                    out[n.name] = tuple(e.value for e in spec.elts)
    return out


def module_env(project, modname, ev=None):
    """Evaluate top-level constant assignments of a module into an env."""
    ev = ev or Evaluator(project, find_namedtuples(project))
    env = {}
    for n in project.mod(modname).tree.body:
        if isinstance(n, ast.Assign) and len(n.targets) == 1 and isinstance(n.targets[0], ast.Name):
            try:
                v = Evaluator(project, ev.namedtuples, module_env=env)._e(n.value, dict(env), (), Result())
            except RecursionError:
                continue
            if v[0] in ("dict", "tuple") and v[1] and any(a[0] == "call" for a in _all_terms(v)):
                # rows built by small helper functions of the module (`F32: _float_row(np.float32)`): evaluate them with the module's
                # own pure helpers inlined
                try:
                    v2 = Evaluator(project, ev.namedtuples, None, env, 4, modname, ())._e(n.value, dict(env), (), Result())
                    if v2[0] == v[0] and not any(a[0] == "call" and not (a[1][0] == "attr" and a[1][1] in (("sym", "np"), ("sym", "numpy"))) for a in _all_terms(v2)):
                        v = v2
                except Exception:
                    pass
            # keep only values built from numbers, PI and other constants
            if v[0] == "dict" and v[1] and _is_constant_table(project.mod(modname).tree, n.targets[0].id, v):
                env[n.targets[0].id] = v      # a look-up table: a literal dictionary the module never mutates
                continue
            if v[0] == "tuple" and v[1] and any(a[0] == "sym" and a != PI for a in atoms_of(v)) \
                    and _is_constant_table(project.mod(modname).tree, n.targets[0].id, v):
                env[n.targets[0].id] = v      # a literal tuple of rows naming module-level functions / classes
                continue
            if v[0] == "dict" or (v[0] in ("list", "op") and (v[0] == "op" or not v[1])):
                continue   # mutable containers keep their identity (name), not a literal value
            def _const_slice(a):
                return a[0] == "call" and a[1] == ("sym", "slice") and not a[3] and all(x[0] == "const" or is_num(x) for x in a[2])
            if all(a[0] != "sym" or a == PI or a == ("sym", "slice") for a in atoms_of(v) if a[0] == "sym") and \
                    not any(a[0] in ("call", "lambda") and not _const_slice(a) for a in atoms_of(v)):
                env[n.targets[0].id] = v
    return env


def _all_terms(t):
    if isinstance(t, tuple):
        if t and isinstance(t[0], str):
            yield t
        for x in t:
            if isinstance(x, tuple):
                for y in _all_terms(x):
                    yield y


def _is_constant_table(tree, name, value):
    """A module-level dictionary literal used as a look-up table: never stored into, deleted from or mutated by a method
    anywhere in the module, and built from constants and module-level names (functions, classes, enum members)."""
    top = set()
    for n in tree.body:
        if isinstance(n, (ast.FunctionDef, ast.AsyncFunctionDef, ast.ClassDef)):
            top.add(n.name)
        elif isinstance(n, ast.Assign):
            top |= {t.id for t in n.targets if isinstance(t, ast.Name)}
        elif isinstance(n, (ast.Import, ast.ImportFrom)):
            top |= {(a.asname or a.name).split(".")[0] for a in n.names}
    for n in ast.walk(tree):
        if isinstance(n, (ast.Subscript, ast.Attribute)) and isinstance(n.value, ast.Name) and n.value.id == name:
            if isinstance(n, ast.Subscript) and isinstance(n.ctx, (ast.Store, ast.Del)):
                return False
            if isinstance(n, ast.Attribute) and n.attr in MUTATORS:
                return False
        if isinstance(n, ast.Global) and name in n.names:
            return False
    for a in atoms_of(value):
        if a[0] == "sym" and a != PI and a[1] not in top and a[1] not in ("np", "numpy", "math"):
            return False
        if a[0] in ("call", "lambda"):
            return False
    return True


def _cached_module_env(project, modname):
    tab = project_cache(project, "module-env")
    if modname not in tab:
        try:
            tab[modname] = module_env(project, modname)
        except Exception:
            tab[modname] = {}
    return tab[modname]


def make_evaluator(project, modname, inline_names=(), inline_local=False, no_inline=()):
    """Evaluator for functions of *modname* with module constants folded and
    the named pure helpers (qualified names) inlinable under their local names."""
    nts = find_namedtuples(project)
    menv = module_env(project, modname)
    inline = {}
    imps = project.imports(modname)
    for q in inline_names:
        if q not in project.funcs:
            continue
        f = project.funcs[q]
        short = q.rsplit(".", 1)[-1]
        if f.module.name == modname:
            inline[short] = f
        for local, tgt in imps.items():
            if tgt[0] == "symbol" and tgt[1] == f.module.name and tgt[2] == short:
                inline[local] = f
            if tgt[0] == "module" and tgt[1] == f.module.name:
                inline[local + "." + short] = f
    ev = Evaluator(project, nts, inline, menv, local_module=modname if inline_local else None, no_inline=no_inline)
    ev.ctx_module = modname
    return ev


def _mentions_term(t, x):
    if t == x:
        return True
    if isinstance(t, tuple):
        return any(_mentions_term(y, x) for y in t if isinstance(y, tuple))
    return False
