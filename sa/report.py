"""Obligations, verdicts, evidence and known-findings handling."""
import json
import os
import time

HOLDS, VIOLATED, UNDECIDED = "HOLDS", "VIOLATED", "UNDECIDED"


class Ob:
    """One obligation = rule x construct, with a three-valued verdict."""

    def __init__(self, rule, verdict, func=None, node=None, msg="", facts=None, kind="", construct=None):
        self.rule = rule
        self.verdict = verdict
        self.func = func
        self.file = func.relpath if func is not None else (facts or {}).get("file", "")
        self.line = getattr(node, "lineno", None) or (func.node.lineno if func is not None else 0)
        self.construct = construct or (func.short if func is not None else "")
        self.kind = kind          # short stable slug naming what failed (for known-finding keys)
        self.msg = msg
        self.facts = facts or {}

    @property
    def key(self):
        return "%s|%s|%s" % (self.rule, self.construct, self.kind)

    def as_dict(self):
        d = {"rule": self.rule, "verdict": self.verdict, "construct": self.construct,
             "where": "%s:%s" % (self.file, self.line)}
        if self.kind:
            d["kind"] = self.kind
        if self.msg:
            d["msg"] = self.msg
        if self.facts:
            d["facts"] = self.facts
        return d

    def text(self):
        return "%s %s:%s %s -- %s" % (self.rule, self.file, self.line, self.construct, self.msg)


class Run:
    """Collector handed to each rule module."""

    def __init__(self, prop, project, tier):
        self.prop = prop
        self.project = project
        self.tier = tier
        self.obs = []
        self.analysed_funcs = set()
        self.call_sites = 0
        self.notes = []
        self.assumptions = []
        self.undecided_clauses = []
        self.explanation = ""
        self.floors = {}

    def note_func(self, *funcs):
        for f in funcs:
            self.analysed_funcs.add(f.qual if hasattr(f, "qual") else str(f))

    def holds(self, rule, func=None, node=None, msg="", **facts):
        self.obs.append(Ob(rule, HOLDS, func, node, msg, facts))

    def violated(self, rule, func=None, node=None, msg="", kind="", construct=None, **facts):
        self.obs.append(Ob(rule, VIOLATED, func, node, msg, facts, kind=kind, construct=construct))

    def undecided(self, rule, func=None, node=None, msg="", kind="", construct=None, **facts):
        self.obs.append(Ob(rule, UNDECIDED, func, node, msg, facts, kind=kind, construct=construct))

    def check(self, cond, rule, func=None, node=None, msg_ok="", msg_bad="", kind="", construct=None, **facts):
        if cond:
            self.holds(rule, func, node, msg_ok, **facts)
        else:
            self.violated(rule, func, node, msg_bad, kind=kind, construct=construct, **facts)
        return cond

    def by_diff(self, rule, func, node, got, want, what, kind, **facts):
        """Compare a term with its specification: equal -> HOLDS, definite difference ->
        VIOLATED, structural difference (an idiom the normaliser cannot relate) -> UNDECIDED."""
        from . import termdiff
        d = termdiff.diff(termdiff.lift(got), termdiff.lift(want)) if got is not None else ("structural", "", got, want)
        if d[0] == "equal":
            self.holds(rule, func, node, what, **facts)
        elif d[0] == "definite":
            self.violated(rule, func, node, "%s: %s" % (what, termdiff.describe(d)), kind=kind, **facts)
        else:
            self.undecided(rule, func, node, "%s: %s" % (what, termdiff.describe(d)), kind=kind + "-structure", **facts)
        return d[0]

    def floor(self, rule, n):
        self.floors[rule] = n

    def count(self, rule):
        return sum(1 for o in self.obs if o.rule == rule)


def load_known(path):
    if not os.path.exists(path):
        return {"open": [], "fixed": []}
    with open(path) as f:
        return json.load(f)


def finish(run, verif_dir, known_path, t0, seed=0, selftest=None, write=True, quiet=False):
    """Apply floors and known findings, write evidence + replay files, print
    the verdict lines and return the exit code."""
    prop = run.prop
    lines = []
    # vacuity guard
    for rule, n in sorted(run.floors.items()):
        c = run.count(rule)
        if c < n:
            run.undecided(rule, msg="vacuity guard: %d obligation(s) generated, floor confirmed by hand is %d" % (c, n),
                          kind="floor", construct="<floor>")
    known = load_known(known_path)
    open_keys = {k["key"]: k for k in known.get("open", []) if k.get("property") == prop}
    viol = [o for o in run.obs if o.verdict == VIOLATED]
    und = [o for o in run.obs if o.verdict == UNDECIDED]
    new_viol = [o for o in viol if o.key not in open_keys]
    listed = [o for o in viol if o.key in open_keys]
    replay_dir = os.path.join(verif_dir, "evidence", "replay")
    for o in listed:
        lines.append("KNOWN-FINDING: property=%s %s [%s]" % (prop, o.text(), o.key))
    for o in new_viol:
        rp = os.path.join(replay_dir, "%s.%s.json" % (prop, _slug(o.key)))
        if write:
            os.makedirs(replay_dir, exist_ok=True)
            with open(rp, "w") as f:
                json.dump({"property": prop, "obligation": o.as_dict(), "key": o.key,
                           "repo": run.project.root}, f, indent=1, default=str)
        lines.append("VIOLATION property=%s replay=%s" % (prop, rp))
        lines.append("  " + o.text())
    for o in und:
        lines.append("ANALYSIS-ERROR property=%s %s" % (prop, o.text()))
    stale = [k for k in open_keys if k not in {o.key for o in viol}]
    for k in stale:
        lines.append("NOTE: known finding no longer reproduced: %s" % k)
    st_fail = 0
    if selftest is not None:
        st_fail = selftest.get("failed", 0)
        for m in selftest.get("messages", []):
            lines.append("ANALYSIS-ERROR property=%s selftest: %s" % (prop, m))
    code = 1 if new_viol else (2 if (und or st_fail) else 0)

    distinct = {(o.rule, o.construct, o.line) for o in run.obs if o.construct}
    holds = [o for o in run.obs if o.verdict == HOLDS]
    samples = [o.as_dict() for o in (viol + und)[:6]] + [o.as_dict() for o in holds[:8]]
    per_rule = {}
    for o in run.obs:
        d = per_rule.setdefault(o.rule, {"HOLDS": 0, "VIOLATED": 0, "UNDECIDED": 0})
        d[o.verdict] += 1
    ev = {
        "property_id": prop,
        "tier": run.tier,
        "seed": int(seed),
        "level": "other",
        "coverage": {
            "explanation": run.explanation,
            "obligations": len(run.obs),
            "discharged": len(holds),
            "evaluations": len(run.obs),
            "distinct_nontrivial": len(distinct),
            "rule": "one obligation per (rule, construct); distinct = distinct (rule, construct, line) "
                    "triples with a named construct; static analysis of the current /repo sources",
            "per_rule": per_rule,
            "floors": run.floors,
            "functions_analysed": sorted(run.analysed_funcs),
            "n_functions_analysed": len(run.analysed_funcs),
            "call_sites_examined": run.call_sites,
            "files_parsed": run.project.stats()["files"],
            "source_digests": run.project.stats()["digests"],
            "known_findings_matched": [o.key for o in listed],
            "undecided_clauses": run.undecided_clauses,
            "notes": run.notes,
            "samples": samples,
            "exhaustive": False,
        },
        "assumptions": run.assumptions,
        "wall_s": round(time.time() - t0, 3),
        "violations": len(new_viol),
    }
    if selftest is not None:
        ev["coverage"]["selftest"] = {k: v for k, v in selftest.items() if k != "messages"}
    if write:
        os.makedirs(os.path.join(verif_dir, "evidence"), exist_ok=True)
        with open(os.path.join(verif_dir, "evidence", prop + ".json"), "w") as f:
            json.dump(ev, f, indent=1, default=str)
    if not quiet:
        print("%s tier=%s: %d obligations (%d hold, %d violated [%d known], %d undecided) over %d functions"
              % (prop, run.tier, len(run.obs), len(holds), len(viol), len(listed), len(und), len(run.analysed_funcs)))
        for l in lines:
            print(l)
    return code, ev, lines


def _slug(s):
    return "".join(c if c.isalnum() or c in "._-" else "_" for c in s)[:120]
