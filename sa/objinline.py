"""Scalar replacement of local helper objects (source level).

A maintainer bundles the start-up / hand-over / shut-down choreography of a parallel stage into a small class

    group = WorkerGroup(parallel, worker, (pio, kwargs))      |      with WorkerPool(worker, args, n) as pool:
    ... group.put(item) ...                                   |          ... pool.put(item) ...
    group.finish()                                            |

The rules of this repository speak about one function that owns the queue, the done flag, the worker list and the shutdown
sequence.  For a local variable that is bound exactly once to an instance of a project class and never escapes (it is only
used as the receiver of method calls in statement position and for attribute access), this module produces a copy of the
function in which

  * the constructor call is replaced by the body of ``__init__``,
  * every method call is replaced by the method's body (``self`` is the variable; helper methods called on ``self`` are
    spliced recursively),
  * ``with Cls(..) as v: BODY`` becomes  ctor; __enter__; try: BODY except BaseException: __exit__(<an exception>); raise
    else: __exit__(None, None, None),  with the tests ``exc_type is None`` decided in each copy,
  * the fields ``v.x`` become plain locals ``v__x``,
  * parameter temporaries bound once to a name / constant / tuple are propagated, and ``(a, b) + tuple((c,))`` is folded to
    ``(a, b, c)``.

Statement order, conditions and line numbers of the spliced statements are preserved, so CFG-based rules see one function.
Anything that does not fit (the object is passed on, a method is called in expression position, a method returns from the
middle of its body in a way that is not a loop exit, a generator / decorated method) leaves the function untouched.
"""
import ast
import copy

from .model import Func, own_nodes, dotted, _local_names, _Renamer


class _Bail(Exception):
    pass


def _strip_doc(body):
    body = list(body)
    if body and isinstance(body[0], ast.Expr) and isinstance(body[0].value, ast.Constant) and isinstance(body[0].value.value, str):
        body = body[1:]
    return body


def _method_body(g, as_value):
    """Statements of method *g* ready to be spliced in statement position.  Returns (body, value_expr | None).
    Accepted shapes of `return`: none; one trailing return; bare returns directly inside the trailing loop of the method
    (they leave the loop, after which the method ends -> `break`)."""
    fn = g.node
    if fn.args.vararg:
        raise _Bail("varargs")
    if [d for d in fn.decorator_list]:
        raise _Bail("decorated method")
    nodes = list(own_nodes(fn))
    if any(isinstance(n, (ast.Yield, ast.YieldFrom, ast.Global, ast.Nonlocal, ast.Await)) for n in nodes):
        raise _Bail("generator / global")
    body = [copy.deepcopy(s) for s in _strip_doc(fn.body)]
    value = None
    if body and isinstance(body[-1], ast.Return):
        value = body[-1].value
        body = body[:-1]
    rets = [n for s in body for n in ast.walk(s) if isinstance(n, ast.Return)]
    if rets:
        # returns inside the trailing loop -> break
        if value is not None or not body or not isinstance(body[-1], (ast.While, ast.For)) or body[-1].orelse:
            raise _Bail("return in the middle of %s" % fn.name)
        loop = body[-1]
        if any(isinstance(n, ast.Return) for s in body[:-1] for n in ast.walk(s)):
            raise _Bail("return before the trailing loop of %s" % fn.name)

        def conv(stmts, in_inner):
            out = []
            for s in stmts:
                if isinstance(s, ast.Return):
                    if s.value is not None or in_inner:
                        raise _Bail("return with a value / in a nested loop of %s" % fn.name)
                    out.append(ast.copy_location(ast.Break(), s))
                    continue
                if isinstance(s, (ast.FunctionDef, ast.AsyncFunctionDef, ast.ClassDef)):
                    out.append(s)
                    continue
                inner = in_inner or isinstance(s, (ast.For, ast.While))
                for fld in ("body", "orelse", "finalbody"):
                    if hasattr(s, fld) and isinstance(getattr(s, fld), list):
                        setattr(s, fld, conv(getattr(s, fld), inner))
                if isinstance(s, ast.Try):
                    for h in s.handlers:
                        h.body = conv(h.body, inner)
                out.append(s)
            return out
        loop.body = conv(loop.body, False)
    if as_value and value is None:
        raise _Bail("%s returns nothing but its value is used" % fn.name)
    return body, value


def _bind(g, call, self_expr, loc):
    """[(param name, expr)] for the call's arguments (defaults filled in), without the receiver."""
    a = g.node.args
    params = [x.arg for x in a.posonlyargs + a.args]
    if not params or params[0] != "self":
        raise _Bail("%s is not a plain method" % g.node.name)
    rest = params[1:]
    kwonly = [x.arg for x in a.kwonlyargs]
    if any(isinstance(x, ast.Starred) for x in call.args) or any(k.arg is None for k in call.keywords):
        raise _Bail("star arguments")
    if len(call.args) > len(rest):
        raise _Bail("too many arguments")
    bound = dict(zip(rest, call.args))
    extra = []
    for k in call.keywords:
        if k.arg in bound:
            raise _Bail("bad keyword")
        if k.arg not in rest and k.arg not in kwonly:
            if a.kwarg is None:
                raise _Bail("bad keyword")
            extra.append(k)          # collected by **kwargs
            continue
        bound[k.arg] = k.value
    defaults = dict(zip(params[len(params) - len(a.defaults):], a.defaults))
    for x, d in zip(a.kwonlyargs, a.kw_defaults):
        if d is not None:
            defaults[x.arg] = d
    out = []
    for p in rest + kwonly:
        if p in bound:
            out.append((p, bound[p]))
        elif p in defaults:
            out.append((p, defaults[p]))
        else:
            raise _Bail("missing argument %s" % p)
    if a.kwarg is not None:
        # **kwargs of the method: the dictionary of the keyword arguments it was not declared to take
        d = ast.Dict(keys=[ast.Constant(value=k.arg) for k in extra], values=[k.value for k in extra])
        ast.copy_location(d, loc)
        ast.fix_missing_locations(d)
        out.append((a.kwarg.arg, d))
    return out


def _fold_none_tests(stmts, none_names, nonnull_names):
    """Decide `X is None` / `X is not None` / `not X` / `X` tests of If statements for names known to be None / not None."""
    def truth(t):
        if isinstance(t, ast.UnaryOp) and isinstance(t.op, ast.Not):
            v = truth(t.operand)
            return None if v is None else (not v)
        if isinstance(t, ast.Compare) and len(t.ops) == 1 and isinstance(t.left, ast.Name) and isinstance(t.comparators[0], ast.Constant) \
                and t.comparators[0].value is None:
            if t.left.id in none_names:
                return isinstance(t.ops[0], (ast.Is, ast.Eq))
            if t.left.id in nonnull_names:
                return isinstance(t.ops[0], (ast.IsNot, ast.NotEq))
        if isinstance(t, ast.Name):
            if t.id in none_names:
                return False
            if t.id in nonnull_names:
                return True
        return None
    out = []
    for s in stmts:
        if isinstance(s, ast.If):
            v = truth(s.test)
            if v is True:
                out.extend(_fold_none_tests(s.body, none_names, nonnull_names))
                continue
            if v is False:
                out.extend(_fold_none_tests(s.orelse, none_names, nonnull_names))
                continue
        if not isinstance(s, (ast.FunctionDef, ast.AsyncFunctionDef, ast.ClassDef)):
            for fld in ("body", "orelse", "finalbody"):
                if hasattr(s, fld) and isinstance(getattr(s, fld), list):
                    setattr(s, fld, _fold_none_tests(getattr(s, fld), none_names, nonnull_names))
            if isinstance(s, ast.Try):
                for h in s.handlers:
                    h.body = _fold_none_tests(h.body, none_names, nonnull_names)
        out.append(s)
    return out


def candidates(func, class_methods):
    """{variable: (kind, binding statement / with item, {method name: Func})} for locals bound once to `Cls(..)` of a project class
    (class_methods(call.func) -> {name: Func} or None) that do not escape."""
    fn = func.node
    found = {}
    stores = {}
    for n in own_nodes(fn):
        if isinstance(n, ast.Name) and isinstance(n.ctx, (ast.Store, ast.Del)):
            stores[n.id] = stores.get(n.id, 0) + 1
    for n in own_nodes(fn):
        if isinstance(n, ast.Assign) and len(n.targets) == 1 and isinstance(n.targets[0], ast.Name) and isinstance(n.value, ast.Call):
            ms = class_methods(n.value.func)
            if ms is not None and stores.get(n.targets[0].id) == 1:
                found[n.targets[0].id] = ("assign", n, ms)
        elif isinstance(n, ast.With):
            for it in n.items:
                if isinstance(it.optional_vars, ast.Name) and isinstance(it.context_expr, ast.Call):
                    ms = class_methods(it.context_expr.func)
                    if ms is not None and stores.get(it.optional_vars.id) == 1 and len(n.items) == 1:
                        found[it.optional_vars.id] = ("with", n, ms)
    params = {x.arg for x in fn.args.posonlyargs + fn.args.args + fn.args.kwonlyargs}
    ok = {}
    for v, (kind, st, ms) in found.items():
        if v in params:
            continue
        good = True
        # uses inside nested definitions: escapes
        for n in ast.walk(fn):
            if isinstance(n, (ast.FunctionDef, ast.AsyncFunctionDef, ast.Lambda)) and n is not fn:
                if any(isinstance(x, ast.Name) and x.id == v for x in ast.walk(n)):
                    good = False
        parents = {}
        for n in own_nodes(fn):
            for c in ast.iter_child_nodes(n):
                parents[id(c)] = n
        for c in ast.iter_child_nodes(fn):
            parents[id(c)] = fn
        for n in own_nodes(fn):
            if isinstance(n, ast.Name) and n.id == v and isinstance(n.ctx, ast.Load):
                p = parents.get(id(n))
                if not (isinstance(p, ast.Attribute) and p.value is n):
                    good = False
                    break
                pp = parents.get(id(p))
                if isinstance(pp, ast.Call) and pp.func is p:
                    if p.attr not in ms:
                        if p.attr.startswith("__"):
                            good = False
                            break
                        continue            # a callable stored in a field: v.cb(x) stays v__cb(x)
                    # a method call: must be a statement or the value of a simple assignment
                    ppp = parents.get(id(pp))
                    if not ((isinstance(ppp, ast.Expr) and ppp.value is pp) or (isinstance(ppp, ast.Assign) and ppp.value is pp and len(ppp.targets) == 1)):
                        good = False
                        break
                elif p.attr in ms and not any((dotted(d) or "").split(".")[-1] == "property" for d in ms[p.attr].node.decorator_list):
                    good = False              # a bound method taken as a value
                    break
        if good:
            ok[v] = (kind, st, ms)
    return ok


def scalarize(project, func, class_methods, only=None, depth=4):
    """The copy of *func* described in the module docstring (or *func* itself when nothing applies).  *only*: optional
    predicate on the {method name: Func} table selecting which classes to take apart."""
    cands = candidates(func, class_methods)
    if only is not None:
        cands = {v: c for v, c in cands.items() if only(c[2])}
    if not cands:
        return func
    counter = [0]
    extern = dict(getattr(func, "extern", {}) or {})       # global names of spliced statements -> the module they were written in

    def inline_call(v, ms, mname, call, target, loc, d):
        g = ms.get(mname)
        if g is None:
            if mname == "__init__":
                return []
            if mname == "__enter__":
                return []
            raise _Bail("no method " + mname)
        if d <= 0:
            raise _Bail("inlining depth")
        body, value = _method_body(g, target is not None)
        if g.module is not func.module:
            for n_ in own_nodes(g.node):
                if isinstance(n_, ast.Name) and isinstance(n_.ctx, ast.Load):
                    extern.setdefault(n_.id, g.module.name)
        counter[0] += 1
        pre = "_%s_%d__" % (mname.strip("_") or "m", counter[0])
        mapping = {nm: pre + nm for nm in _local_names(g.node)}
        if g.node.args.kwarg is not None:
            mapping[g.node.args.kwarg.arg] = pre + g.node.args.kwarg.arg
        mapping["self"] = v
        new = []
        for p, a in _bind(g, call, v, loc):
            asg = ast.Assign(targets=[ast.Name(id=mapping[p], ctx=ast.Store())], value=copy.deepcopy(a))
            ast.copy_location(asg, loc)
            ast.fix_missing_locations(asg)
            new.append(asg)
        ren = _Renamer(mapping)
        hb = [ren.visit(x) for x in body]
        if value is not None and target is not None:
            asg = ast.Assign(targets=[copy.deepcopy(target)], value=ren.visit(copy.deepcopy(value)))
            ast.copy_location(asg, loc)
            ast.fix_missing_locations(asg)
            hb.append(asg)
        elif value is not None and not (isinstance(value, ast.Name) and value.id == "self") and not isinstance(value, ast.Constant):
            ex = ast.Expr(value=ren.visit(copy.deepcopy(value)))
            ast.copy_location(ex, loc)
            ast.fix_missing_locations(ex)
            hb.append(ex)
        return new + transform(hb, d - 1)

    def transform(stmts, d):
        out = []
        for s in stmts:
            # constructor
            if isinstance(s, ast.Assign) and len(s.targets) == 1 and isinstance(s.targets[0], ast.Name) and s.targets[0].id in cands \
                    and cands[s.targets[0].id][1] is s:
                v = s.targets[0].id
                out.extend(inline_call(v, cands[v][2], "__init__", s.value, None, s, d))
                continue
            if isinstance(s, ast.With) and any(cands.get(getattr(it.optional_vars, "id", None), (None, None))[1] is s for it in s.items):
                it = s.items[0]
                v = it.optional_vars.id
                ms = cands[v][2]
                out.extend(inline_call(v, ms, "__init__", it.context_expr, None, s, d))
                ent = ms.get("__enter__")
                if ent is not None:
                    eb, ev_ = _method_body(ent, False)
                    if ev_ is not None and not (isinstance(ev_, ast.Name) and ev_.id == "self"):
                        raise _Bail("__enter__ returns something other than self")
                    fake = ast.Call(func=ast.Attribute(value=ast.Name(id=v, ctx=ast.Load()), attr="__enter__", ctx=ast.Load()), args=[], keywords=[])
                    out.extend(inline_call(v, ms, "__enter__", fake, None, s, d))
                body = transform(s.body, d)
                ex = ms.get("__exit__")
                if ex is None:
                    out.extend(body)
                    continue
                eparams = [x.arg for x in ex.node.args.args][1:]
                if len(eparams) != 3:
                    raise _Bail("__exit__ signature")

                def exit_copy(nonnull):
                    exc_name = "_%s_exc" % v
                    if nonnull:
                        args = [ast.Call(func=ast.Name(id="type", ctx=ast.Load()), args=[ast.Name(id=exc_name, ctx=ast.Load())], keywords=[]),
                                ast.Name(id=exc_name, ctx=ast.Load()), ast.Constant(value=None)]
                    else:
                        args = [ast.Constant(value=None), ast.Constant(value=None), ast.Constant(value=None)]
                    fake = ast.Call(func=ast.Attribute(value=ast.Name(id=v, ctx=ast.Load()), attr="__exit__", ctx=ast.Load()), args=args, keywords=[])
                    ast.copy_location(fake, s)
                    ast.fix_missing_locations(fake)
                    before = counter[0] + 1
                    stm = inline_call(v, ms, "__exit__", fake, None, s, d)
                    pre = "_exit_%d__" % before
                    names = {pre + p for p in eparams}
                    if nonnull:
                        return _fold_none_tests(stm, set(), {pre + eparams[0], pre + eparams[1]})
                    return _fold_none_tests(stm, names, set())
                handler = ast.ExceptHandler(type=ast.Name(id="BaseException", ctx=ast.Load()), name="_%s_exc" % v,
                                            body=exit_copy(True) + [ast.Raise(exc=None, cause=None)])
                tr = ast.Try(body=body or [ast.Pass()], handlers=[handler], orelse=exit_copy(False) or [ast.Pass()], finalbody=[])
                ast.copy_location(tr, s)
                ast.copy_location(handler, s)
                ast.fix_missing_locations(tr)
                out.append(tr)
                continue
            # method call statements
            call, target = None, None
            if isinstance(s, ast.Expr) and isinstance(s.value, ast.Call):
                call = s.value
            elif isinstance(s, ast.Assign) and len(s.targets) == 1 and isinstance(s.value, ast.Call):
                call, target = s.value, s.targets[0]
            if call is not None and isinstance(call.func, ast.Attribute) and isinstance(call.func.value, ast.Name) and call.func.value.id in cands \
                    and call.func.attr in cands[call.func.value.id][2]:
                v = call.func.value.id
                out.extend(inline_call(v, cands[v][2], call.func.attr, call, target, s, d))
                continue
            s2 = copy.copy(s)
            if not isinstance(s2, (ast.FunctionDef, ast.AsyncFunctionDef, ast.ClassDef)):
                for fld in ("body", "orelse", "finalbody"):
                    if hasattr(s2, fld) and isinstance(getattr(s2, fld), list):
                        setattr(s2, fld, transform(getattr(s2, fld), d))
                if isinstance(s2, ast.Try):
                    hs = []
                    for h in s2.handlers:
                        h2 = copy.copy(h)
                        h2.body = transform(h.body, d)
                        hs.append(h2)
                    s2.handlers = hs
            out.append(s2)
        return out

    try:
        new_body = transform(list(func.node.body), depth)
    except _Bail:
        return func
    new_node = copy.copy(func.node)
    new_node.body = new_body
    # no method call on a scalarised object may be left
    for n in own_nodes(new_node):
        if isinstance(n, ast.Call) and isinstance(n.func, ast.Attribute) and isinstance(n.func.value, ast.Name) and n.func.value.id in cands \
                and n.func.attr in cands[n.func.value.id][2]:
            return func

    # read-only properties of the class: `v.prop` is the property's return expression (with self = v)
    def prop_expr(v, attr, depth_=0):
        g = cands[v][2].get(attr)
        if g is None or depth_ > 3 or not any((dotted(d) or "").split(".")[-1] == "property" for d in g.node.decorator_list):
            return None
        body = _strip_doc(g.node.body)
        if len(body) != 1 or not isinstance(body[0], ast.Return) or body[0].value is None:
            return None
        return _Renamer({"self": v}).visit(copy.deepcopy(body[0].value))

    class Props(ast.NodeTransformer):
        def visit_Attribute(self, n):
            self.generic_visit(n)
            if isinstance(n.value, ast.Name) and n.value.id in cands and isinstance(n.ctx, ast.Load):
                e = prop_expr(n.value.id, n.attr)
                if e is not None:
                    return ast.copy_location(Props().visit(e), n)
            return n

        def visit_FunctionDef(self, n):
            return n
        visit_Lambda = visit_FunctionDef
    new_node.body = [Props().visit(s) for s in new_node.body]

    class Fields(ast.NodeTransformer):
        def visit_Attribute(self, n):
            self.generic_visit(n)
            if isinstance(n.value, ast.Name) and n.value.id in cands:
                return ast.copy_location(ast.Name(id="%s__%s" % (n.value.id, n.attr.lstrip("_")), ctx=n.ctx), n)
            return n

        def visit_FunctionDef(self, n):
            return n
        visit_Lambda = visit_FunctionDef
    new_node.body = [Fields().visit(s) for s in new_node.body]
    new_node = _propagate(new_node)
    ast.fix_missing_locations(new_node)
    clone = Func(func.qual, new_node, func.module, func.cls, func.parent)
    clone.inlined = counter[0]
    clone.scalarized = sorted(cands)
    clone.extern = extern
    return clone


def _simple_value(v):
    if isinstance(v, (ast.Name, ast.Constant)):
        return True
    if isinstance(v, ast.Tuple):
        return all(_simple_value(e) for e in v.elts)
    if isinstance(v, ast.Attribute):
        return isinstance(v.value, ast.Name) and v.value.id == "self"
    return False


def _propagate(fnode):
    """Copy propagation for the parameter temporaries introduced by the splicing (names starting with `_<method>_<k>__`) that
    are assigned exactly once a name, a constant, `self.<attr>` or a tuple of those, where the sources are not reassigned in the
    function; then  tuple(<tuple>) -> <tuple>  and  <tuple> + <tuple> -> <tuple>."""
    import re
    stores = {}
    for n in own_nodes(fnode):
        if isinstance(n, ast.Name) and isinstance(n.ctx, (ast.Store, ast.Del)):
            stores[n.id] = stores.get(n.id, 0) + 1
    for x in fnode.args.posonlyargs + fnode.args.args + fnode.args.kwonlyargs:
        stores[x.arg] = stores.get(x.arg, 0) + 1
    subst = {}
    for n in own_nodes(fnode):
        if isinstance(n, ast.Assign) and len(n.targets) == 1 and isinstance(n.targets[0], ast.Name) and re.match(r"^_[A-Za-z0-9_]*?_\d+__", n.targets[0].id) \
                and stores.get(n.targets[0].id) == 1 and _simple_value(n.value):
            srcs = [x.id for x in ast.walk(n.value) if isinstance(x, ast.Name)]
            if all(stores.get(s_, 0) <= 1 for s_ in srcs):
                subst[n.targets[0].id] = n.value

    class Sub(ast.NodeTransformer):
        def visit_Name(self, n):
            if isinstance(n.ctx, ast.Load) and n.id in subst:
                v = copy.deepcopy(subst[n.id])
                return ast.copy_location(Sub().visit(v), n)
            return n

        def visit_FunctionDef(self, n):
            return n
        visit_Lambda = visit_FunctionDef

        def visit_Call(self, n):
            self.generic_visit(n)
            if isinstance(n.func, ast.Name) and n.func.id == "tuple" and len(n.args) == 1 and not n.keywords and isinstance(n.args[0], (ast.Tuple, ast.List)):
                return ast.copy_location(ast.Tuple(elts=list(n.args[0].elts), ctx=ast.Load()), n)
            return n

        def visit_BinOp(self, n):
            self.generic_visit(n)
            if isinstance(n.op, ast.Add) and isinstance(n.left, ast.Tuple) and isinstance(n.right, ast.Tuple):
                return ast.copy_location(ast.Tuple(elts=list(n.left.elts) + list(n.right.elts), ctx=ast.Load()), n)
            return n

    def drop(stmts):
        out = []
        for s in stmts:
            if isinstance(s, ast.Assign) and len(s.targets) == 1 and isinstance(s.targets[0], ast.Name) and s.targets[0].id in subst:
                continue
            if not isinstance(s, (ast.FunctionDef, ast.AsyncFunctionDef, ast.ClassDef)):
                for fld in ("body", "orelse", "finalbody"):
                    if hasattr(s, fld) and isinstance(getattr(s, fld), list) and getattr(s, fld):
                        setattr(s, fld, drop(getattr(s, fld)) or [ast.copy_location(ast.Pass(), s)])
                if isinstance(s, ast.Try):
                    for h in s.handlers:
                        h.body = drop(h.body) or [ast.copy_location(ast.Pass(), h)]
            out.append(s)
        return out
    # names bound once to `type(<something>)`: never None
    nonnull = set()
    for n_ in own_nodes(fnode):
        if isinstance(n_, ast.Assign) and len(n_.targets) == 1 and isinstance(n_.targets[0], ast.Name) and stores.get(n_.targets[0].id) == 1 \
                and isinstance(n_.value, ast.Call) and isinstance(n_.value.func, ast.Name) and n_.value.func.id == "type" and len(n_.value.args) == 1:
            nonnull.add(n_.targets[0].id)

    def fold_const_ifs(stmts):
        out = []
        for s in stmts:
            if isinstance(s, ast.If) and isinstance(s.test, ast.Compare) and len(s.test.ops) == 1 and isinstance(s.test.left, ast.Name) and s.test.left.id in nonnull \
                    and isinstance(s.test.comparators[0], ast.Constant) and s.test.comparators[0].value is None and isinstance(s.test.ops[0], (ast.Is, ast.IsNot, ast.Eq, ast.NotEq)):
                truth = isinstance(s.test.ops[0], (ast.IsNot, ast.NotEq))
                out.extend(fold_const_ifs(s.body if truth else s.orelse))
                continue
            if isinstance(s, ast.If) and isinstance(s.test, ast.Compare) and len(s.test.ops) == 1 and isinstance(s.test.left, ast.Constant) \
                    and isinstance(s.test.comparators[0], ast.Constant) and isinstance(s.test.ops[0], (ast.Is, ast.IsNot, ast.Eq, ast.NotEq)):
                same = s.test.left.value is s.test.comparators[0].value or (s.test.left.value == s.test.comparators[0].value and type(s.test.left.value) is type(s.test.comparators[0].value))
                truth = same if isinstance(s.test.ops[0], (ast.Is, ast.Eq)) else not same
                out.extend(fold_const_ifs(s.body if truth else s.orelse))
                continue
            if isinstance(s, ast.If) and isinstance(s.test, ast.Constant) and isinstance(s.test.value, (bool, type(None))):
                out.extend(fold_const_ifs(s.body if s.test.value else s.orelse))
                continue
            if not isinstance(s, (ast.FunctionDef, ast.AsyncFunctionDef, ast.ClassDef)):
                for fld in ("body", "orelse", "finalbody"):
                    if hasattr(s, fld) and isinstance(getattr(s, fld), list) and getattr(s, fld):
                        v = fold_const_ifs(getattr(s, fld))
                        setattr(s, fld, v if (v or fld != "body") else [ast.copy_location(ast.Pass(), s)])
                if isinstance(s, ast.Try):
                    for h in s.handlers:
                        h.body = fold_const_ifs(h.body) or [ast.copy_location(ast.Pass(), h)]
            out.append(s)
        return out
    new = copy.copy(fnode)
    body = drop([copy.deepcopy(s) for s in fnode.body])
    new.body = fold_const_ifs([Sub().visit(s) for s in body])
    return new


# ---------------------------------------------------------------------------
# generator-based context managers and local closures

def _cm_plan(g):
    """(statements before the yield, yielded expression, wrapper kind, statements after) of a @contextmanager function with exactly one
    `yield` in statement form, either at the top level of its body or as the only statement of a top-level try block
    (try: yield x  finally/except: ...).  None if it does not fit."""
    fn = g.node
    if not any((dotted(d) or "").split(".")[-1] == "contextmanager" for d in fn.decorator_list):
        return None
    if fn.args.vararg or fn.args.kwarg:
        return None
    body = _strip_doc(fn.body)
    nodes = list(own_nodes(fn))
    ys = [n for n in nodes if isinstance(n, (ast.Yield, ast.YieldFrom))]
    if len(ys) != 1 or isinstance(ys[0], ast.YieldFrom):
        return None
    if any(isinstance(n, (ast.Return, ast.Global, ast.Nonlocal)) for n in nodes):
        return None
    for i, s in enumerate(body):
        if isinstance(s, ast.Expr) and s.value is ys[0]:
            return body[:i], ys[0].value, None, body[i + 1:]
        if isinstance(s, ast.Try) and len(s.body) == 1 and isinstance(s.body[0], ast.Expr) and s.body[0].value is ys[0]:
            return body[:i], ys[0].value, s, body[i + 1:]
    return None


def inline_generator_cms(project, func, resolve, depth=2):
    """`with helper(args) as T: BODY` over a project @contextmanager helper becomes the helper's own statements with
    `T = <yielded value>; BODY` in place of its `yield` (inside the helper's try block when the yield sits in one)."""
    counter = [0]
    extern = dict(getattr(func, "extern", {}) or {})

    def rewrite(stmts, d):
        out = []
        for s in stmts:
            if isinstance(s, ast.With) and len(s.items) == 1 and isinstance(s.items[0].context_expr, ast.Call) and d > 0:
                call = s.items[0].context_expr
                g = resolve(func, call)
                plan = _cm_plan(g) if (g is not None and getattr(g.module, "kind", "py") == "py") else None
                if plan is not None and not any(isinstance(a, ast.Starred) for a in call.args) and not any(k.arg is None for k in call.keywords):
                    pre_s, yv, tr, post_s = plan
                    a = g.node.args
                    params = [x.arg for x in a.posonlyargs + a.args]
                    kwonly = [x.arg for x in a.kwonlyargs]
                    if len(call.args) <= len(params):
                        bound = dict(zip(params, call.args))
                        ok = True
                        for k in call.keywords:
                            if k.arg in bound or (k.arg not in params and k.arg not in kwonly):
                                ok = False
                            bound[k.arg] = k.value
                        defaults = dict(zip(params[len(params) - len(a.defaults):], a.defaults))
                        for x, dflt in zip(a.kwonlyargs, a.kw_defaults):
                            if dflt is not None:
                                defaults[x.arg] = dflt
                        for p in params + kwonly:
                            if p not in bound:
                                if p in defaults:
                                    bound[p] = defaults[p]
                                else:
                                    ok = False
                        if ok:
                            counter[0] += 1
                            pre = "_%s_%d__" % (g.node.name.strip("_"), counter[0])
                            names = set(_local_names(g.node)) | {n.name for n in g.node.body if isinstance(n, (ast.FunctionDef, ast.ClassDef))}
                            for n_ in ast.walk(g.node):
                                if isinstance(n_, (ast.FunctionDef,)) and n_ is not g.node:
                                    names.add(n_.name)
                            mapping = {nm: pre + nm for nm in names}
                            if g.module is not func.module:
                                for n_ in own_nodes(g.node):
                                    if isinstance(n_, ast.Name) and isinstance(n_.ctx, ast.Load):
                                        extern.setdefault(n_.id, g.module.name)
                                for n_ in ast.walk(g.node):
                                    if isinstance(n_, ast.Name) and isinstance(n_.ctx, ast.Load):
                                        extern.setdefault(n_.id, g.module.name)
                            ren = _DeepRenamer(mapping)
                            new = []
                            for p, av in bound.items():
                                asg = ast.Assign(targets=[ast.Name(id=mapping[p], ctx=ast.Store())], value=copy.deepcopy(av))
                                ast.copy_location(asg, s)
                                ast.fix_missing_locations(asg)
                                new.append(asg)
                            inner = []
                            if s.items[0].optional_vars is not None and yv is not None:
                                asg = ast.Assign(targets=[copy.deepcopy(s.items[0].optional_vars)], value=ren.visit(copy.deepcopy(yv)))
                                for t_ in ast.walk(asg.targets[0]):
                                    if hasattr(t_, "ctx"):
                                        t_.ctx = ast.Store()
                                ast.copy_location(asg, s)
                                ast.fix_missing_locations(asg)
                                inner.append(asg)
                            inner.extend(rewrite(s.body, d))
                            pre_stmts = [ren.visit(copy.deepcopy(x)) for x in pre_s]
                            post_stmts = [ren.visit(copy.deepcopy(x)) for x in post_s]
                            if tr is None:
                                mid = inner
                            else:
                                t2 = ren.visit(copy.deepcopy(tr))
                                t2.body = inner
                                mid = [t2]
                            out.extend(new + rewrite(pre_stmts, d - 1) + mid + rewrite(post_stmts, d - 1))
                            continue
            s2 = copy.copy(s)
            if not isinstance(s2, (ast.FunctionDef, ast.AsyncFunctionDef, ast.ClassDef)):
                for fld in ("body", "orelse", "finalbody"):
                    if hasattr(s2, fld) and isinstance(getattr(s2, fld), list):
                        setattr(s2, fld, rewrite(getattr(s2, fld), d))
                if isinstance(s2, ast.Try):
                    hs = []
                    for h in s2.handlers:
                        h2 = copy.copy(h)
                        h2.body = rewrite(h.body, d)
                        hs.append(h2)
                    s2.handlers = hs
            out.append(s2)
        return out
    new_node = copy.copy(func.node)
    new_node.body = rewrite(list(func.node.body), depth)
    if counter[0] == 0:
        return func
    new_node = _propagate(new_node)
    ast.fix_missing_locations(new_node)
    clone = Func(func.qual, new_node, func.module, func.cls, func.parent)
    clone.inlined = counter[0]
    clone.extern = extern
    return clone


class _DeepRenamer(ast.NodeTransformer):
    """Rename names also inside nested definitions (closures defined by a spliced helper keep referring to its renamed locals);
    parameters of a nested definition that shadow a renamed name are left alone."""
    def __init__(self, mapping):
        self.mapping = mapping

    def visit_Name(self, n):
        if n.id in self.mapping:
            return ast.copy_location(ast.Name(id=self.mapping[n.id], ctx=n.ctx), n)
        return n

    def visit_FunctionDef(self, n):
        own = {x.arg for x in n.args.posonlyargs + n.args.args + n.args.kwonlyargs}
        inner = _DeepRenamer({k: v for k, v in self.mapping.items() if k not in own})
        n2 = copy.copy(n)
        n2.name = self.mapping.get(n.name, n.name)
        n2.body = [inner.visit(x) for x in n.body]
        return n2


def inline_local_closures(func):
    """Calls in statement position of a function defined once inside *func* (a closure such as `def send(item): put_to_workers(queue,
    item, workers, done_event)`), possibly through one alias `name = closure`, are replaced by the closure's body; the closure
    must not be used in any other way (passed on, returned, called in an expression)."""
    fn = func.node
    # `name = lambda a, b: expr` bound once is the closure `def name(a, b): expr` (its value is not used by a call in statement position)
    lam_stores = {}
    for n_ in own_nodes(fn):
        if isinstance(n_, ast.Name) and isinstance(n_.ctx, ast.Store):
            lam_stores[n_.id] = lam_stores.get(n_.id, 0) + 1
    lam_defs = {}
    for a_ in own_nodes(fn):
        if isinstance(a_, ast.Assign) and len(a_.targets) == 1 and isinstance(a_.targets[0], ast.Name) and isinstance(a_.value, ast.Lambda) \
                and lam_stores.get(a_.targets[0].id) == 1 and not a_.value.args.vararg and not a_.value.args.kwarg:
            d_ = ast.FunctionDef(name=a_.targets[0].id, args=a_.value.args, body=[ast.Expr(value=a_.value.body)], decorator_list=[], returns=None, type_comment=None)
            try:
                d_.type_params = []
            except Exception:
                pass
            ast.copy_location(d_, a_)
            ast.fix_missing_locations(d_)
            lam_defs[a_.targets[0].id] = (a_, d_)
    if lam_defs:
        def repl(stmts):
            out = []
            for s_ in stmts:
                hit = [v for v in lam_defs.values() if v[0] is s_]
                if hit:
                    out.append(hit[0][1])
                    continue
                if not isinstance(s_, (ast.FunctionDef, ast.AsyncFunctionDef, ast.ClassDef)):
                    s_ = copy.copy(s_)
                    for fld in ("body", "orelse", "finalbody"):
                        if hasattr(s_, fld) and isinstance(getattr(s_, fld), list):
                            setattr(s_, fld, repl(getattr(s_, fld)))
                    if isinstance(s_, ast.Try):
                        hs = []
                        for h in s_.handlers:
                            h2 = copy.copy(h)
                            h2.body = repl(h.body)
                            hs.append(h2)
                        s_.handlers = hs
                out.append(s_)
            return out
        fn2 = copy.copy(fn)
        fn2.body = repl(list(fn.body))
        fn = fn2
        func = Func(func.qual, fn, func.module, func.cls, func.parent)
        func.extern = dict(getattr(func, "extern", {}) or {})
    defs = {}
    for s in ast.walk(fn):
        if isinstance(s, ast.FunctionDef) and s is not fn:
            defs.setdefault(s.name, []).append(s)
    defs = {k: v[0] for k, v in defs.items() if len(v) == 1 and not v[0].decorator_list and not v[0].args.vararg and not v[0].args.kwarg}
    if not defs:
        return func
    # only definitions at the statement level of func itself (not nested deeper inside other defs)
    top = set()
    def collect(stmts):
        for s in stmts:
            if isinstance(s, ast.FunctionDef):
                top.add(s.name)
                continue
            for fld in ("body", "orelse", "finalbody"):
                if hasattr(s, fld) and isinstance(getattr(s, fld), list):
                    collect(getattr(s, fld))
            if isinstance(s, ast.Try):
                for h in s.handlers:
                    collect(h.body)
    collect(fn.body)
    defs = {k: v for k, v in defs.items() if k in top}
    stores = {}
    for n in own_nodes(fn):
        if isinstance(n, ast.Name) and isinstance(n.ctx, ast.Store):
            stores[n.id] = stores.get(n.id, 0) + 1
    alias = {}
    for n in own_nodes(fn):
        if isinstance(n, ast.Assign) and len(n.targets) == 1 and isinstance(n.targets[0], ast.Name) and isinstance(n.value, ast.Name) \
                and n.value.id in defs and stores.get(n.targets[0].id) == 1:
            alias[n.targets[0].id] = n.value.id
    names = set(defs) | set(alias)
    parents = {}
    for n in own_nodes(fn):
        for c in ast.iter_child_nodes(n):
            parents[id(c)] = n
    usable = {}
    for nm in defs:
        d = defs[nm]
        nodes = list(own_nodes(d))
        if any(isinstance(x, (ast.Yield, ast.YieldFrom, ast.Return, ast.Global, ast.Nonlocal)) for x in nodes):
            continue
        usable[nm] = d
    bad = set()
    for n in own_nodes(fn):
        if isinstance(n, ast.Name) and isinstance(n.ctx, ast.Load) and n.id in names:
            p = parents.get(id(n))
            target = alias.get(n.id, n.id)
            if isinstance(p, ast.Assign) and p.value is n and n.id in defs and len(p.targets) == 1 and isinstance(p.targets[0], ast.Name) and p.targets[0].id in alias:
                continue
            if isinstance(p, ast.Call) and p.func is n:
                pp = parents.get(id(p))
                if isinstance(pp, ast.Expr) and pp.value is p:
                    continue
            bad.add(target)
    # uses inside *other* nested definitions
    for d in defs.values():
        for x in ast.walk(d):
            if isinstance(x, ast.Name) and x.id in names and (alias.get(x.id, x.id) != d.name):
                bad.add(alias.get(x.id, x.id))
    usable = {k: v for k, v in usable.items() if k not in bad}
    if not usable:
        return func
    counter = [0]

    def rewrite(stmts):
        out = []
        for s in stmts:
            if isinstance(s, ast.FunctionDef) and s.name in usable:
                continue
            if isinstance(s, ast.Assign) and len(s.targets) == 1 and isinstance(s.targets[0], ast.Name) and s.targets[0].id in alias \
                    and alias[s.targets[0].id] in usable and isinstance(s.value, ast.Name):
                continue
            if isinstance(s, ast.Expr) and isinstance(s.value, ast.Call) and isinstance(s.value.func, ast.Name) and alias.get(s.value.func.id, s.value.func.id) in usable:
                call = s.value
                d = usable[alias.get(call.func.id, call.func.id)]
                a = d.args
                params = [x.arg for x in a.posonlyargs + a.args]
                if not any(isinstance(x, ast.Starred) for x in call.args) and not any(k.arg is None for k in call.keywords) and len(call.args) <= len(params):
                    bound = dict(zip(params, call.args))
                    ok = True
                    for k in call.keywords:
                        if k.arg in bound or k.arg not in params:
                            ok = False
                        bound[k.arg] = k.value
                    defaults = dict(zip(params[len(params) - len(a.defaults):], a.defaults))
                    for p in params:
                        if p not in bound:
                            if p in defaults:
                                bound[p] = defaults[p]
                            else:
                                ok = False
                    if ok:
                        counter[0] += 1
                        pre = "_%s_%d__" % (d.name.strip("_"), counter[0])
                        local = set(params) | {x.id for x in own_nodes(d) if isinstance(x, ast.Name) and isinstance(x.ctx, ast.Store)}
                        mapping = {nm: pre + nm for nm in local}
                        new = []
                        for p, av in bound.items():
                            asg = ast.Assign(targets=[ast.Name(id=mapping[p], ctx=ast.Store())], value=copy.deepcopy(av))
                            ast.copy_location(asg, s)
                            ast.fix_missing_locations(asg)
                            new.append(asg)
                        ren = _Renamer(mapping)
                        out.extend(new + [ren.visit(copy.deepcopy(x)) for x in _strip_doc(d.body)])
                        continue
            s2 = copy.copy(s)
            if not isinstance(s2, (ast.FunctionDef, ast.AsyncFunctionDef, ast.ClassDef)):
                for fld in ("body", "orelse", "finalbody"):
                    if hasattr(s2, fld) and isinstance(getattr(s2, fld), list) and getattr(s2, fld):
                        setattr(s2, fld, rewrite(getattr(s2, fld)) or [ast.copy_location(ast.Pass(), s2)])
                if isinstance(s2, ast.Try):
                    hs = []
                    for h in s2.handlers:
                        h2 = copy.copy(h)
                        h2.body = rewrite(h.body) or [ast.copy_location(ast.Pass(), h)]
                        hs.append(h2)
                    s2.handlers = hs
            out.append(s2)
        return out
    new_node = copy.copy(fn)
    new_node.body = rewrite(list(fn.body))
    if counter[0] == 0:
        return func
    new_node = _propagate(new_node)
    ast.fix_missing_locations(new_node)
    clone = Func(func.qual, new_node, func.module, func.cls, func.parent)
    clone.inlined = counter[0]
    clone.extern = dict(getattr(func, "extern", {}) or {})
    return clone


def cm_class_as_generator(project, func, class_methods):
    """A method whose last statement is `return Cls(args)` with Cls a project class that has __enter__ and __exit__ (a hand-written
    context manager replacing a @contextmanager generator) as the generator it replaces:

        <statements before the return>; cm = Cls(args); v = cm.__enter__()
        try: yield v
        except BaseException as e: cm.__exit__(type(e), e, None); raise
        else: cm.__exit__(None, None, None)

    with the object taken apart (see scalarize).  None when the function does not have that shape."""
    body = list(func.node.body)
    if not body or not isinstance(body[-1], ast.Return) or not isinstance(body[-1].value, ast.Call):
        return None
    if any(isinstance(n, (ast.Yield, ast.YieldFrom)) for n in own_nodes(func.node)):
        return None
    call = body[-1].value
    ms = class_methods(call.func)
    if ms is None or "__enter__" not in ms or "__exit__" not in ms:
        return None
    src = """
_cm = None
_cm_v = _cm.__enter__()
try:
    yield _cm_v
except BaseException as _cm_e:
    _cm.__exit__(type(_cm_e), _cm_e, None)
    raise
else:
    _cm.__exit__(None, None, None)
"""
    tmpl = ast.parse(src).body
    tmpl[0].value = copy.deepcopy(call)
    for st in tmpl:
        for x in ast.walk(st):
            ast.copy_location(x, body[-1])
    new_node = copy.copy(func.node)
    new_node.body = body[:-1] + tmpl
    ast.fix_missing_locations(new_node)
    clone = Func(func.qual, new_node, func.module, func.cls, func.parent)
    clone.extern = dict(getattr(func, "extern", {}) or {})
    out = scalarize(project, clone, class_methods)
    if out is clone:
        return None
    return out
