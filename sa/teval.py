"""Decide a term over a *finite abstract domain*: evaluate a canonical term
under an assignment of abstract values to its free symbols.  Used for truth
tables of small decision expressions (e.g. "rows are reversed iff the write
format is bottom-up" over format in {None, 'fits', other} x default format x
mode).  Anything outside the supported fragment yields UNKNOWN, never a guess.
"""
from fractions import Fraction

from .sym import show, num_value, is_num


class _Unknown:
    def __repr__(self):
        return "UNKNOWN"

    def __bool__(self):
        raise ValueError("truth value of UNKNOWN")


UNKNOWN = _Unknown()


def teval(t, env, hooks=None):
    """env: {term: value}; hooks: list of functions (term, rec) -> value or NotImplemented."""
    hooks = hooks or []

    def rec(x):
        if x in env:
            return env[x]
        for h in hooks:
            v = h(x, rec)
            if v is not NotImplemented:
                return v
        k = x[0]
        if k == "const":
            return x[1]
        if k == "poly":
            v = num_value(x)
            if v is not None:
                return int(v) if v.denominator == 1 else float(v)
            return UNKNOWN
        if k == "ite":
            c = rec(x[1])
            if c is UNKNOWN:
                a, b = rec(x[2]), rec(x[3])
                return a if (a is not UNKNOWN and a == b) else UNKNOWN
            return rec(x[2]) if c else rec(x[3])
        if k == "op":
            op, args = x[1], x[2]
            if op == "not":
                v = rec(args[0])
                return UNKNOWN if v is UNKNOWN else (not v)
            if op == "and":
                res = True
                for a in args:
                    v = rec(a)
                    if v is UNKNOWN:
                        res = UNKNOWN
                        continue
                    if not v:
                        return v
                    if res is not UNKNOWN:
                        res = v
                return res
            if op == "or":
                res = False
                unk = False
                for a in args:
                    v = rec(a)
                    if v is UNKNOWN:
                        unk = True
                        continue
                    if v:
                        return UNKNOWN if unk else v
                    res = v
                return UNKNOWN if unk else res
            if op.startswith("cmp:"):
                a, b = rec(args[0]), rec(args[1])
                if a is UNKNOWN or b is UNKNOWN:
                    return UNKNOWN
                c = op[4:]
                try:
                    return {"Eq": lambda: a == b, "NotEq": lambda: a != b, "Is": lambda: a is b or (a == b and type(a) is type(b) and isinstance(a, (bool, type(None), str, int))),
                            "IsNot": lambda: not (a is b or (a == b and type(a) is type(b) and isinstance(a, (bool, type(None), str, int)))),
                            "Lt": lambda: a < b, "LtE": lambda: a <= b, "Gt": lambda: a > b, "GtE": lambda: a >= b,
                            "In": lambda: a in b, "NotIn": lambda: a not in b}[c]()
                except Exception:
                    return UNKNOWN
        return UNKNOWN

    return rec(t)
