"""Decide a term over a *finite abstract domain*: evaluate a canonical term
under an assignment of abstract values to its free symbols.  Used for truth
tables of small decision expressions (e.g. "rows are reversed iff the write
format is bottom-up" over format in {None, 'fits', other} x default format x
mode).  Anything outside the supported fragment yields UNKNOWN, never a guess.
"""
from fractions import Fraction

from .sym import show, num_value, is_num


class _Unknown:
    def __repr__(self):
        return "UNKNOWN"

    def __bool__(self):
        raise ValueError("truth value of UNKNOWN")


UNKNOWN = _Unknown()


class _Raises:
    """The evaluated expression raises at run time (e.g. min() of an empty sequence): a definite outcome, not an unknown."""
    def __repr__(self):
        return "RAISES"

    def __bool__(self):
        raise ValueError("truth value of RAISES")


RAISES = _Raises()


def teval(t, env, hooks=None):
    """env: {term: value}; hooks: list of functions (term, rec) -> value or NotImplemented."""
    hooks = hooks or []

    def rec(x):
        if x in env:
            return env[x]
        for h in hooks:
            v = h(x, rec)
            if v is not NotImplemented:
                return v
        k = x[0]
        if k == "const":
            return x[1]
        if k == "poly":
            v = num_value(x)
            if v is not None:
                return int(v) if v.denominator == 1 else float(v)
            total = Fraction(0)
            for m, c in x[1]:
                term = Fraction(c)
                for a, p in m:
                    av = rec(a)
                    if av is UNKNOWN or isinstance(av, (str, type(None))) or not isinstance(av, (int, float, bool, Fraction)):
                        return UNKNOWN
                    if p < 0 and av == 0:
                        return UNKNOWN
                    if isinstance(av, float) and (av != av or av in (float("inf"), float("-inf"))):
                        term = float(term) * (av ** p)
                    elif isinstance(term, float):
                        term = term * (float(av) ** p)
                    else:
                        term *= Fraction(av) ** p
                total = total + term
            if isinstance(total, float):
                return total
            return int(total) if total.denominator == 1 else total
        if k in ("tuple", "list"):
            vals = [rec(a) for a in x[1]]
            return UNKNOWN if any(v is UNKNOWN for v in vals) else tuple(vals)
        if k == "sub":
            b, i = rec(x[1]), rec(x[2])
            if b is UNKNOWN or i is UNKNOWN:
                return UNKNOWN
            try:
                return b[i]
            except Exception:
                return UNKNOWN
        if k == "slice":
            vals = [rec(a) for a in x[1:4]]
            if any(v is UNKNOWN for v in vals):
                return UNKNOWN
            try:
                return slice(*vals)
            except Exception:
                return UNKNOWN
        # ---- strings: concatenation, f-strings, str(), "..".format(..), "%"-formatting, os.path.join, split / join
        if k == "op" and x[1] == "concat":
            vals = [rec(a) for a in x[2]]
            if any(v is UNKNOWN or v is RAISES for v in vals):
                return UNKNOWN
            if all(isinstance(v, str) for v in vals):
                return "".join(vals)
            if all(isinstance(v, tuple) for v in vals):
                return tuple(y for v in vals for y in v)
            return UNKNOWN
        if k == "op" and x[1] == "repeat" and len(x[2]) == 2:
            a_, b_ = rec(x[2][0]), rec(x[2][1])
            if isinstance(b_, (tuple, str)) and isinstance(a_, int):
                a_, b_ = b_, a_
            if isinstance(a_, (tuple, str)) and isinstance(b_, int) and not isinstance(b_, bool) and b_ < 64:
                return a_ * b_
            return UNKNOWN
        if k == "fstr":
            out_ = []
            for part in x[1]:
                if part[0] == "const":
                    out_.append(str(part[1]))
                    continue
                v_ = rec(part[2][0])
                sp_ = rec(part[2][1])
                if v_ is UNKNOWN or v_ is RAISES or sp_ is UNKNOWN or not isinstance(v_, (int, float, str, bool)):
                    return UNKNOWN
                try:
                    out_.append(format(v_, sp_ or ""))
                except Exception:
                    return UNKNOWN
            return "".join(out_)
        if k == "op" and x[1] == "mod" and len(x[2]) == 2:
            a_, b_ = rec(x[2][0]), rec(x[2][1])
            if isinstance(a_, str) and b_ is not UNKNOWN and b_ is not RAISES:
                try:
                    return a_ % b_
                except Exception:
                    return UNKNOWN
        if k == "call" and not [kw for kw in x[3] if kw[0] == "**"]:
            callee_s = None
            if x[1] == ("sym", "str") and len(x[2]) == 1 and not x[3]:
                v_ = rec(x[2][0])
                return str(v_) if isinstance(v_, (int, str, bool)) and v_ is not UNKNOWN else UNKNOWN
            if x[1][0] == "attr" and x[1][2] in ("format", "split", "join", "lower", "upper", "strip", "lstrip", "rstrip", "replace", "zfill"):
                recv_ = rec(x[1][1])
                if isinstance(recv_, str):
                    args_ = []
                    for a in x[2]:
                        if a[0] == "star":
                            sv = rec(a[1])
                            if not isinstance(sv, tuple):
                                return UNKNOWN
                            args_.extend(sv)
                        else:
                            args_.append(rec(a))
                    kws_ = {kw[0]: rec(kw[1]) for kw in x[3]}
                    if any(v is UNKNOWN or v is RAISES for v in list(args_) + list(kws_.values())):
                        return UNKNOWN
                    try:
                        r_ = getattr(recv_, x[1][2])(*args_, **kws_)
                    except (IndexError, KeyError):
                        return RAISES
                    except Exception:
                        return UNKNOWN
                    return tuple(r_) if isinstance(r_, list) else r_
            if x[1][0] == "attr" and x[1][2] in ("join", "dirname", "basename", "splitext", "split", "normpath", "relpath") and x[1][1] in (("attr", ("sym", "os"), "path"), ("sym", "posixpath")) and not x[3]:
                args_ = []
                for a in x[2]:
                    if a[0] == "star":
                        sv = rec(a[1])
                        if not isinstance(sv, tuple):
                            return UNKNOWN
                        args_.extend(sv)
                    else:
                        args_.append(rec(a))
                if not args_ or any(not isinstance(v, str) for v in args_):
                    return UNKNOWN
                import posixpath
                try:
                    r_ = getattr(posixpath, x[1][2])(*args_)
                except Exception:
                    return UNKNOWN
                return tuple(r_) if isinstance(r_, (list, tuple)) else r_
        if k == "call" and x[1] == ("sym", "filter") and len(x[2]) == 2 and x[2][0] == ("const", None) and not x[3]:
            seq_ = rec(x[2][1])
            if seq_ is UNKNOWN or seq_ is RAISES:
                return seq_
            try:
                return tuple(v for v in seq_ if v)
            except Exception:
                return UNKNOWN
        if k == "call" and x[1][0] == "sym" and x[1][1] in ("tuple", "list", "slice", "len", "zip", "reversed", "sorted", "min", "max", "sum", "abs", "int", "bool") and not x[3]:
            vals = [rec(a) for a in x[2]]
            if any(v is UNKNOWN for v in vals):
                return UNKNOWN
            if any(v is RAISES for v in vals):
                return RAISES
            if x[1][1] in ("min", "max") and len(vals) == 1 and isinstance(vals[0], tuple) and not vals[0]:
                return RAISES
            try:
                fn = {"tuple": tuple, "list": tuple, "slice": slice, "len": len, "zip": lambda *a: tuple(zip(*a)), "reversed": lambda a: tuple(reversed(a)),
                      "sorted": lambda a: tuple(sorted(a)), "min": min, "max": max, "sum": sum, "abs": abs, "int": int, "bool": bool}[x[1][1]]
                return fn(*vals)
            except Exception:
                return UNKNOWN
        if k == "op" and x[1] == "filtered":
            out_ = []
            for pr_ in x[2]:
                c_ = rec(pr_[1][0])
                if c_ is UNKNOWN:
                    return UNKNOWN
                if c_:
                    v_ = rec(pr_[1][1])
                    if v_ is UNKNOWN:
                        return UNKNOWN
                    out_.append(v_)
            return tuple(out_)
        if k == "attr" and x[1] == ("sym", "os") and x[2] == "sep":
            return "/"
        if k == "attr":
            b_ = rec(x[1])
            if b_ is UNKNOWN or isinstance(b_, (int, float, str, tuple, type(None), Fraction)):
                return UNKNOWN
            try:
                return getattr(b_, x[2])
            except Exception:
                return UNKNOWN
        if k == "item":
            b_ = rec(x[1])
            if b_ is UNKNOWN:
                return UNKNOWN
            try:
                return b_[x[2]]
            except Exception:
                return UNKNOWN
        if k == "nt":
            vals_ = [rec(a) for a in x[2]]
            return UNKNOWN if any(v is UNKNOWN for v in vals_) else tuple(vals_)
        if k == "op" and x[1] == "comp":
            # comprehension: (kind, element, iterable, condition); the element / condition speak about elem(<iterable>) -- and, for
            # zip(a, b, ..), about elem(a), elem(b), .. -- which are bound to the successive items
            kind_, elt, it, cnd = x[2][:4]
            seq = rec(it)
            if seq is UNKNOWN:
                return UNKNOWN
            parts = None
            if it[0] == "call" and it[1] == ("sym", "zip"):
                parts = it[2]
            out = []
            try:
                for v in seq:
                    env2 = dict(env)
                    env2[("elem", it)] = v
                    if parts is not None:
                        for a_, v_ in zip(parts, v):
                            env2[("elem", a_)] = v_
                    c_ = teval(cnd, env2, hooks)
                    if c_ is UNKNOWN:
                        return UNKNOWN
                    if not c_:
                        continue
                    e_ = teval(elt, env2, hooks)
                    if e_ is UNKNOWN:
                        return UNKNOWN
                    out.append(e_)
            except TypeError:
                return UNKNOWN
            return tuple(out)
        if k == "ite":
            c = rec(x[1])
            if c is RAISES:
                return RAISES
            if c is UNKNOWN:
                a, b = rec(x[2]), rec(x[3])
                return a if (a is not UNKNOWN and a == b) else UNKNOWN
            return rec(x[2]) if c else rec(x[3])
        if k == "op":
            op, args = x[1], x[2]
            if op == "not":
                v = rec(args[0])
                return v if (v is UNKNOWN or v is RAISES) else (not v)
            if op == "and":
                res = True
                for a in args:
                    v = rec(a)
                    if v is RAISES:
                        return UNKNOWN if res is UNKNOWN else RAISES
                    if v is UNKNOWN:
                        res = UNKNOWN
                        continue
                    if not v:
                        return v
                    if res is not UNKNOWN:
                        res = v
                return res
            if op == "or":
                res = False
                unk = False
                for a in args:
                    v = rec(a)
                    if v is RAISES:
                        return UNKNOWN if unk else RAISES
                    if v is UNKNOWN:
                        unk = True
                        continue
                    if v:
                        return UNKNOWN if unk else v
                    res = v
                return UNKNOWN if unk else res
            if op in ("mod", "floordiv"):
                vals = [rec(a) for a in args]
                if len(vals) == 2 and all(v is not UNKNOWN and isinstance(v, (int, float, Fraction)) and not isinstance(v, bool) for v in vals) and vals[1] != 0:
                    try:
                        r_ = vals[0] // vals[1] if op == "floordiv" else vals[0] % vals[1]
                        return int(r_) if isinstance(r_, Fraction) and r_.denominator == 1 else r_
                    except Exception:
                        return UNKNOWN
            if op in ("bitor", "bitand", "bitxor", "lshift", "rshift", "mod", "floordiv", "pow"):
                vals = [rec(a) for a in args]
                if any(v is UNKNOWN or not isinstance(v, (int, bool)) for v in vals):
                    return UNKNOWN
                vals = [int(v) for v in vals]
                try:
                    r = vals[0]
                    for v in vals[1:]:
                        r = {"bitor": lambda a, b: a | b, "bitand": lambda a, b: a & b, "bitxor": lambda a, b: a ^ b,
                             "lshift": lambda a, b: a << b, "rshift": lambda a, b: a >> b, "mod": lambda a, b: a % b,
                             "floordiv": lambda a, b: a // b, "pow": lambda a, b: a ** b}[op](r, v)
                    return r
                except Exception:
                    return UNKNOWN
            if op.startswith("cmp:"):
                a, b = rec(args[0]), rec(args[1])
                if a is UNKNOWN or b is UNKNOWN:
                    return UNKNOWN
                c = op[4:]
                try:
                    return {"Eq": lambda: a == b, "NotEq": lambda: a != b, "Is": lambda: a is b or (a == b and type(a) is type(b) and isinstance(a, (bool, type(None), str, int))),
                            "IsNot": lambda: not (a is b or (a == b and type(a) is type(b) and isinstance(a, (bool, type(None), str, int)))),
                            "Lt": lambda: a < b, "LtE": lambda: a <= b, "Gt": lambda: a > b, "GtE": lambda: a >= b,
                            "In": lambda: a in b, "NotIn": lambda: a not in b}[c]()
                except Exception:
                    return UNKNOWN
        return UNKNOWN

    return rec(t)


def agree(got, want, domains, hooks=None, limit=200000):
    """Do two terms denote the same function of the atoms in *domains* ({atom term: list of values})?
    Exhaustive evaluation over the product of the domains.  -> ('equal', n) | ('differ', env, got, want) | ('unknown', term)"""
    import itertools
    atoms = list(domains)
    n = 1
    for a in atoms:
        n *= len(domains[a])
    if n > limit:
        return ("unknown", "domain too large (%d)" % n)
    count = 0
    for vals in itertools.product(*[domains[a] for a in atoms]):
        env = dict(zip(atoms, vals))
        g = teval(got, env, hooks)
        w = teval(want, env, hooks)
        if g is UNKNOWN or w is UNKNOWN:
            return ("unknown", got if g is UNKNOWN else want)
        if isinstance(g, tuple) and isinstance(w, tuple):
            same = len(g) == len(w) and all(_same(a, b) for a, b in zip(g, w))
        else:
            same = _same(g, w)
        if not same:
            return ("differ", env, g, w)
        count += 1
    return ("equal", count)


def _same(a, b):
    if isinstance(a, bool) or isinstance(b, bool):
        return bool(a) == bool(b)
    try:
        return a == b
    except Exception:
        return False
