"""Statement-level control-flow graph for the statement kinds the repository
uses, with dominators, post-dominators, path queries and a forward solver.

Node kinds: entry, exit (normal return / fall off the end), rexit (exception
leaves the function), stmt, if, loop (for/while head), with, except (handler
head), return, raise, break, continue, finally.
Edge labels: '' normal, 'T'/'F' branch, 'exc' exceptional, 'back' loop back.
"""
import ast


class Node:
    __slots__ = ("id", "kind", "ast", "line", "loop_depth", "in_handler")

    def __init__(self, id, kind, a):
        self.id = id
        self.kind = kind
        self.ast = a
        self.line = getattr(a, "lineno", 0)
        self.loop_depth = 0
        self.in_handler = None

    def __repr__(self):
        return "<%d:%s@%d>" % (self.id, self.kind, self.line)


class CFG:
    def __init__(self, fnode, raise_edges=False):
        """raise_edges: also add an 'exc' edge to rexit from every statement
        that is not inside a try (any statement may raise)."""
        self.fn = fnode
        self.nodes = []
        self.succ = {}
        self.pred = {}
        self.raise_edges = raise_edges
        self.entry = self._new("entry", fnode)
        self.exit = self._new("exit", fnode)
        self.rexit = self._new("rexit", fnode)
        self._loops = []
        self._tries = []   # stack of lists of handler head nodes (or finally head)
        self._handler = []
        out = self._seq(fnode.body, [(self.entry, "")])
        self._connect(out, self.exit)

    # -- construction -------------------------------------------------------
    def _new(self, kind, a):
        n = Node(len(self.nodes), kind, a)
        n.loop_depth = len(getattr(self, "_loops", []))
        n.in_handler = self._handler[-1] if getattr(self, "_handler", None) else None
        self.nodes.append(n)
        self.succ[n.id] = []
        self.pred[n.id] = []
        return n

    def _edge(self, a, b, label=""):
        if (b.id, label) not in self.succ[a.id]:
            self.succ[a.id].append((b.id, label))
            self.pred[b.id].append((a.id, label))

    def _connect(self, preds, n):
        for p, l in preds:
            self._edge(p, n, l)

    def _exc(self, n):
        if self._tries:
            for h in self._tries[-1]:
                self._edge(n, h, "exc")
        elif self.raise_edges:
            self._edge(n, self.rexit, "exc")

    def _seq(self, stmts, preds):
        for s in stmts:
            preds = self._stmt(s, preds)
        return preds

    def _stmt(self, s, preds):
        if isinstance(s, ast.If):
            n = self._new("if", s)
            self._connect(preds, n)
            self._exc(n)
            return self._seq(s.body, [(n, "T")]) + self._seq(s.orelse, [(n, "F")])
        if isinstance(s, (ast.While, ast.For, ast.AsyncFor)):
            n = self._new("loop", s)
            self._connect(preds, n)
            self._exc(n)
            ctx = {"head": n, "breaks": []}
            self._loops.append(ctx)
            body_out = self._seq(s.body, [(n, "T")])
            for p, l in body_out:
                self._edge(p, n, "back")
            self._loops.pop()
            always = (isinstance(s, ast.While) and isinstance(s.test, ast.Constant)
                      and bool(s.test.value) is True)
            out = [] if always else self._seq(s.orelse, [(n, "F")])
            return out + ctx["breaks"]
        if isinstance(s, ast.Break):
            n = self._new("break", s)
            self._connect(preds, n)
            if self._loops:
                self._loops[-1]["breaks"].append((n, ""))
            return []
        if isinstance(s, ast.Continue):
            n = self._new("continue", s)
            self._connect(preds, n)
            if self._loops:
                self._edge(n, self._loops[-1]["head"], "back")
            return []
        if isinstance(s, ast.Return):
            n = self._new("return", s)
            self._connect(preds, n)
            self._exc(n)
            self._edge(n, self.exit)
            return []
        if isinstance(s, ast.Raise):
            n = self._new("raise", s)
            self._connect(preds, n)
            if self._tries:
                for h in self._tries[-1]:
                    self._edge(n, h, "exc")
            else:
                self._edge(n, self.rexit, "exc")
            return []
        if isinstance(s, (ast.With, ast.AsyncWith)):
            n = self._new("with", s)
            self._connect(preds, n)
            self._exc(n)
            return self._seq(s.body, [(n, "")])
        if isinstance(s, ast.Try):
            heads = []
            for h in s.handlers:
                hn = self._new("except", h)
                heads.append(hn)
            fin_exc = None
            if s.finalbody and not s.handlers:
                fin_exc = self._new("finally", s)
                heads_for_body = [fin_exc]
            else:
                heads_for_body = heads
            self._tries.append(heads_for_body)
            body_out = self._seq(s.body, preds)
            self._tries.pop()
            out = self._seq(s.orelse, body_out)
            for h, hn in zip(s.handlers, heads):
                self._handler.append(hn)
                # nodes created inside the handler remember it
                out = out + self._seq(h.body, [(hn, "")])
                self._handler.pop()
            if s.finalbody:
                out = self._seq(s.finalbody, out)
                if fin_exc is not None:
                    eo = self._seq(s.finalbody, [(fin_exc, "")])
                    for p, l in eo:
                        if self._tries:
                            for h in self._tries[-1]:
                                self._edge(p, h, "exc")
                        else:
                            self._edge(p, self.rexit, "exc")
            return out
        if isinstance(s, (ast.FunctionDef, ast.AsyncFunctionDef, ast.ClassDef)):
            n = self._new("stmt", s)  # a definition: no calls are executed
            self._connect(preds, n)
            return [(n, "")]
        n = self._new("stmt", s)
        self._connect(preds, n)
        self._exc(n)
        return [(n, "")]

    # -- what a node evaluates ---------------------------------------------
    def expr_of(self, n):
        """The expression(s) evaluated *at* this node (not nested statements)."""
        a = n.ast
        if n.kind in ("entry", "exit", "rexit", "except", "finally"):
            return []
        if n.kind == "if":
            return [a.test]
        if n.kind == "loop":
            return [a.test] if isinstance(a, ast.While) else [a.iter]
        if n.kind == "with":
            return [i.context_expr for i in a.items]
        if n.kind == "stmt" and isinstance(a, (ast.FunctionDef, ast.AsyncFunctionDef, ast.ClassDef)):
            return []
        if n.kind in ("break", "continue"):
            return []
        return [a]

    def calls_at(self, n):
        out = []
        for e in self.expr_of(n):
            for c in _walk_no_lambda(e):
                if isinstance(c, ast.Call):
                    out.append(c)
        return out

    def nodes_where(self, pred):
        return [n for n in self.nodes if pred(n)]

    def node_of_stmt(self, stmt):
        for n in self.nodes:
            if n.ast is stmt and n.kind not in ("entry", "exit", "rexit"):
                return n
        return None

    def node_containing(self, sub):
        """CFG node whose own expressions contain the AST node *sub*."""
        for n in self.nodes:
            for e in self.expr_of(n):
                for c in _walk_no_lambda(e):
                    if c is sub:
                        return n
        return None

    # -- graph queries ------------------------------------------------------
    def reachable(self, src, avoid=(), skip_labels=(), forward=True):
        """Set of node ids reachable from node *src* without entering nodes in
        *avoid* (ids) and without using edges labelled in *skip_labels*.
        *src* itself is not in the result unless it lies on a cycle."""
        avoid = set(avoid)
        seen = set()
        adj = self.succ if forward else self.pred
        stack = [src if isinstance(src, int) else src.id]
        first = True
        while stack:
            i = stack.pop()
            for j, lab in adj[i]:
                if lab in skip_labels or j in avoid or j in seen:
                    continue
                seen.add(j)
                stack.append(j)
            first = False
        return seen

    # -- reachability with constant propagation of flags ---------------------
    def _const_effect(self, n, state):
        """State after executing node n normally: local names assigned a constant get that constant; any other binding
        of a tracked name makes it unknown."""
        a = n.ast
        st = dict(state)
        if n.kind == "stmt" and isinstance(a, ast.Assign) and len(a.targets) == 1 and isinstance(a.targets[0], ast.Name) \
                and isinstance(a.value, ast.Constant) and (a.value.value is None or isinstance(a.value.value, (bool, int))):
            st[a.targets[0].id] = a.value.value
            return st
        if n.kind in ("stmt", "loop", "with") and a is not None:
            exprs = [a] if n.kind == "stmt" else ([a.target] if isinstance(a, (ast.For, ast.AsyncFor)) else
                                                   [i.optional_vars for i in getattr(a, "items", []) if i.optional_vars is not None])
            for e in exprs:
                for x in ast.walk(e):
                    if isinstance(x, ast.Name) and isinstance(x.ctx, (ast.Store, ast.Del)) and x.id in st:
                        del st[x.id]
        return st

    @staticmethod
    def _const_test(t, st):
        """Truth value of a test under the known constants (None if unknown)."""
        if isinstance(t, ast.Constant):
            return bool(t.value)
        if isinstance(t, ast.Name):
            return bool(st[t.id]) if t.id in st else None
        if isinstance(t, ast.UnaryOp) and isinstance(t.op, ast.Not):
            v = CFG._const_test(t.operand, st)
            return None if v is None else (not v)
        if isinstance(t, ast.BoolOp):
            vs = [CFG._const_test(v, st) for v in t.values]
            if isinstance(t.op, ast.And):
                return False if any(v is False for v in vs) else (True if all(v is True for v in vs) else None)
            return True if any(v is True for v in vs) else (False if all(v is False for v in vs) else None)
        if isinstance(t, ast.Compare) and len(t.ops) == 1 and isinstance(t.left, ast.Name) and t.left.id in st \
                and isinstance(t.comparators[0], ast.Constant):
            a, b = st[t.left.id], t.comparators[0].value
            op = t.ops[0]
            if isinstance(op, (ast.Is, ast.Eq)):
                return (a is b) if (a is None or b is None or isinstance(a, bool) or isinstance(b, bool)) else a == b
            if isinstance(op, (ast.IsNot, ast.NotEq)):
                return not ((a is b) if (a is None or b is None or isinstance(a, bool) or isinstance(b, bool)) else a == b)
        return None

    def explore_const(self, starts, avoid=(), skip_labels=()):
        """Reachability that follows only feasible branches with respect to local flags holding constants
        (`done = False ... while not done: ... done = True`).  *starts*: iterable of (node id, state dict).
        Returns {node id: set of frozenset(state items)} of the configurations reached (start nodes excluded unless re-reached)."""
        avoid = set(avoid)
        seen = {}
        todo = [(i, frozenset(st.items())) for i, st in starts]
        first = set(todo)
        done = set()
        while todo:
            i, fs = todo.pop()
            if (i, fs) in done:
                continue
            done.add((i, fs))
            n = self.nodes[i]
            st = dict(fs)
            after = self._const_effect(n, st)
            test = None
            if n.kind == "if":
                test = self._const_test(n.ast.test, st)
            elif n.kind == "loop" and isinstance(n.ast, ast.While):
                test = self._const_test(n.ast.test, st)
            for j, lab in self.succ[i]:
                if lab in skip_labels or j in avoid:
                    continue
                if test is not None and lab in ("T", "F") and (lab == "T") != test:
                    continue
                nxt = st if lab == "exc" else after
                key = frozenset(nxt.items())
                seen.setdefault(j, set()).add(key)
                todo.append((j, key))
        return seen

    def path_exists(self, a, b, avoid=(), skip_labels=()):
        a = a if isinstance(a, int) else a.id
        b = b if isinstance(b, int) else b.id
        return b in self.reachable(a, avoid=avoid, skip_labels=skip_labels)

    def dominators(self, post=False, skip_labels=()):
        ids = [n.id for n in self.nodes]
        start = self.exit.id if post else self.entry.id
        if post:
            prv = lambda i: [s for s, l in self.succ[i] if l not in skip_labels]
        else:
            prv = lambda i: [p for p, l in self.pred[i] if l not in skip_labels]
        live = self.reachable(start, skip_labels=skip_labels, forward=not post) | {start}
        dom = {i: set(live) for i in ids}
        dom[start] = {start}
        changed = True
        while changed:
            changed = False
            for i in ids:
                if i == start or i not in live:
                    continue
                ps = [dom[p] for p in prv(i) if p in live]
                new = ({i} | set.intersection(*ps)) if ps else {i}
                if new != dom[i]:
                    dom[i] = new
                    changed = True
        return dom

    def forward(self, init, transfer, join, skip_labels=()):
        """Generic forward solver.  transfer(node, state, label) -> state|None
        (None = edge infeasible).  Returns {node id: state at node entry}."""
        state = {self.entry.id: init}
        work = [self.entry.id]
        while work:
            i = work.pop()
            for j, lab in self.succ[i]:
                if lab in skip_labels:
                    continue
                out = transfer(self.nodes[i], state[i], lab)
                if out is None:
                    continue
                new = join(state[j], out) if j in state else out
                if j not in state or new != state[j]:
                    state[j] = new
                    work.append(j)
        return state

    def control_conditions(self, n):
        """Branch conditions ((if-node, label) list) that dominate node *n* in
        the structural sense: n is nested inside that arm of the if."""
        out = []
        target = n.ast

        def find(stmts, conds):
            for s in stmts:
                if s is target:
                    return conds
                if isinstance(s, ast.If):
                    r = find(s.body, conds + [(s, "T")])
                    if r is not None:
                        return r
                    r = find(s.orelse, conds + [(s, "F")])
                    if r is not None:
                        return r
                elif isinstance(s, (ast.For, ast.While, ast.With, ast.AsyncFor, ast.AsyncWith)):
                    r = find(s.body, conds)
                    if r is not None:
                        return r
                    r = find(getattr(s, "orelse", []) or [], conds)
                    if r is not None:
                        return r
                elif isinstance(s, ast.Try):
                    for blk in [s.body, s.orelse, s.finalbody] + [h.body for h in s.handlers]:
                        r = find(blk, conds)
                        if r is not None:
                            return r
            return None

        r = find(self.fn.body, [])
        return r or []


def _walk_no_lambda(e):
    stack = [e]
    while stack:
        n = stack.pop()
        yield n
        for c in ast.iter_child_nodes(n):
            if isinstance(c, (ast.Lambda, ast.FunctionDef, ast.AsyncFunctionDef, ast.ClassDef)):
                continue
            # do not descend into nested statements of compound statements
            if isinstance(c, ast.stmt):
                continue
            stack.append(c)


def enclosing_stmts(fnode, target):
    """List of compound statements (outermost first) that contain *target*
    together with the name of the block ('body', 'orelse', 'handler', 'finalbody')."""
    def find(stmts, chain):
        for s in stmts:
            if s is target:
                return chain
            for name, blk in _named_blocks(s):
                r = find(blk, chain + [(s, name)])
                if r is not None:
                    return r
        return None
    return find(fnode.body, []) or []


def _named_blocks(s):
    out = []
    if isinstance(s, (ast.FunctionDef, ast.AsyncFunctionDef, ast.ClassDef)):
        return out
    for attr in ("body", "orelse", "finalbody"):
        b = getattr(s, attr, None)
        if isinstance(b, list) and b and isinstance(b[0], ast.stmt):
            out.append((attr, b))
    for h in getattr(s, "handlers", []) or []:
        out.append(("handler", h.body))
    return out


def stmt_of(fnode, sub):
    """The innermost *statement* of fnode (not descending into nested defs)
    that contains AST node *sub*."""
    best = None

    def visit(stmts):
        nonlocal best
        for s in stmts:
            if isinstance(s, (ast.FunctionDef, ast.AsyncFunctionDef, ast.ClassDef)):
                continue
            for c in ast.walk(s):
                if c is sub:
                    best = s
                    for name, blk in _named_blocks(s):
                        visit(blk)
                    return
    visit(fnode.body)
    return best
