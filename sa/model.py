"""Program model: parse every module of the analysed package, index functions,
classes and nested closures by qualified name, resolve imports.

Pure stdlib.  Nothing from the analysed repository is ever imported or run.
"""
import ast
import hashlib
import os
import re


class AnalysisError(Exception):
    """The analyser cannot decide (vanished anchor, unknown idiom, parse error).
    Mapped to ANALYSIS-ERROR / exit 2 by check.py, never to a verdict."""


class Module:
    def __init__(self, name, relpath, src, tree, kind="py"):
        self.name = name
        self.relpath = relpath
        self.src = src
        self.tree = tree
        self.kind = kind
        self.digest = hashlib.sha256(src.encode("utf8")).hexdigest()[:16]
        self.lines = src.split("\n")


class Func:
    def __init__(self, qual, node, module, cls=None, parent=None):
        self.qual = qual
        self.node = node
        self.module = module
        self.cls = cls  # ast.ClassDef or None
        self.parent = parent  # enclosing Func or None
        self.name = node.name

    @property
    def relpath(self):
        return self.module.relpath

    @property
    def short(self):
        return self.qual.split(".", 2)[-1] if self.qual.startswith("toasty.") else self.qual

    def loc(self, node=None):
        n = node if node is not None else self.node
        return "%s:%d" % (self.module.relpath, getattr(n, "lineno", 0))

    def params(self):
        a = self.node.args
        return [x.arg for x in a.posonlyargs + a.args]

    def __repr__(self):
        return "<Func %s>" % self.qual


# --------------------------------------------------------------------------
# Cython front-end (subset used by toasty/_libtoasty.pyx); fail closed.

_CT = (r"(?:DTYPE_t\s*\[[:, ]*\]|np\.ndarray\[[^\]]*\]|DTYPE_t|bint|int|void|"
       r"Point|double)")


def _split_top(s):
    parts, cur, d = [], "", 0
    for ch in s:
        if ch in "[(":
            d += 1
        if ch in "])":
            d -= 1
        if ch == "," and d == 0:
            parts.append(cur)
            cur = ""
        else:
            cur += ch
    if cur.strip():
        parts.append(cur)
    return [p.strip() for p in parts]


def _param(a):
    m = re.match(r"^" + _CT + r"\s*\*?\s*(\w+)$", a)
    return m.group(1) if m else a


def normalise_pyx(src):
    """Turn the Cython subset into Python source with identical line numbers."""
    lines = src.split("\n")
    out = []
    i = 0
    while i < len(lines):
        l = lines[i]
        s = l.strip()
        ind = l[: len(l) - len(l.lstrip())]
        extra = 0
        if s.startswith(("cimport ", "from libc", "ctypedef ", "np.import_array")):
            o = ind + "pass"
        elif s.startswith("DEF "):
            o = ind + s[4:]
        elif s.startswith("cdef struct"):
            o = ind + "class " + s.split()[2].rstrip(":") + ":"
        elif re.match(r"^DTYPE_t \w+$", s):
            o = ind + s.split()[1] + " = None"
        elif re.match(r"^cdef\s+" + _CT + r"\s+\w+\s*\(", s):
            hdr = s
            while not hdr.rstrip().endswith(":"):
                i += 1
                extra += 1
                if i >= len(lines):
                    raise AnalysisError("pyx front-end: unterminated cdef header")
                hdr += " " + lines[i].strip()
            m = re.match(r"^cdef\s+" + _CT + r"\s+(\w+)\s*\((.*)\)\s*:$", hdr)
            if not m:
                raise AnalysisError("pyx front-end: unrecognised cdef header: " + hdr)
            o = ind + "def %s(%s):" % (
                m.group(1), ", ".join(_param(a) for a in _split_top(m.group(2))))
        elif s.startswith("cdef "):
            body = re.sub(r"^cdef\s+" + _CT + r"\s+", "", s)
            stm = [d for d in _split_top(body) if "=" in d]
            o = ind + ("; ".join(stm) if stm else "pass")
        elif re.match(r"^\w+\(.*,\s*&(\w+)\)$", s):
            # out-parameter call statement  f(a, b, &c)  ==>  c = f(a, b)
            m = re.match(r"^(\w+)\((.*),\s*&(\w+)\)$", s)
            o = ind + "%s = %s(%s)" % (m.group(3), m.group(1), m.group(2))
        else:
            o = re.sub(r"&(\w+)", r"\1", l)
        out.append(o)
        out.extend([""] * extra)
        i += 1
    return "\n".join(out)


# --------------------------------------------------------------------------

class _FuncTable(dict):
    """qualified name -> Func.  Look-ups (`get`, `[]`, `in`) also find methods a class inherits from a base class defined in
    the project (`toasty.image.Image.flip_parity` when flip_parity lives in a mixin); iteration lists each function once."""

    def __init__(self):
        super().__init__()
        self.inherited = {}

    def get(self, k, default=None):
        v = dict.get(self, k)
        if v is None:
            v = self.inherited.get(k, default)
        return v

    def __getitem__(self, k):
        v = self.get(k)
        if v is None:
            raise KeyError(k)
        return v

    def __contains__(self, k):
        return dict.__contains__(self, k) or k in self.inherited


class Project:
    """All analysed sources of one checkout.

    root      : directory holding the ``toasty`` package (default /repo)
    overrides : {relpath: source text} replacing what is on disk (used by the
                checker self-test to analyse variants without touching disk)
    """

    PKG = "toasty"

    def __init__(self, root="/repo", overrides=None):
        self.root = root
        self.overrides = overrides or {}
        self.modules = {}
        self.funcs = _FuncTable()
        self.classes = {}  # qual -> (ClassDef, Module)
        self.parse_errors = []
        self._load()

    # -- loading ------------------------------------------------------------
    def _read(self, relpath):
        if relpath in self.overrides:
            return self.overrides[relpath]
        with open(os.path.join(self.root, relpath), encoding="utf8") as f:
            return f.read()

    def _load(self):
        pkgdir = os.path.join(self.root, self.PKG)
        if not os.path.isdir(pkgdir):
            raise AnalysisError("package directory not found: " + pkgdir)
        rels = []
        for dirpath, dirnames, filenames in os.walk(pkgdir):
            dirnames[:] = sorted(d for d in dirnames if d not in ("tests", "__pycache__"))
            for fn in sorted(filenames):
                if fn.endswith(".py") or fn.endswith(".pyx"):
                    rels.append(os.path.relpath(os.path.join(dirpath, fn), self.root))
        for rel in self.overrides:
            if rel not in rels:
                rels.append(rel)
        for rel in sorted(rels):
            src = self._read(rel)
            kind = "pyx" if rel.endswith(".pyx") else "py"
            name = rel[: -len(".pyx" if kind == "pyx" else ".py")].replace(os.sep, ".")
            if name.endswith(".__init__"):
                name = name[: -len(".__init__")]
            try:
                tree = ast.parse(normalise_pyx(src) if kind == "pyx" else src)
            except SyntaxError as e:
                raise AnalysisError("cannot parse %s: %s" % (rel, e))
            mod = Module(name, rel, src, tree, kind)
            self.modules[name] = mod
            self._index(mod)
        self._link_inherited()
        self._spliced = {}

    def spliced(self, func, keep=()):
        """*func* with `for x in helper(..): body` over project generator helpers replaced by the helper's own loop with the body in
        place of its `yield` (see inline_generators): receive loops, leaf iterators and ancestor walks may live in a helper.
        Generators named in *keep* are left alone.  Cached per function."""
        key = (func.qual, tuple(sorted(keep)), id(func.node))
        hit = self._spliced.get(key)
        if hit is not None:
            return hit[1]
        out = func
        if func.module.kind == "py" and any(isinstance(n, ast.For) for n in own_nodes(func.node)):
            try:
                from rules import common as _common

                def resolve(owner, call):
                    g = _common.resolve_callee(self, owner, call)
                    return None if (g is None or g.node.name in keep) else g
                out = inline_generators(self, func, resolve, depth=2)
            except Exception:
                out = func
        self._spliced[key] = (func, out)          # *func* is kept alive: the key holds the id of its node
        return out

    def _link_inherited(self):
        """Methods a class gets from project base classes (by base-class name: same module first, then any module)."""
        by_name = {}
        for q in self.classes:
            by_name.setdefault(q.rsplit(".", 1)[-1], []).append(q)

        def bases_of(q):
            node, mod = self.classes[q]
            out = []
            for b in node.bases:
                nm = (dotted(b) or "").split(".")[-1]
                cands = [c for c in by_name.get(nm, []) if c != q]
                same = [c for c in cands if self.classes[c][1] is mod]
                pick = same or cands
                if len(pick) == 1:
                    out.append(pick[0])
            return out
        for q in self.classes:
            seen, todo = set(), bases_of(q)
            while todo:
                b = todo.pop(0)
                if b in seen:
                    continue
                seen.add(b)
                for k, f in list(dict.items(self.funcs)):
                    if k.startswith(b + ".") and "." not in k[len(b) + 1:]:
                        alias = q + "." + k[len(b) + 1:]
                        if not dict.__contains__(self.funcs, alias) and alias not in self.funcs.inherited:
                            self.funcs.inherited[alias] = f
                todo.extend(bases_of(b))

    def _index(self, mod):
        def visit(body, prefix, cls, parent):
            for n in body:
                if isinstance(n, (ast.FunctionDef, ast.AsyncFunctionDef)):
                    q = prefix + "." + n.name
                    f = Func(q, n, mod, cls=cls, parent=parent)
                    # later duplicates (e.g. property setter) get a suffix
                    k = q
                    i = 2
                    while k in self.funcs:
                        k = "%s#%d" % (q, i)
                        i += 1
                    f.qual = k
                    self.funcs[k] = f
                    visit_nested(n.body, k, cls, f)
                elif isinstance(n, ast.ClassDef):
                    q = prefix + "." + n.name
                    self.classes[q] = (n, mod)
                    visit(n.body, q, n, None)
                elif isinstance(n, (ast.If, ast.Try, ast.With)):
                    for blk in _blocks(n):
                        visit(blk, prefix, cls, parent)

        def visit_nested(body, prefix, cls, parent):
            for n in body:
                if isinstance(n, (ast.FunctionDef, ast.AsyncFunctionDef)):
                    q = prefix + "." + n.name
                    f = Func(q, n, mod, cls=cls, parent=parent)
                    k = q
                    i = 2
                    while k in self.funcs:
                        k = "%s#%d" % (q, i)
                        i += 1
                    f.qual = k
                    self.funcs[k] = f
                    visit_nested(n.body, k, cls, f)
                elif isinstance(n, ast.ClassDef):
                    pass
                else:
                    for blk in _blocks(n):
                        visit_nested(blk, prefix, cls, parent)

        visit(mod.tree.body, mod.name, None, None)

    # -- queries ------------------------------------------------------------
    def fn(self, qual):
        f = self.funcs.get(qual)
        if f is None:
            raise AnalysisError("anchor vanished: function %s not found" % qual)
        return f

    def has(self, qual):
        return qual in self.funcs

    def cls(self, qual):
        c = self.classes.get(qual)
        if c is None:
            raise AnalysisError("anchor vanished: class %s not found" % qual)
        return c

    def mod(self, name):
        m = self.modules.get(name)
        if m is None:
            raise AnalysisError("anchor vanished: module %s not found" % name)
        return m

    def functions_in(self, modname):
        return [f for q, f in self.funcs.items() if f.module.name == modname]

    def py_funcs(self):
        return [f for f in self.funcs.values() if f.module.kind == "py"]

    def methods_named(self, name):
        return [f for f in self.funcs.values() if f.name == name and f.cls is not None]

    def functions_named(self, name):
        return [f for f in self.funcs.values() if f.name == name]

    def module_constants(self, modname):
        """Top-level ``NAME = <expr>`` assignments of a module (last one wins)."""
        out = {}
        for n in self.mod(modname).tree.body:
            if isinstance(n, ast.Assign) and len(n.targets) == 1 and isinstance(n.targets[0], ast.Name):
                out[n.targets[0].id] = n.value
        return out

    def imports(self, modname):
        """Map local name -> ('module', dotted) or ('symbol', module, name) for
        module-level and function-level imports of a module."""
        cache = self.__dict__.setdefault("_imports_cache", {})
        if modname in cache:
            return cache[modname]
        mod = self.mod(modname)
        pkg_parts = mod.name.split(".")
        is_pkg = mod.relpath.endswith("__init__.py")
        out = {}
        for n in ast.walk(mod.tree):
            if isinstance(n, ast.Import):
                for a in n.names:
                    out[a.asname or a.name.split(".")[0]] = ("module", a.name)
            elif isinstance(n, ast.ImportFrom):
                base = n.module or ""
                if n.level:
                    anchor = pkg_parts if is_pkg else pkg_parts[:-1]
                    anchor = anchor[: len(anchor) - (n.level - 1)]
                    base = ".".join(anchor + ([base] if base else []))
                for a in n.names:
                    full = base + "." + a.name
                    if full in self.modules:
                        out[a.asname or a.name] = ("module", full)
                    else:
                        out[a.asname or a.name] = ("symbol", base, a.name)
        cache[modname] = out
        return out

    def stats(self):
        return {
            "files": len(self.modules),
            "functions": len(self.funcs),
            "classes": len(self.classes),
            "digests": {m.relpath: m.digest for m in self.modules.values()},
        }


def _blocks(n):
    out = []
    for attr in ("body", "orelse", "finalbody"):
        b = getattr(n, attr, None)
        if isinstance(b, list):
            out.append(b)
    for h in getattr(n, "handlers", []) or []:
        out.append(h.body)
    return out


# --------------------------------------------------------------------------
# small AST helpers shared by all rules

def dotted(node):
    """'a.b.c' for Name/Attribute chains, else None."""
    parts = []
    while isinstance(node, ast.Attribute):
        parts.append(node.attr)
        node = node.value
    if isinstance(node, ast.Name):
        parts.append(node.id)
        return ".".join(reversed(parts))
    return None


def callee(call):
    return dotted(call.func)


def callee_attr(call):
    """Last component of the called name ('put' for q.put(...), 'f' for f())."""
    f = call.func
    if isinstance(f, ast.Attribute):
        return f.attr
    if isinstance(f, ast.Name):
        return f.id
    return None


def calls_in(node):
    return [c for c in ast.walk(node) if isinstance(c, ast.Call)]


def own_nodes(fnode):
    """Walk a function body without descending into nested defs/lambdas/classes."""
    stack = list(fnode.body)
    while stack:
        n = stack.pop()
        yield n
        for c in ast.iter_child_nodes(n):
            if isinstance(c, (ast.FunctionDef, ast.AsyncFunctionDef, ast.ClassDef, ast.Lambda)):
                continue
            stack.append(c)


def own_calls(fnode):
    return [n for n in own_nodes(fnode) if isinstance(n, ast.Call)]


def is_const(node, value):
    """True iff *node* is the literal constant *value* (None/True/str/number)."""
    if not isinstance(node, ast.Constant):
        return False
    if value is None or isinstance(value, bool):
        return node.value is value
    return type(node.value) is type(value) and node.value == value


def const_value(node):
    """Fold simple constant expressions (ints/floats/str, + - * // ** << unary)."""
    if isinstance(node, ast.Constant):
        return node.value
    if isinstance(node, ast.UnaryOp) and isinstance(node.op, (ast.USub, ast.UAdd)):
        v = const_value(node.operand)
        if isinstance(v, (int, float)) and not isinstance(v, bool):
            return -v if isinstance(node.op, ast.USub) else v
        raise ValueError
    if isinstance(node, ast.BinOp):
        a, b = const_value(node.left), const_value(node.right)
        if not all(isinstance(x, (int, float)) and not isinstance(x, bool) for x in (a, b)):
            raise ValueError
        op = node.op
        if isinstance(op, ast.Add):
            return a + b
        if isinstance(op, ast.Sub):
            return a - b
        if isinstance(op, ast.Mult):
            return a * b
        if isinstance(op, ast.FloorDiv) and b:
            return a // b
        if isinstance(op, ast.Pow) and isinstance(b, int) and 0 <= b < 64:
            return a ** b
        if isinstance(op, ast.LShift) and isinstance(a, int) and isinstance(b, int) and 0 <= b < 64:
            return a << b
        if isinstance(op, ast.BitOr) and isinstance(a, int) and isinstance(b, int):
            return a | b
        if isinstance(op, ast.BitAnd) and isinstance(a, int) and isinstance(b, int):
            return a & b
    raise ValueError


def try_const(node):
    try:
        return True, const_value(node)
    except (ValueError, TypeError):
        return False, None


# ---------------------------------------------------------------------------
# source-level inlining of procedure-like helpers (for CFG / statement-order rules)

class _Renamer(ast.NodeTransformer):
    def __init__(self, mapping):
        self.mapping = mapping

    def visit_Name(self, n):
        if n.id in self.mapping:
            return ast.copy_location(ast.Name(id=self.mapping[n.id], ctx=n.ctx), n)
        return n

    def visit_FunctionDef(self, n):
        return n        # do not descend into nested definitions

    visit_Lambda = visit_FunctionDef


def _local_names(fnode):
    names = set()
    for n in own_nodes(fnode):
        if isinstance(n, ast.Name) and isinstance(n.ctx, (ast.Store, ast.Del)):
            names.add(n.id)
        elif isinstance(n, ast.ExceptHandler) and n.name:
            names.add(n.name)
    a = fnode.args
    for x in a.posonlyargs + a.args + a.kwonlyargs:
        names.add(x.arg)
    return names


def _inlinable_body(g, as_value):
    """The statements of helper *g* if it can be spliced in place of a call statement: no generator, no decorator,
    no *args/**kwargs, and `return` only as the very last statement (with a value iff the call's value is used)."""
    fn = g.node
    if fn.decorator_list or fn.args.vararg or fn.args.kwarg:
        return None
    body = list(fn.body)
    if body and isinstance(body[0], ast.Expr) and isinstance(body[0].value, ast.Constant) and isinstance(body[0].value.value, str):
        body = body[1:]
    rets = [n for n in own_nodes(fn) if isinstance(n, ast.Return)]
    if any(isinstance(n, (ast.Yield, ast.YieldFrom, ast.Global, ast.Nonlocal)) for n in own_nodes(fn)):
        return None
    if as_value:
        if len(rets) != 1 or not body or body[-1] is not rets[0] or rets[0].value is None:
            # `while True: try: return q.get(..) / except Empty: check()` -- every return sits directly in the trailing loop and
            # carries a value: the caller's `x = helper(..)` becomes that loop with `x = value; break`
            return _value_loop_body(fn, body, rets)
    else:
        if len(rets) > 1 or (rets and (not body or body[-1] is not rets[0] or rets[0].value is not None)):
            return None
    return body


class _ValueLoopBody(list):
    """Marker: statements of a helper whose value-returns were rewritten to `__RESULT__ = value; break`."""


def _value_loop_body(fn, body, rets):
    import copy
    if not body or not isinstance(body[-1], (ast.While, ast.For)) or body[-1].orelse or not rets or any(r.value is None for r in rets):
        return None
    if any(isinstance(x, ast.Return) for st in body[:-1] for x in ast.walk(st)):
        return None
    loop = copy.deepcopy(body[-1])
    if not (isinstance(loop, ast.While) and isinstance(loop.test, ast.Constant) and loop.test.value is True):
        return None                      # after a `for` the helper would fall off the end returning None

    def conv(stmts, inner):
        out = []
        for st in stmts:
            if isinstance(st, ast.Return):
                if inner:
                    raise ValueError("return in nested loop")
                asg = ast.Assign(targets=[ast.Name(id="__RESULT__", ctx=ast.Store())], value=st.value)
                ast.copy_location(asg, st)
                br = ast.copy_location(ast.Break(), st)
                ast.fix_missing_locations(asg)
                out += [asg, br]
                continue
            if isinstance(st, (ast.FunctionDef, ast.AsyncFunctionDef, ast.ClassDef)):
                out.append(st)
                continue
            inn = inner or isinstance(st, (ast.For, ast.While))
            for fld in ("body", "orelse", "finalbody"):
                if hasattr(st, fld) and isinstance(getattr(st, fld), list):
                    setattr(st, fld, conv(getattr(st, fld), inn))
            if isinstance(st, ast.Try):
                for h in st.handlers:
                    h.body = conv(h.body, inn)
            out.append(st)
        return out
    try:
        loop.body = conv(loop.body, False)
    except ValueError:
        return None
    return _ValueLoopBody([copy.deepcopy(x) for x in body[:-1]] + [loop])


def inline_helpers(project, func, resolve, depth=2):
    """A copy of *func* in which calls of project helpers used as statements (`helper(a, b)`, `self.helper(a)`,
    `x = helper(a)`) are replaced by the helper's body, parameters and locals renamed apart.  *resolve(func, call)*
    maps a call to the project Func it invokes (or None).  Statement order, conditions and line numbers of the
    helper's statements are preserved, so CFG-based rules see one function."""
    import copy
    counter = [0]
    extern = dict(getattr(func, "extern", {}) or {})       # global names of spliced statements -> the module they were written in

    def splice(stmts, owner, d):
        out = []
        for s in stmts:
            call, target = None, None
            if isinstance(s, ast.Expr) and isinstance(s.value, ast.Call):
                call = s.value
            elif isinstance(s, ast.Assign) and len(s.targets) == 1 and isinstance(s.value, ast.Call):
                call, target = s.value, s.targets[0]
            g = resolve(owner, call) if call is not None else None
            body = _inlinable_body(g, target is not None) if (g is not None and g is not func and d > 0 and getattr(g.module, "kind", "py") == "py") else None
            if body is not None and not any(isinstance(a, ast.Starred) for a in call.args) and not any(k.arg is None for k in call.keywords):
                params = [x.arg for x in g.node.args.posonlyargs + g.node.args.args]
                args = list(call.args)
                bound = {}
                is_method = g.cls is not None and params and params[0] in ("self", "cls") and isinstance(call.func, ast.Attribute)
                if is_method:
                    bound[params[0]] = call.func.value
                    params_rest = params[1:]
                else:
                    params_rest = params
                if len(args) <= len(params_rest):
                    for p, a in zip(params_rest, args):
                        bound[p] = a
                    ok = True
                    for k in call.keywords:
                        if k.arg in bound or (k.arg not in params_rest and k.arg not in [x.arg for x in g.node.args.kwonlyargs]):
                            ok = False
                        bound[k.arg] = k.value
                    defaults = dict(zip(params[len(params) - len(g.node.args.defaults):], g.node.args.defaults))
                    for x, dflt in zip(g.node.args.kwonlyargs, g.node.args.kw_defaults):
                        if dflt is not None:
                            defaults[x.arg] = dflt
                    for p in params_rest + [x.arg for x in g.node.args.kwonlyargs]:
                        if p not in bound:
                            if p in defaults:
                                bound[p] = defaults[p]
                            else:
                                ok = False
                    if ok:
                        counter[0] += 1
                        if g.module is not func.module:
                            for n_ in own_nodes(g.node):
                                if isinstance(n_, ast.Name) and isinstance(n_.ctx, ast.Load):
                                    extern.setdefault(n_.id, g.module.name)
                        pre = "_%s_%d__" % (g.node.name.strip("_"), counter[0])
                        mapping = {nm: pre + nm for nm in _local_names(g.node)}
                        if is_method and isinstance(bound[params[0]], ast.Name):
                            mapping[params[0]] = bound[params[0]].id      # `self` stays `self`
                        new = []
                        for p, a in bound.items():
                            if p in mapping and mapping[p] == getattr(a, "id", None):
                                continue
                            asg = ast.Assign(targets=[ast.Name(id=mapping.get(p, pre + p), ctx=ast.Store())], value=copy.deepcopy(a))
                            ast.copy_location(asg, s)
                            ast.fix_missing_locations(asg)
                            new.append(asg)
                        if isinstance(body, _ValueLoopBody):
                            if not isinstance(target, ast.Name):
                                out.append(s)
                                continue
                            mapping = dict(mapping)
                            mapping["__RESULT__"] = target.id
                        ren = _Renamer(mapping)
                        hb = [ren.visit(copy.deepcopy(x)) for x in body]
                        if hb and isinstance(hb[-1], ast.Return):
                            last = hb.pop()
                            if target is not None:
                                asg = ast.Assign(targets=[copy.deepcopy(target)], value=last.value)
                                ast.copy_location(asg, last)
                                ast.fix_missing_locations(asg)
                                hb.append(asg)
                        hb = splice(hb, g, d - 1)
                        out.extend(new + hb)
                        continue
            # recurse into compound statements
            s2 = copy.copy(s)
            for fld in ("body", "orelse", "finalbody"):
                if hasattr(s2, fld) and isinstance(getattr(s2, fld), list) and not isinstance(s2, (ast.FunctionDef, ast.AsyncFunctionDef, ast.ClassDef)):
                    setattr(s2, fld, splice(getattr(s2, fld), owner, d))
            if isinstance(s2, ast.Try):
                hs = []
                for h in s2.handlers:
                    h2 = copy.copy(h)
                    h2.body = splice(h.body, owner, d)
                    hs.append(h2)
                s2.handlers = hs
            out.append(s2)
        return out

    new_node = copy.copy(func.node)
    new_node.body = splice(list(func.node.body), func, depth)
    if counter[0] == 0:
        return func
    clone = Func(func.qual, new_node, func.module, func.cls, func.parent)
    clone.inlined = counter[0]
    clone.extern = extern
    return clone



# ---------------------------------------------------------------------------
# generator helpers: `for X in helper(args): BODY` with the helper's loop spliced in

NEUTRAL_CONTEXTS = ("warnings.catch_warnings", "np.errstate", "numpy.errstate")


def _generator_plan(g):
    """(prelude statements, the loop) of a generator helper that can be spliced into a `for` over it: a function whose body
    is some straight-line statements followed by exactly one loop, with every `yield` (statement form, with a value) and every
    `return` inside that loop but not inside a nested loop; no decorators, no *args/**kwargs, no `yield from`, no yield inside
    try/finally or with (the consumer's body would run inside them).  None if it does not fit."""
    fn = g.node
    if fn.decorator_list or fn.args.vararg or fn.args.kwarg:
        return None
    body = list(fn.body)
    if body and isinstance(body[0], ast.Expr) and isinstance(body[0].value, ast.Constant) and isinstance(body[0].value.value, str):
        body = body[1:]
    # a trailing `with warnings.catch_warnings():` / `with np.errstate(..):` only changes how warnings are reported: its body is
    # the rest of the function
    while body and isinstance(body[-1], ast.With) and all(
            isinstance(it.context_expr, ast.Call) and (dotted(it.context_expr.func) or "") in NEUTRAL_CONTEXTS and it.optional_vars is None for it in body[-1].items):
        body = body[:-1] + list(body[-1].body)
    if not body or not isinstance(body[-1], (ast.For, ast.While)) or body[-1].orelse:
        return None
    loop = body[-1]
    pre = body[:-1]
    nodes = list(own_nodes(fn))
    if any(isinstance(n, (ast.YieldFrom, ast.Global, ast.Nonlocal, ast.Await)) for n in nodes):
        return None
    ys = [n for n in nodes if isinstance(n, ast.Yield)]
    if not ys or any(y.value is None for y in ys):
        return None
    for st in pre:
        if any(isinstance(x, (ast.Yield, ast.Return)) for x in ast.walk(st)):
            return None

    def ok(stmts, in_inner_loop, in_guard):
        for st in stmts:
            if isinstance(st, ast.Expr) and isinstance(st.value, ast.Yield):
                if in_inner_loop or in_guard:
                    return False
                continue
            if any(isinstance(x, ast.Yield) for x in ast.walk(st)) and not isinstance(st, (ast.If, ast.For, ast.While, ast.Try, ast.With)):
                return False          # a yield used as an expression
            if isinstance(st, ast.Return):
                if in_inner_loop:
                    return False
                continue
            if isinstance(st, (ast.For, ast.While)):
                if any(isinstance(x, (ast.Yield, ast.Return)) for x in ast.walk(st)):
                    return False
                continue
            if isinstance(st, ast.If):
                if not ok(st.body, in_inner_loop, in_guard) or not ok(st.orelse, in_inner_loop, in_guard):
                    return False
            elif isinstance(st, ast.Try):
                has_y = any(isinstance(x, ast.Yield) for x in ast.walk(st))
                if has_y:
                    return False
            elif isinstance(st, ast.With):
                if any(isinstance(x, ast.Yield) for x in ast.walk(st)):
                    return False
        return True
    if not ok(loop.body, False, False):
        return None
    return pre, loop


def _is_tail(stmts, target):
    """Is *target* the statement after which nothing more of this iteration runs (last of its block, recursively)?"""
    if not stmts:
        return False
    last = stmts[-1]
    if last is target:
        return True
    if isinstance(last, ast.If):
        return _is_tail(last.body, target) or _is_tail(last.orelse, target)
    return False


def inline_generators(project, func, resolve, depth=1):
    """A copy of *func* in which `for TARGET in helper(args): BODY` over a project generator helper (see _generator_plan) is
    replaced by the helper's own loop with `TARGET = <yielded value>; BODY` in place of each `yield`, the helper's parameters and
    locals renamed apart and its `return` turned into `break`.  Where the yield is not the last thing of an iteration, BODY's
    `continue` must not skip what follows it: BODY then runs in a one-shot loop."""
    import copy
    counter = [0]

    def own_level(stmts, kinds):
        """statements of *kinds* that belong to this loop level (not to nested loops / functions)"""
        out = []
        for st in stmts:
            if isinstance(st, kinds):
                out.append(st)
            if isinstance(st, (ast.For, ast.While, ast.FunctionDef, ast.AsyncFunctionDef, ast.ClassDef)):
                continue
            for fld in ("body", "orelse", "finalbody"):
                if hasattr(st, fld) and isinstance(getattr(st, fld), list):
                    out += own_level(getattr(st, fld), kinds)
            if isinstance(st, ast.Try):
                for h in st.handlers:
                    out += own_level(h.body, kinds)
        return out

    def rewrite(stmts, owner, d):
        out = []
        for s in stmts:
            done = False
            if isinstance(s, ast.For) and not s.orelse and isinstance(s.iter, ast.Call) and d > 0:
                g = resolve(owner, s.iter)
                plan = _generator_plan(g) if (g is not None and g is not func and getattr(g.module, "kind", "py") == "py") else None
                call = s.iter
                if plan is not None and not any(isinstance(a, ast.Starred) for a in call.args) and not any(k.arg is None for k in call.keywords):
                    pre, gloop = plan
                    params = [x.arg for x in g.node.args.posonlyargs + g.node.args.args]
                    bound = {}
                    is_method = g.cls is not None and params and params[0] in ("self", "cls") and isinstance(call.func, ast.Attribute)
                    rest = params[1:] if is_method else params
                    if is_method:
                        bound[params[0]] = call.func.value
                    ok = len(call.args) <= len(rest)
                    if ok:
                        for p_, a_ in zip(rest, call.args):
                            bound[p_] = a_
                        for k in call.keywords:
                            if k.arg in bound or (k.arg not in rest and k.arg not in [x.arg for x in g.node.args.kwonlyargs]):
                                ok = False
                            bound[k.arg] = k.value
                        defaults = dict(zip(params[len(params) - len(g.node.args.defaults):], g.node.args.defaults))
                        for x, dflt in zip(g.node.args.kwonlyargs, g.node.args.kw_defaults):
                            if dflt is not None:
                                defaults[x.arg] = dflt
                        for p_ in rest + [x.arg for x in g.node.args.kwonlyargs]:
                            if p_ not in bound:
                                if p_ in defaults:
                                    bound[p_] = defaults[p_]
                                else:
                                    ok = False
                    if ok:
                        counter[0] += 1
                        pre_ = "_%s_%d__" % (g.node.name.strip("_"), counter[0])
                        mapping = {nm: pre_ + nm for nm in _local_names(g.node)}
                        if is_method and isinstance(bound[params[0]], ast.Name):
                            mapping[params[0]] = bound[params[0]].id
                        new = []
                        stored = {x.id for x in own_nodes(g.node) if isinstance(x, ast.Name) and isinstance(x.ctx, (ast.Store, ast.Del))}
                        for p_, a_ in bound.items():
                            if isinstance(a_, ast.Name) and p_ not in stored:
                                mapping[p_] = a_.id          # a plain variable handed in and never rebound: use it directly
                        for p_, a_ in bound.items():
                            if p_ in mapping and mapping[p_] == getattr(a_, "id", None):
                                continue
                            asg = ast.Assign(targets=[ast.Name(id=mapping.get(p_, pre_ + p_), ctx=ast.Store())], value=copy.deepcopy(a_))
                            ast.copy_location(asg, s)
                            ast.fix_missing_locations(asg)
                            new.append(asg)
                        ren = _Renamer(mapping)
                        body_consumer = rewrite(list(s.body), owner, d)
                        needs_once = bool(own_level(body_consumer, (ast.Continue, ast.Break)))
                        flag = pre_ + "stop"

                        def consumer_for(yield_stmt, tail):
                            tgt = ast.Assign(targets=[copy.deepcopy(s.target)], value=copy.deepcopy(yield_stmt.value.value))
                            ast.copy_location(tgt, yield_stmt)
                            bc = copy.deepcopy(body_consumer)
                            if tail or not needs_once:
                                return [tgt] + bc
                            # one-shot loop: continue -> leave the one-shot loop; break -> remember and leave, then leave the helper's loop
                            class T(ast.NodeTransformer):
                                def visit_For(self, n):
                                    return n
                                visit_While = visit_FunctionDef = visit_AsyncFunctionDef = visit_ClassDef = visit_For

                                def visit_Continue(self, n):
                                    return ast.copy_location(ast.Break(), n)

                                def visit_Break(self, n):
                                    a = ast.copy_location(ast.Assign(targets=[ast.Name(id=flag, ctx=ast.Store())], value=ast.Constant(value=True)), n)
                                    return [a, ast.copy_location(ast.Break(), n)]
                            bc = [T().visit(x) for x in bc]
                            flat = []
                            for x in bc:
                                flat.extend(x if isinstance(x, list) else [x])
                            init = ast.copy_location(ast.Assign(targets=[ast.Name(id=flag, ctx=ast.Store())], value=ast.Constant(value=False)), yield_stmt)
                            once = ast.copy_location(ast.For(target=ast.Name(id=pre_ + "once", ctx=ast.Store()), iter=ast.Tuple(elts=[ast.Constant(value=0)], ctx=ast.Load()),
                                                             body=flat or [ast.Pass()], orelse=[]), yield_stmt)
                            chk = ast.copy_location(ast.If(test=ast.Name(id=flag, ctx=ast.Load()), body=[ast.Break()], orelse=[]), yield_stmt)
                            return [tgt, init, once, chk]

                        gl = ren.visit(copy.deepcopy(gloop))
                        orig_body = gl.body

                        def subst(stmts_):
                            res_ = []
                            for st in stmts_:
                                if isinstance(st, ast.Expr) and isinstance(st.value, ast.Yield):
                                    res_.extend(consumer_for(st, _is_tail(orig_body, st)))
                                    continue
                                if isinstance(st, ast.Return):
                                    res_.append(ast.copy_location(ast.Break(), st))
                                    continue
                                if isinstance(st, (ast.For, ast.While)):
                                    res_.append(st)
                                    continue
                                st2 = copy.copy(st)
                                for fld in ("body", "orelse", "finalbody"):
                                    if hasattr(st2, fld) and isinstance(getattr(st2, fld), list) and not isinstance(st2, (ast.FunctionDef, ast.AsyncFunctionDef, ast.ClassDef)):
                                        setattr(st2, fld, subst(getattr(st2, fld)))
                                if isinstance(st2, ast.Try):
                                    hs = []
                                    for h in st2.handlers:
                                        h2 = copy.copy(h)
                                        h2.body = subst(h.body)
                                        hs.append(h2)
                                    st2.handlers = hs
                                res_.append(st2)
                            return res_
                        gl.body = subst(orig_body)
                        ast.copy_location(gl, s)
                        hb = [ren.visit(copy.deepcopy(x)) for x in pre]
                        for x in new + hb + [gl]:
                            ast.fix_missing_locations(x)
                        out.extend(new + hb + [gl])
                        done = True
            if done:
                continue
            s2 = copy.copy(s)
            for fld in ("body", "orelse", "finalbody"):
                if hasattr(s2, fld) and isinstance(getattr(s2, fld), list) and not isinstance(s2, (ast.FunctionDef, ast.AsyncFunctionDef, ast.ClassDef)):
                    setattr(s2, fld, rewrite(getattr(s2, fld), owner, d))
            if isinstance(s2, ast.Try):
                hs = []
                for h in s2.handlers:
                    h2 = copy.copy(h)
                    h2.body = rewrite(h.body, owner, d)
                    hs.append(h2)
                s2.handlers = hs
            out.append(s2)
        return out

    # `items = helper(args)` ... `for X in items:` with `items` used nowhere else is the same loop
    base = func.node
    assigns = {}
    uses = {}
    for n in own_nodes(base):
        if isinstance(n, ast.Assign) and len(n.targets) == 1 and isinstance(n.targets[0], ast.Name) and isinstance(n.value, ast.Call):
            assigns.setdefault(n.targets[0].id, []).append(n)
        if isinstance(n, ast.Name) and isinstance(n.ctx, ast.Load):
            uses[n.id] = uses.get(n.id, 0) + 1
    direct = {}
    for nm, lst in assigns.items():
        if len(lst) == 1 and uses.get(nm, 0) == 1:
            g0 = resolve(func, lst[0].value)
            if g0 is not None and _generator_plan(g0) is not None:
                loops = [m for m in own_nodes(base) if isinstance(m, ast.For) and isinstance(m.iter, ast.Name) and m.iter.id == nm]
                if len(loops) == 1:
                    direct[nm] = (lst[0], loops[0])
    if direct:
        class D(ast.NodeTransformer):
            def visit_Assign(self, n):
                for nm, (a, l) in direct.items():
                    if n is a:
                        return None
                return n

            def visit_For(self, n):
                self.generic_visit(n)
                for nm, (a, l) in direct.items():
                    if n is l:
                        n2 = copy.copy(n)
                        n2.iter = a.value
                        return n2
                return n
        base = D().visit(copy.deepcopy(func.node)) if False else None
        # (identity-based matching needs the original nodes: rebuild by a manual walk)
        def rebuild(stmts):
            out_ = []
            for st in stmts:
                if any(st is a for a, l in direct.values()):
                    continue
                st2 = copy.copy(st)
                if any(st is l for a, l in direct.values()):
                    st2.iter = [a.value for a, l in direct.values() if l is st][0]
                for fld in ("body", "orelse", "finalbody"):
                    if hasattr(st2, fld) and isinstance(getattr(st2, fld), list) and not isinstance(st2, (ast.FunctionDef, ast.AsyncFunctionDef, ast.ClassDef)):
                        setattr(st2, fld, rebuild(getattr(st2, fld)))
                if isinstance(st2, ast.Try):
                    hs = []
                    for h in st2.handlers:
                        h2 = copy.copy(h)
                        h2.body = rebuild(h.body)
                        hs.append(h2)
                    st2.handlers = hs
                out_.append(st2)
            return out_
        body0 = rebuild(list(func.node.body))
    else:
        body0 = list(func.node.body)
    new_node = copy.copy(func.node)
    new_node.body = rewrite(body0, func, depth)
    if counter[0] == 0:
        return func
    clone = Func(func.qual, new_node, func.module, func.cls, func.parent)
    clone.inlined = counter[0]
    clone.extern = dict(getattr(func, "extern", {}) or {})
    return clone
