"""Propositional reasoning over condition terms, by truth table.

A condition term is read as a boolean combination (and / or / not / if-then-else,
negated comparisons) of *atoms* -- maximal sub-terms that are not themselves
boolean structure.  Two conditions are equivalent iff they agree under every
assignment of truth values to the atoms (at most 2**MAX_ATOMS rows).  This makes
the rules indifferent to guard-clause vs if/else style, De Morgan rewrites,
commuted operands and `x if c else y` vs `c and x or y` spellings.

The only non-propositional identity used is the total order on integers
(`a <= b` is `not (b < a)`), and only on request (`total_order=True`): rules set
it where the compared quantities are integers (levels, indices, counts).
"""
import itertools

from .sym import TRUE, FALSE, NONE, is_num, num_value, show

MAX_ATOMS = 14

_NEG = {"cmp:NotEq": "cmp:Eq", "cmp:IsNot": "cmp:Is", "cmp:NotIn": "cmp:In"}


def _norm(t, total_order):
    """-> nested ('and'|'or'|'not', ...) / ('atom', term) / ('const', bool)"""
    if t == TRUE:
        return ("const", True)
    if t in (FALSE, NONE):
        return ("const", False)
    if is_num(t):
        return ("const", num_value(t) != 0)
    if t[0] == "ite":
        c, a, b = _norm(t[1], total_order), _norm(t[2], total_order), _norm(t[3], total_order)
        return ("or", ("and", c, a), ("and", ("not", c), b))
    if t[0] in ("list", "tuple") and len(t) == 2 and isinstance(t[1], tuple):
        return ("const", len(t[1]) > 0)                      # a sequence display is true iff it has elements
    if t[0] == "op" and t[1] == "filtered":
        # [x for x in <static items> if c(x)] as a condition: non-empty iff some element passes its condition
        alts = tuple(_norm(pr[1][0], total_order) for pr in t[2] if pr[0] == "tuple" and len(pr[1]) == 2)
        if len(alts) == len(t[2]):
            return ("or",) + alts if alts else ("const", False)
    if t[0] == "op":
        if t[1] == "not":
            return ("not", _norm(t[2][0], total_order))
        if t[1] in ("and", "or"):
            return (t[1],) + tuple(_norm(x, total_order) for x in t[2])
        if t[1] in _NEG:
            return ("not", ("atom", ("op", _NEG[t[1]], t[2])))
        if total_order and t[1] == "cmp:LtE":
            a, b = t[2]
            return ("not", ("atom", ("op", "cmp:Lt", (b, a))))
    return ("atom", t)


def _atoms(n, acc):
    if n[0] == "atom":
        if n[1] not in acc:
            acc.append(n[1])
    elif n[0] != "const":
        for x in n[1:]:
            _atoms(x, acc)
    return acc


def _ev(n, env):
    k = n[0]
    if k == "const":
        return n[1]
    if k == "atom":
        return env[n[1]]
    if k == "not":
        return not _ev(n[1], env)
    if k == "and":
        return all(_ev(x, env) for x in n[1:])
    return any(_ev(x, env) for x in n[1:])


def conj(pc):
    """The conjunction of a path condition (loop markers dropped) as one term."""
    lits = [(c if pol else ("op", "not", (c,))) for c, pol in pc if c != "loop"]
    if not lits:
        return TRUE
    return lits[0] if len(lits) == 1 else ("op", "and", tuple(lits))


def table(terms, total_order=True):
    """Yield (assignment dict, [truth of each term]) over all assignments of the atoms of *terms*; None if too many atoms."""
    ns = [_norm(t, total_order) for t in terms]
    atoms = []
    for n in ns:
        _atoms(n, atoms)
    if len(atoms) > MAX_ATOMS:
        return None
    # x == c1 and x == c2 cannot both hold for different constants c1, c2
    excl = []
    eqs = [(i, a) for i, a in enumerate(atoms) if a[0] == "op" and a[1] in ("cmp:Eq", "cmp:Is") and len(a[2]) == 2]
    for (i, a), (j, b) in itertools.combinations(eqs, 2):
        for x1, c1 in ((a[2][0], a[2][1]), (a[2][1], a[2][0])):
            for x2, c2 in ((b[2][0], b[2][1]), (b[2][1], b[2][0])):
                if x1 == x2 and c1 != c2 and (is_num(c1) or c1[0] == "const") and (is_num(c2) or c2[0] == "const"):
                    excl.append((i, j))
    rows = []
    for vals in itertools.product((False, True), repeat=len(atoms)):
        if any(vals[i] and vals[j] for i, j in excl):
            continue
        env = dict(zip(atoms, vals))
        rows.append((env, [_ev(n, env) for n in ns]))
    return rows


def equiv(a, b, total_order=True, given=None):
    """True / False / None (= too many atoms).  *given*: a condition assumed to hold."""
    rows = table([a, b] + ([given] if given is not None else []), total_order)
    if rows is None:
        return None
    for env, vals in rows:
        if given is not None and not vals[2]:
            continue
        if vals[0] != vals[1]:
            return False
    return True


def implies(a, b, total_order=True):
    rows = table([a, b], total_order)
    if rows is None:
        return None
    return all((not va) or vb for _, (va, vb) in rows)


def counterexample(a, b, total_order=True, given=None):
    rows = table([a, b] + ([given] if given is not None else []), total_order) or []
    for env, vals in rows:
        if given is not None and not vals[2]:
            continue
        if vals[0] != vals[1]:
            return ", ".join("%s%s" % ("" if v else "not ", show(k)[:60]) for k, v in env.items())
    return None


def atoms_of_cond(t, total_order=True):
    return _atoms(_norm(t, total_order), [])


def fold_returns(returns):
    """The value a function returns as one term: if-then-else over the path conditions of its return statements
    (in program order; the last one is the default)."""
    from .sym import mk_ite
    if not returns:
        return None
    out = returns[-1][1]
    for pc, v, _n in reversed(returns[:-1]):
        out = mk_ite(conj(pc), v, out)
    return out
