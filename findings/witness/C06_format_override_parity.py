import numpy as np, tempfile, warnings
warnings.simplefilter('ignore')
from astropy.io import fits
from toasty import toast
from toasty.pyramid import PyramidIO, Pos
def sampler(lon, lat): return lat.astype(np.float32)      # value = latitude, so row order is visible
d1 = tempfile.mkdtemp(); d2 = tempfile.mkdtemp()
toast.sample_layer(PyramidIO(d1, default_format='fits'), sampler, 1, parallel=1)                 # fits via pio default
toast.sample_layer(PyramidIO(d2),                       sampler, 1, format='fits', parallel=1)   # fits via override (pio default png)
a = fits.getdata(PyramidIO(d1, default_format='fits').tile_path(Pos(1,0,0), makedirs=False))
b = fits.getdata(PyramidIO(d2, default_format='fits').tile_path(Pos(1,0,0), makedirs=False))
print("same rows:", np.array_equal(a, b), " override is vertically flipped copy:", np.array_equal(a, b[::-1]))
