import numpy as np, tempfile, os, traceback
from toasty import toast, pyramid
from toasty.toast import ToastCoordinateSystem as CS, toast_tile_for_point, create_single_tile, toast_tile_get_coords, _toast_tile_containment_score
from toasty.pyramid import Pos, PyramidIO

# C06 depth 0
print("== C06 depth 0")
d = tempfile.mkdtemp()
try:
    toast.sample_layer(PyramidIO(d, default_format='npy'), lambda lon,lat: np.zeros(lon.shape,dtype=np.float32)+1, 0, format='npy', parallel=1)
    print("ok", os.listdir(d))
except Exception as e:
    traceback.print_exc()

# C12 planetary
print("== C12 planetary")
for cs in (CS.ASTRONOMICAL, CS.PLANETARY):
    bad = 0; tot=0
    rng = np.random.default_rng(1)
    for _ in range(300):
        lat = rng.uniform(-1.4,1.4); lon = rng.uniform(0, 2*np.pi)
        t = toast_tile_for_point(3, lat, lon, coordsys=cs)
        # check containment via pixel centre distance: nearest pixel in this tile vs. all tiles
        ref = create_single_tile(t.pos, coordsys=cs)
        lons, lats = toast_tile_get_coords(ref)
        # angular distance to nearest pixel centre
        dd = np.arccos(np.clip(np.sin(lats)*np.sin(lat)+np.cos(lats)*np.cos(lat)*np.cos(lons-lon),-1,1)).min()
        tot+=1
        if dd > 0.02: bad+=1
    print(cs, "bad", bad, "of", tot)
