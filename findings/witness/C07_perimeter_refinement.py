"""Triage witness (never run by a check) for two findings of rule C07.R9 in
WcsSampler._image_bounds.refine_lon:

 F11  the refinement window of a sample on the "bottom" edge of the perimeter
      walk is centred one coarse sample off the sample itself
      (rel = 3*nm - (1 + e) while the walk puts sample e at index 3*nm - e), so
      the coarse cell on the far side of the extreme sample is never refined;
      repaired by the `fix:` commit recorded in known_findings.json.
 F12  (open) a sample at a corner of the image is refined along one of its two
      edges only; an extremum in the first coarse cell of the *other* edge is
      missed.

Both make the longitude bounds fall short of the image's true extent for
projections whose meridians are curved in the pixel plane (an extremum in the
interior of an edge; impossible for TAN), so the footprint filter rejects tiles
that contain pixel centres of the image.

usage: python C07_perimeter_refinement.py [repo-path]   (exit 1 = a tile holding data is rejected)
"""
import sys
import warnings

import numpy as np

warnings.simplefilter("ignore")
sys.path.insert(0, sys.argv[1] if len(sys.argv) > 1 else "/repo")
from astropy.wcs import WCS  # noqa: E402
from toasty.samplers import WcsSampler  # noqa: E402
from toasty.toast import toast_tile_for_point  # noqa: E402

CASES = {
    "F11 bottom edge, interior extremum": ("SFL", 27614, 7777, -73.14268408493444, 359.76169966042164, 0.002091812836108601, 107.4950498999911),
    "F12 extremum next to a corner": ("SFL", 26406, 5603, -74.96181989746486, 295.3645455402723, 0.0007824079229238148, 292.10669917912213),
}


def make(proj, naxis1, naxis2, dec, ra, scale, rot):
    w = WCS(naxis=2)
    w.wcs.ctype = ["RA---" + proj, "DEC--" + proj]
    w.wcs.crval = [ra, 0.0]
    w.wcs.crpix = [(naxis1 + 1) / 2, (naxis2 + 1) / 2 - dec / scale]
    c, s = np.cos(np.radians(rot)), np.sin(np.radians(rot))
    w.wcs.cd = scale * np.array([[-c, s], [s, c]])
    return w


bad = 0
for name, (proj, naxis1, naxis2, dec, ra, scale, rot) in CASES.items():
    w = make(proj, naxis1, naxis2, dec, ra, scale, rot)
    s = WcsSampler.__new__(WcsSampler)          # only the shape of the data matters for the bounds
    s._image = np.broadcast_to(np.float32(0), (naxis2, naxis1))
    s._wcs = w
    lon_min, lon_max, lat_min, lat_max = s._image_bounds()
    xs = np.arange(1, naxis1 + 1.0)
    row = np.c_[xs, np.full_like(xs, float(naxis2))]            # pixel centres of the last row
    world = w.wcs_pix2world(row, 1)
    lon = np.radians(world[:, 0])
    lat = np.radians(world[:, 1])
    mid = 0.5 * (lon_min + lon_max)
    lon_u = mid + (lon - mid + np.pi) % (2 * np.pi) - np.pi
    over = np.maximum(lon_u - lon_max, lon_min - lon_u)
    k = int(np.argmax(over))
    if over[k] <= 0:
        print("%s: all pixel centres of the last row are inside the longitude bounds" % name)
        continue
    px = over[k] / np.radians(scale) * np.cos(lat[k])
    filt = s.filter()
    for depth in range(1, 20):
        t = toast_tile_for_point(depth, lat[k], lon[k] % (2 * np.pi))
        if not filt(t):
            print("%s: pixel centre (%d, %d) lies %.2f px outside the longitude bounds; tile %s containing it is REJECTED"
                  % (name, xs[k], naxis2, px, (t.pos,)))
            bad += 1
            break
    else:
        print("%s: pixel centre (%d, %d) lies %.2f px outside the bounds, but no tile down to depth 19 is rejected" % (name, xs[k], naxis2, px))
sys.exit(1 if bad else 0)
