import numpy as np, tempfile, os, traceback, warnings, shutil
warnings.simplefilter('ignore')
import toasty
from toasty.tests import mk_test_path as test_path
d = tempfile.mkdtemp()
src = shutil.copy(test_path('wcs512.fits.gz'), d)
out, bld = toasty.tile_fits(src, parallel=1)
print("first:", out, bld.imgset.tile_levels, bld.imgset.url, bld.imgset.file_type, bld.imgset.center_x, bld.imgset.base_degrees_per_tile, bld.imgset.projection)
out, bld = toasty.tile_fits(src, parallel=1)
print("reuse:", out, bld.imgset.tile_levels, bld.imgset.url, bld.imgset.file_type, bld.imgset.center_x, bld.imgset.base_degrees_per_tile, bld.imgset.projection)
print(open(os.path.join(out,'index_rel.wtml')).read()[:1200])
