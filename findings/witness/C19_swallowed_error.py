import sys, signal
from toasty.pyramid import Pyramid, Pos
def cb(pos, tile=None):
    if pos == Pos(2,1,1) or pos == Pos(1,0,0):
        raise RuntimeError("boom")
p = Pyramid.new_generic(2)
try:
    p.visit_leaves(cb, parallel=1); print("serial visit returned normally")
except RuntimeError as e: print("serial visit raised", e)
p = Pyramid.new_generic(2)
try:
    p.visit_leaves(cb, parallel=2); print("PARALLEL visit returned normally")
except RuntimeError as e: print("parallel visit raised", e)
signal.alarm(8)
def h(*a): print("PARALLEL walk still running after 8s -> hang"); sys.exit(0)
signal.signal(signal.SIGALRM, h)
p = Pyramid.new_generic(2)
p.walk(cb, parallel=2); print("parallel walk returned")
