"""F16 witness (C19): multi-image tiling waits forever when every worker has died and few, large items remain queued.

MultiTanProcessor._tile_parallel (and MultiWcsProcessor._tile_parallel) call queue.join_thread() - an unbounded wait for the
feeder thread - *before* they look at the workers' exit status.  With at most about 3 * parallel large items (pickled images
of ~1 MB against a 64 KiB pipe) and a failure that hits every worker, no put ever times out, so check_workers is never
reached, and the feeder blocks on a pipe nobody reads: the parent neither fails nor returns, where the serial run raises at
once.  Reported by an independent sub-agent of round 7; confirmed here.  Never run by a check; by hand from a checkout:
    /venv/bin/python C19_feeder_join_hang.py      (about 25 s)
"""
import multiprocessing as mp, os, shutil, sys, tempfile, warnings
warnings.simplefilter("ignore")


def attempt(tmp, out):
    from toasty import collection, multi_tan
    from toasty.builder import Builder
    from toasty.pyramid import PyramidIO
    from toasty.tests import mk_test_path
    coll = collection.SimpleFitsCollection([mk_test_path("wcs512.fits.gz")] * 3)
    proc = multi_tan.MultiTanProcessor(coll)
    proc.compute_global_pixelization(Builder(PyramidIO(tmp + "/a", default_format="fits")))
    bad = PyramidIO(tmp + "/b")        # no default format -> PNG -> every tile write of float data fails in the workers
    try:
        proc.tile(bad, parallel=2)
        out.put("returned normally")
    except BaseException as e:
        out.put("raised %s: %s" % (type(e).__name__, str(e)[:80]))


if __name__ == "__main__":
    tmp = tempfile.mkdtemp()
    out = mp.Queue()
    p = mp.Process(target=attempt, args=(tmp, out))
    p.start()
    p.join(25)
    if p.is_alive():
        print("FAIL: MultiTanProcessor.tile(parallel=2) is still waiting after 25 s although both workers died at once")
        os.system("pkill -KILL -P %d >/dev/null 2>&1" % p.pid)
        p.kill()
        rc = 1
    else:
        msg = out.get(timeout=5)
        print(("PASS: " if msg.startswith("raised") else "FAIL: ") + msg)
        rc = 0 if msg.startswith("raised") else 1
    shutil.rmtree(tmp, ignore_errors=True)
    sys.exit(rc)
