"""F14 witness (C11): plate_carree_galactic_sampler could not return any pixel.

At the pinned commit vec2pix() called ICRS(..).transform_to(Galactic) with the
frame *class*; astropy (8.0.1 here) refuses that with ConvertError, so every call
of the sampler raised.  Repaired in /repo 884461f (Galactic()).  Never run by a
check; run by hand from a checkout:  /venv/bin/python C11_galactic_frame.py
"""
import numpy as np
from astropy.coordinates import ICRS, Galactic
from astropy import units as u
from toasty.samplers import plate_carree_galactic_sampler

ny, nx = 180, 360
data = np.arange(ny * nx, dtype=np.float64).reshape(ny, nx)
s = plate_carree_galactic_sampler(data)
lon = np.array([0.3, 2.0, 4.5]); lat = np.array([-0.4, 0.1, 1.2])
try:
    got = s(lon, lat)
except Exception as e:  # pinned tree: ConvertError
    print("FAIL: sampler raised %s: %s" % (type(e).__name__, e))
    raise SystemExit(1)
g = ICRS(lon * u.rad, lat * u.rad).transform_to(Galactic())
l = (g.l.rad + np.pi) % (2 * np.pi) - np.pi
ix = np.clip(np.round((np.pi - 0.5 * 2 * np.pi / nx - l) * nx / (2 * np.pi)).astype(int), 0, nx - 1)
iy = np.clip(np.round((np.pi / 2 - 0.5 * np.pi / ny - g.b.rad) * ny / np.pi).astype(int), 0, ny - 1)
ok = np.array_equal(got, data[iy, ix])
print("PASS" if ok else "FAIL: wrong pixels %r vs %r" % (got, data[iy, ix]))
raise SystemExit(0 if ok else 1)
