import multiprocessing as mp, time, os, tempfile
from toasty.pyramid import Pyramid
real_Event = mp.Event
class SlowEvent:
    """Real mp.Event; only stretches the gap between 'get timed out' and 'flag read' (a legal preemption)."""
    def __init__(self): self._e = real_Event()
    def set(self): self._e.set()
    def is_set(self):
        time.sleep(3.0)          # worker preempted here
        return self._e.is_set()
mp.Event = SlowEvent
d = tempfile.mkdtemp()
def cb(pos, tile):
    open(os.path.join(d, f"{pos.n}_{pos.x}_{pos.y}"), "w").close()
calls = [0]
def filt(tile):
    calls[0] += 1
    if calls[0] == 5:
        time.sleep(1.6)          # producer is slow before its first (and last) burst of items
    return True
p = Pyramid.new_toast_filtered(1, filt)
t0=time.time()
p.visit_leaves(cb, parallel=2)
print("visit_leaves returned normally after %.1fs; leaves processed: %d of 4" % (time.time()-t0, len(os.listdir(d))))
