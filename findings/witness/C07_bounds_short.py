import numpy as np, warnings
warnings.simplefilter('ignore')
from astropy.wcs import WCS
from toasty.samplers import WcsSampler
def mk(nx, ny, scale, ra=40., dec=30., rot=0.):
    w = WCS(naxis=2); w.wcs.ctype=['RA---TAN','DEC--TAN']; w.wcs.crval=[ra,dec]; w.wcs.crpix=[(nx+1)/2,(ny+1)/2]
    c,s=np.cos(np.radians(rot)),np.sin(np.radians(rot))
    w.wcs.cd=np.array([[-scale*c, scale*s],[scale*s, scale*c]])
    return w
for nx,ny in [(10,10),(3,50),(31,31),(64,64),(200,7)]:
    w = mk(nx,ny,0.1, rot=0)
    s = WcsSampler(np.zeros((ny,nx),dtype=np.float32), w)
    lon0,lon1,lat0,lat1 = s._image_bounds()
    # true bounds from dense sampling of pixel edges
    xs = np.linspace(0.5, nx+0.5, 20*nx+1); ys=np.linspace(0.5, ny+0.5, 20*ny+1)
    X,Y=np.meshgrid(xs,ys)
    wl = w.wcs_pix2world(np.stack([X.ravel(),Y.ravel()],1),1)
    print(nx,ny,"lat short by (pix):", (np.radians(wl[:,1].max())-lat1)/np.radians(0.1), (lat0-np.radians(wl[:,1].min()))/np.radians(0.1),
          "lon short (pix):", (np.radians(wl[:,0].max())-lon1)/np.radians(0.1)*np.cos(np.radians(30)), (lon0-np.radians(wl[:,0].min()))/np.radians(0.1)*np.cos(np.radians(30)))
