import numpy as np, tempfile, os, traceback, warnings
warnings.simplefilter('ignore')
from astropy.io import fits
from astropy.wcs import WCS
from toasty import collection

d = tempfile.mkdtemp()
def mk(path, n):
    hdus=[fits.PrimaryHDU()]
    for k in range(n):
        w = WCS(naxis=2); w.wcs.ctype=['RA---TAN','DEC--TAN']; w.wcs.crval=[10,20]; w.wcs.crpix=[5,5]; w.wcs.cdelt=[-0.01,0.01]
        hdus.append(fits.ImageHDU(np.full((8+k,10+k),float(k),dtype=np.float32), header=w.to_header()))
    fits.HDUList(hdus).writeto(path)
mk(d+'/a.fits',3); mk(d+'/b.fits',3)
print("== C20 list hdu_index")
try:
    c = collection.load([d+'/a.fits', d+'/b.fits'], hdu_index=[1,2])
    print([x.shape for x in c.descriptions()])
except Exception as e:
    traceback.print_exc()
print("== scalar")
c = collection.load([d+'/a.fits', d+'/b.fits'], hdu_index=2)
print([x.shape for x in c.descriptions()])
print("== none")
c = collection.load([d+'/a.fits', d+'/b.fits'])
print([x.shape for x in c.descriptions()], c.export_simple())
