"""F15 witness (C14): an infinite pixel suppresses a leaf's DATAMIN / DATAMAX.

Image.save (FITS) computes the range with np.nanmin / np.nanmax, which skip NaN but not +-inf, and writes the card only if the
result is finite: a leaf holding one -inf gets no DATAMIN at all, so its *finite* minimum is lost for every ancestor and for
the WTML.  Reported by an independent sub-agent of round 7, confirmed here.  Never run by a check; by hand from a checkout:
    /venv/bin/python C14_inf_range.py
"""
import os, shutil, sys, tempfile, warnings
import numpy as np
from astropy.io import fits
warnings.simplefilter("ignore")
from toasty.image import Image
from toasty.pyramid import PyramidIO, Pos
from toasty.merge import averaging_merger, cascade_images

d = tempfile.mkdtemp()
try:
    pio = PyramidIO(d, default_format="fits")
    a = np.full((256, 256), 5.0); a[0, 0] = -np.inf; a[1, 1] = -3.0; a[2, 2] = 50.0
    b = np.full((256, 256), 7.0); b[3, 3] = 9.0
    pio.write_image(Pos(1, 0, 0), Image.from_array(a))
    pio.write_image(Pos(1, 1, 0), Image.from_array(b))
    cascade_images(pio, 1, averaging_merger, parallel=1, cli_progress=False)
    leaf = fits.getheader(pio.tile_path(Pos(1, 0, 0)))
    root = fits.getheader(pio.tile_path(Pos(0, 0, 0)))
    got = (leaf.get("DATAMIN"), root.get("DATAMIN"), root.get("DATAMAX"))
    print("leaf DATAMIN %r, root DATAMIN %r, root DATAMAX %r (finite minimum over the leaves: -3.0, maximum: 50.0)" % got)
    ok = got[0] == -3.0 and got[1] == -3.0 and got[2] == 50.0
    print("PASS" if ok else "FAIL: the finite minimum of the leaf holding -inf is lost")
    sys.exit(0 if ok else 1)
finally:
    shutil.rmtree(d, ignore_errors=True)
