"""Triage witness (never run by a check) for F13: WcsSampler._image_bounds computed the footprint box with the core WCS
(wcs_pix2world) while the sampler inverts the full transform (world_to_array_index -> all_world2pix): for an image with SIP
distortion the filter rejects tiles the sampler fills.  usage: python C07_sip_bounds.py [repo-path]  (exit 1 = tile rejected)"""
import numpy as np, sys, warnings
warnings.simplefilter("ignore")
sys.path.insert(0, sys.argv[1] if len(sys.argv) > 1 else "/repo")
from astropy.wcs import WCS, Sip
from toasty.samplers import WcsSampler
from toasty.toast import toast_tile_for_point

n1, n2 = 2000, 1500
w = WCS(naxis=2)
w.wcs.ctype = ["RA---TAN-SIP", "DEC--TAN-SIP"]
w.wcs.crval = [150.0, 20.0]
w.wcs.crpix = [(n1 + 1) / 2, (n2 + 1) / 2]
scale = 0.001
w.wcs.cd = scale * np.array([[-1, 0], [0, 1.0]])
a = np.zeros((3, 3)); b = np.zeros((3, 3))
a[2, 0] = 2e-5; a[0, 2] = 1e-5; b[0, 2] = 2e-5; b[2, 0] = -1e-5   # ~ 20 px at 1000 px from the centre
w.sip = Sip(a, b, None, None, w.wcs.crpix)
w.wcs.set()
data = np.ones((n2, n1), np.float32)
s = WcsSampler(data, w)
lon_min, lon_max, lat_min, lat_max = s._image_bounds()
# pixel centres along the four outer rows/columns, full (distorted) transform = what the sampler inverts
xs = np.arange(1, n1 + 1.0); ys = np.arange(1, n2 + 1.0)
edge = np.concatenate([np.c_[xs, np.full_like(xs, 1.0)], np.c_[xs, np.full_like(xs, float(n2))], np.c_[np.full_like(ys, 1.0), ys], np.c_[np.full_like(ys, float(n1)), ys]])
world = w.all_pix2world(edge, 1)
lon = np.radians(world[:, 0]); lat = np.radians(world[:, 1])
mid = 0.5 * (lon_min + lon_max)
lon_u = mid + (lon - mid + np.pi) % (2 * np.pi) - np.pi
out = np.maximum.reduce([lon_u - lon_max, lon_min - lon_u, lat - lat_max, lat_min - lat])
k = int(np.argmax(out))
print("worst pixel centre", edge[k], "outside the bounds by %.2f px" % (out[k] / np.radians(scale)))
if out[k] > 0:
    # does the sampler return data there?
    samp = s.sampler()
    v = samp(np.array([lon[k]]), np.array([lat[k]]))
    print("sampler value at that point:", v)
    filt = s.filter()
    for depth in range(1, 22):
        t = toast_tile_for_point(depth, lat[k], lon[k] % (2 * np.pi))
        if not filt(t):
            print("REJECTED tile", t.pos, "which contains that pixel centre"); sys.exit(1)
print("ok")
