"""Witness for F9 (C12): before the fix (commit 28acb99..b7d725d), toast_pixel_for_point returned pixel
positions off by thousands of pixels for longitudes above ~3*pi/2 and for lon + 2*pi."""
import numpy as np
from toasty.toast import toast_pixel_for_point, toast_tile_get_coords
bad = 0
for lon in np.linspace(0.05, 2 * np.pi - 0.05, 60):
    for lat in (-1.2, -0.5, 0.3, 1.0):
        t, x, y = toast_pixel_for_point(4, lat, lon)
        lons, lats = toast_tile_get_coords(t)
        d = np.arccos(np.clip(np.sin(lats) * np.sin(lat) + np.cos(lats) * np.cos(lat) * np.cos(lons - lon), -1, 1))
        iy, ix = np.unravel_index(np.argmin(d), (256, 256))
        if max(abs(x - ix), abs(y - iy)) > 2:
            bad += 1
print("points with pixel error > 2:", bad, "of 240")
