"""Witness for finding F10 (C16 / C15 representation consistency), never run by a check.

Image.flip_parity() on an image that was constructed from a PIL image reverses the rows of the cached array but keeps
the PIL object: asarray() shows the flipped rows, while aspil(), save(format='png') and make_thumbnail_bitmap() keep
showing the unflipped ones -- next to a WCS that *was* flipped.

run:  cd /repo && /venv/bin/python /verif/findings/witness/C16_flip_parity_pil.py
prints the rows seen through each view; on the defective tree the png / aspil rows differ from asarray()'s.
"""
import io
import sys

import numpy as np
from PIL import Image as PI
from astropy.wcs import WCS

from toasty.image import Image

arr = np.zeros((4, 3, 3), dtype=np.uint8)
arr[0] = 200      # top row bright
w = WCS(naxis=2)
w.wcs.ctype = ["RA---TAN", "DEC--TAN"]
w.wcs.cdelt = [-0.01, 0.01]
w.wcs.crpix = [1, 1]
w.wcs.crval = [10, 10]
img = Image.from_pil(PI.fromarray(arr), wcs=w)
assert img.get_parity_sign() == 1
img.flip_parity()
a = img.asarray()
p = np.asarray(img.aspil())
buf = io.BytesIO()
img.save(buf, format="png")
buf.seek(0)
s = np.asarray(PI.open(buf))
print("asarray  rows 0/3:", a[0, 0], a[3, 0])
print("aspil    rows 0/3:", p[0, 0], p[3, 0])
print("save png rows 0/3:", s[0, 0], s[3, 0])
ok = (a == p).all() and (a == s).all()
print("CONSISTENT" if ok else "INCONSISTENT: the PIL view was not flipped")
sys.exit(0 if ok else 1)
