"""Checker self-test: apply source variants *in memory* (Project overrides, no
scratch copy on disk is needed) and require that breaking variants are reported
as VIOLATED by the expected rule and that behaviour-preserving variants stay
silent.  A miss is an ANALYSIS-ERROR of the checker (exit 2), never a VIOLATION.

A variant whose `old` text no longer occurs exactly once in the current source
(because /repo changed) is *skipped*, not failed: the corpus describes the
pinned tree.
"""
import importlib
import os
import sys
import traceback
from concurrent.futures import ProcessPoolExecutor

HERE = os.path.dirname(os.path.dirname(os.path.abspath(__file__)))
if HERE not in sys.path:
    sys.path.insert(0, HERE)

from sa.model import Project, AnalysisError  # noqa: E402
from sa import report  # noqa: E402


def _apply(repo, v):
    """Return overrides dict or None if the variant does not apply."""
    if "overrides" in v:
        return v["overrides"]
    overrides = {}
    edits = v.get("edits") or [(v["file"], v["old"], v["new"])]
    for rel, old, new in edits:
        path = os.path.join(repo, rel)
        if not os.path.exists(path):
            return None
        src = overrides.get(rel)
        if src is None:
            with open(path, encoding="utf8") as f:
                src = f.read()
        if src.count(old) != 1:
            return None
        overrides[rel] = src.replace(old, new)
    return overrides


def run_variant(args):
    repo, v = args
    try:
        ov = _apply(repo, v)
        if ov is None:
            return v["id"], "skipped", "source text of the variant not found exactly once"
        project = Project(repo, overrides=ov)
        mod = importlib.import_module("rules." + v["prop"])
        run = report.Run(v["prop"], project, "quick")
        mod.run(run)
        # vacuity floors count as in the real check
        for rule_, n_ in sorted(run.floors.items()):
            if run.count(rule_) < n_:
                run.undecided(rule_, msg="vacuity guard: %d obligation(s) generated, floor is %d" % (run.count(rule_), n_), kind="floor", construct="<floor>")
        und = [o for o in run.obs if o.verdict == report.UNDECIDED]
        viol = [o for o in run.obs if o.verdict == report.VIOLATED]
        known = report.load_known(os.path.join(HERE, "known_findings.json"))
        open_keys = {k["key"] for k in known.get("open", [])}
        viol = [o for o in viol if o.key not in open_keys]
        exp = v["expect"]
        if exp == "NOT-VIOLATED":
            # a behaviour-preserving rewrite the check is known not to follow (recorded in refactors/EXPECTED_UNDECIDED.json): it may
            # refuse to certify the tree (UNDECIDED) -- or decide it, should the rules have improved -- but never report a violation
            if viol:
                return v["id"], "fail", "behaviour-preserving variant was reported: %s %s" % (viol[0].verdict, viol[0].text()[:200])
            return v["id"], "ok", ""
        if exp == "HOLDS":
            if viol or und:
                o = (viol + und)[0]
                return v["id"], "fail", "behaviour-preserving variant was reported: %s %s" % (o.verdict, o.text()[:200])
            return v["id"], "ok", ""
        if exp == "MISSED":
            # a confirmed breaking change the rules are known not to see (documented in DESIGN.md): the run must complete; if it
            # is reported after all, the expectation file is out of date
            if viol:
                return v["id"], "fail", "documented miss is now reported (%s): update seeded/EXPECTED.json" % viol[0].rule
            return v["id"], "ok", ""
        if exp == "UNDECIDED":
            if und and not viol:
                return v["id"], "ok", ""
            return v["id"], "fail", "expected UNDECIDED, got %d violations / %d undecided" % (len(viol), len(und))
        rule = exp
        hit = [o for o in viol if o.rule.startswith(rule)]
        if hit:
            return v["id"], "ok", hit[0].text()[:160]
        return v["id"], "fail", "breaking variant not reported by %s (violations: %s; undecided: %s)" % (
            rule, [o.rule for o in viol][:4], [o.rule for o in und][:4])
    except AnalysisError as e:
        if v["expect"] in ("UNDECIDED", "NOT-VIOLATED", "MISSED"):
            return v["id"], "ok", ""
        return v["id"], "fail", "analysis error: %s" % e
    except Exception:
        return v["id"], "fail", "crash: " + traceback.format_exc().splitlines()[-1]


def _seeded_variants(prop, repo):
    """Seeded sub-agent changes of this property as in-memory variants: the patch is applied to a scratch
    copy of the touched files (under a temporary directory outside /repo and /verif, removed at once) and
    the patched texts become Project overrides.  A patch that no longer applies is skipped."""
    import json, shutil, subprocess, tempfile
    sdir = os.path.join(HERE, "seeded")
    try:
        expected = json.load(open(os.path.join(sdir, "EXPECTED.json")))
    except Exception:
        return []
    out = []
    for sid, exp in sorted(expected.items()):
        d = os.path.join(sdir, sid)
        try:
            meta = json.load(open(os.path.join(d, "meta.json")))
        except Exception:
            continue
        if meta.get("property") != prop:
            continue
        patch = os.path.join(d, "patch.diff")
        files = sorted({l[6:].strip() for l in open(patch) if l.startswith("+++ b/")})
        tmp = tempfile.mkdtemp(prefix="verif_seed_")
        try:
            ok = True
            for rel in files:
                src = os.path.join(repo, rel)
                if not os.path.exists(src):
                    ok = False
                    break
                os.makedirs(os.path.dirname(os.path.join(tmp, rel)), exist_ok=True)
                shutil.copy(src, os.path.join(tmp, rel))
            if ok:
                r = subprocess.run(["patch", "-p1", "-s", "-f", "-d", tmp, "-i", patch], capture_output=True, text=True)
                ok = r.returncode == 0
            if not ok:
                out.append(dict(prop=prop, id="seeded/" + sid, overrides=None, expect=exp))
                continue
            ov = {rel: open(os.path.join(tmp, rel), encoding="utf8").read() for rel in files}
            out.append(dict(prop=prop, id="seeded/" + sid, overrides=ov, expect=(exp if exp in ("UNDECIDED", "MISSED") else prop + ".R")))
        finally:
            shutil.rmtree(tmp, ignore_errors=True)
    return out


def _patched_overrides(repo, patch):
    """{relative path: patched text} for a unified diff applied to a scratch copy of the touched files (outside /repo and /verif)."""
    import shutil, subprocess, tempfile
    files = sorted({l[6:].strip() for l in open(patch) if l.startswith("+++ b/")})
    tmp = tempfile.mkdtemp(prefix="verif_ref_")
    try:
        for rel in files:
            src = os.path.join(repo, rel)
            if not os.path.exists(src):
                return None
            os.makedirs(os.path.dirname(os.path.join(tmp, rel)), exist_ok=True)
            shutil.copy(src, os.path.join(tmp, rel))
        r = subprocess.run(["patch", "-p1", "-s", "-f", "-d", tmp, "-i", patch], capture_output=True, text=True)
        if r.returncode != 0:
            return None
        return {rel: open(os.path.join(tmp, rel), encoding="utf8").read() for rel in files}
    finally:
        shutil.rmtree(tmp, ignore_errors=True)


def _refactor_variants(prop, repo):
    """The behaviour-preserving corpus (sub-agent refactors confirmed by their demonstrations and the test suite): every one of
    them must leave every property's check silent -- also the checks of the other properties."""
    import json
    rdir = os.path.join(HERE, "refactors")
    out = []
    if not os.path.isdir(rdir):
        return out
    try:
        undecided = json.load(open(os.path.join(rdir, "EXPECTED_UNDECIDED.json")))
    except Exception:
        undecided = {}
    for rid in sorted(os.listdir(rdir)):
        patch = os.path.join(rdir, rid, "patch.diff")
        if not os.path.exists(patch):
            continue
        ov = _patched_overrides(repo, patch)
        out.append(dict(prop=prop, id="refactor/" + rid, overrides=ov, expect="NOT-VIOLATED" if prop in undecided.get(rid, {}) else "HOLDS"))
    return out


def _mass_variants(prop, repo):
    """Mechanical, behaviour-preserving rewrites of the *whole* package (tools/mass_rewrite.py): every `if/else` inverted,
    every comparison flipped, trailing `if` blocks turned into guard clauses (and the reverse), every local variable renamed,
    positional arguments of same-module calls turned into keywords, De Morgan in tests, comprehensions as loops, conditional
    expressions as statements, chained comparisons split, commutative operands swapped, call arguments hoisted into
    temporaries -- one at a time and in three combinations.  No check may depend on such spellings."""
    out = []
    try:
        sys.path.insert(0, os.path.join(HERE, "tools"))
        import mass_rewrite
    except Exception:
        return out
    for names in [(t,) for t in mass_rewrite.TRANSFORMS] + list(getattr(mass_rewrite, "COMBOS", ())):
        try:
            ov = mass_rewrite.rewrite_tree(repo, list(names))
        except Exception:
            ov = None
        out.append(dict(prop=prop, id="mass/" + "+".join(names), overrides=ov, expect="HOLDS"))
    return out


def run_for_property(prop, repo="/repo", seed=0, jobs=None):
    from selftest.variants import VARIANTS
    vs = [v for v in VARIANTS if v["prop"] == prop] + _seeded_variants(prop, repo) + _refactor_variants(prop, repo) + _mass_variants(prop, repo)
    if seed:
        import random
        random.Random(seed).shuffle(vs)
    res = {"variants": len(vs), "ok": 0, "failed": 0, "skipped": 0, "messages": [], "caught": []}
    if not vs:
        return res
    jobs = jobs or min(16, len(vs))
    with ProcessPoolExecutor(jobs) as ex:
        for vid, status, msg in ex.map(run_variant, [(repo, v) for v in vs]):
            if status == "ok":
                res["ok"] += 1
                if msg:
                    res["caught"].append("%s: %s" % (vid, msg))
            elif status == "skipped":
                res["skipped"] += 1
            else:
                res["failed"] += 1
                res["messages"].append("%s: %s" % (vid, msg))
    res["caught"] = res["caught"][:12]
    return res


if __name__ == "__main__":
    import argparse
    ap = argparse.ArgumentParser()
    ap.add_argument("--property")
    ap.add_argument("--repo", default="/repo")
    a = ap.parse_args()
    from selftest.variants import VARIANTS
    props = [a.property] if a.property else sorted({v["prop"] for v in VARIANTS})
    bad = 0
    for p in props:
        r = run_for_property(p, a.repo)
        print(p, {k: v for k, v in r.items() if k not in ("messages", "caught")})
        for m in r["messages"]:
            print("   FAIL", m)
        bad += r["failed"]
    sys.exit(1 if bad else 0)
