"""Variant corpus of the checker self-test.

Each variant is a text substitution on the current /repo sources (applied in
memory).  expect = "<rule prefix>"  : the variant breaks the property; the
named rule must report VIOLATED.  expect = "HOLDS": behaviour-preserving
rewrite; the property's check must stay silent.  expect = "UNDECIDED": the
rewrite uses an idiom the rules deliberately refuse to judge.
"""

VARIANTS = []


def V(prop, vid, file, old, new, expect, note=""):
    VARIANTS.append(dict(prop=prop, id="%s/%s" % (prop, vid), file=file, old=old, new=new, expect=expect, note=note))


def V2(prop, vid, edits, expect, note=""):
    VARIANTS.append(dict(prop=prop, id="%s/%s" % (prop, vid), edits=edits, expect=expect, note=note))


PYR = "toasty/pyramid.py"
TOAST = "toasty/toast.py"
MERGE = "toasty/merge.py"
IMG = "toasty/image.py"
TRANS = "toasty/transform.py"
MTAN = "toasty/multi_tan.py"
MWCS = "toasty/multi_wcs.py"
PAR = "toasty/par_util.py"
STUDY = "toasty/study.py"
SAMP = "toasty/samplers.py"
COLL = "toasty/collection.py"
FTIL = "toasty/fits_tiler.py"
BLD = "toasty/builder.py"
PIPE = "toasty/pipeline/__init__.py"
PCLI = "toasty/pipeline/cli.py"
LIO = "toasty/pipeline/local_io.py"

# ---------------------------------------------------------------- C01
V("C01", "mask-0x7", PYR, "if flags == 0xF:", "if flags == 0x7:", "C01.R2")
V("C01", "mask-ge7", PYR, "if flags == 0xF:", "if flags >= 0x7:", "C01.R2")
V("C01", "bit-swapped", PYR, "bit_num = 2 * y_index + x_index", "bit_num = 2 * x_index + y_index", "C01.R1")
V("C01", "stop-on-root", PYR, "if pos == self._apex:\n                    break", "if pos == Pos(0, 0, 0):\n                    break", "C01.R4")
V("C01", "done-before-callback", PYR, "        callback(pos)\n        done_queue.put(pos)\n", "        done_queue.put(pos)\n        callback(pos)\n", "C01.R5")
V("C01", "parent-first", PYR, "    for immed_child in pos_children(pos):\n        for item in _postfix_pos(immed_child, depth):\n            yield item\n\n    yield pos\n",
  "    yield pos\n\n    for immed_child in pos_children(pos):\n        for item in _postfix_pos(immed_child, depth):\n            yield item\n", "C01.R6")
V("C01", "seed-wrong-level", PYR, "if pos.n == self.depth - 1 and is_live:", "if pos.n == self.depth and is_live:", "C01.R3")
V("C01", "no-pre-ready", PYR, "                    if not data[i][0]:\n                        pre_readied |= 1 << i", "                    if data[i][0]:\n                        pre_readied |= 1 << i", "C01.R3")
V("C01", "slot-swapped", PYR, "self._levels[ppos.n][2 + 2 * iy + ix] = value", "self._levels[ppos.n][2 + 2 * ix + iy] = value", "C01.R1")
V("C01", "parent-swapped", PYR, "return parent, pos.x % 2, pos.y % 2", "return parent, pos.y % 2, pos.x % 2", "C01.R1")
V("C01", "serial-unconditional", PYR, "                    if is_live:\n                        callback(pos)\n                        progress.update(1)\n\n                riter.set_data(is_live)",
  "                    callback(pos)\n                    progress.update(1)\n\n                riter.set_data(is_live)", "C01.R6")
V("C01", "filter-or", PYR, "self._tile_filter = lambda t: pos_filter(t.pos) and user_filter(t)", "self._tile_filter = lambda t: pos_filter(t.pos) or user_filter(t)", "C01.R8")
V("C01", "P-mask-15", PYR, "if flags == 0xF:", "if flags == 15:", "HOLDS")
V("C01", "P-mask-shift", PYR, "if flags == 0xF:", "if flags == (1 << 4) - 1:", "HOLDS")
V("C01", "P-renamed-bit", PYR, "                bit_num = 2 * y_index + x_index\n                flags = readiness.get(ppos, 0)\n                flags |= 1 << bit_num",
  "                child_bit = x_index + y_index * 2\n                flags = readiness.get(ppos, 0) | (1 << child_bit)", "HOLDS")
V("C01", "P-timeout", PYR, "pos = ready_queue.get(True, timeout=1)", "pos = ready_queue.get(True, timeout=0.25)", "HOLDS")

# ---------------------------------------------------------------- C02
V("C02", "swap-table-entries", MERGE, "SLICES_MATCHING_PARITY = [\n    (slice(None, 256), slice(None, 256)),\n    (slice(None, 256), slice(256, None)),\n    (slice(256, None), slice(None, 256)),",
  "SLICES_MATCHING_PARITY = [\n    (slice(None, 256), slice(None, 256)),\n    (slice(256, None), slice(None, 256)),\n    (slice(None, 256), slice(256, None)),", "C02.R1")
V("C02", "parity-test-inverted", MERGE, "if pio.get_default_vertical_parity_sign() == 1:\n            self._slices = SLICES_OPPOSITE_PARITY", "if pio.get_default_vertical_parity_sign() == -1:\n            self._slices = SLICES_OPPOSITE_PARITY", "C02.R2")
V("C02", "drop-clear", MERGE, "        if self._buf is not None:\n            self._buf.clear()\n\n        for slidx", "        for slidx", "C02.R4")
V("C02", "np-mean", MERGE, "return np.nanmean(data.reshape(s), axis=(1, 3)).astype(data.dtype)", "return np.mean(data.reshape(s), axis=(1, 3)).astype(data.dtype)", "C02.R6")
V("C02", "axes-0-2", MERGE, "return np.nanmean(data.reshape(s), axis=(1, 3)).astype(data.dtype)", "return np.nanmean(data.reshape(s), axis=(0, 2)).astype(data.dtype)", "C02.R6")
V("C02", "write-child-pos", MERGE, "self._pio.write_image(pos, merged, min_value=min_value, max_value=max_value)", "self._pio.write_image(children[0], merged, min_value=min_value, max_value=max_value)", "C02.R5")
V("C02", "img-order", MERGE, "for slidx, subimg in zip(self._slices, (img0, img1, img2, img3)):", "for slidx, subimg in zip(self._slices, (img0, img2, img1, img3)):", "C02.R3")
V("C02", "fits-not-bottom-up", IMG, '    if format == "fits":\n        return +1\n    return -1', '    if format == "fits":\n        return -1\n    return -1', "C02.R2")
V("C02", "P-slice-spelling", MERGE, "SLICES_MATCHING_PARITY = [\n    (slice(None, 256), slice(None, 256)),", "SLICES_MATCHING_PARITY = [\n    (slice(0, 256), slice(0, 256, 1)),", "HOLDS")
V("C02", "P-clear-always", MERGE, "        if self._buf is not None:\n            self._buf.clear()\n\n        for slidx", "        if not (self._buf is None):\n            self._buf.clear()\n\n        for slidx", "HOLDS")

# ---------------------------------------------------------------- C03
V("C03", "set-before-close", MTAN, "        queue.close()\n        queue.join_thread()\n        done_event.set()", "        done_event.set()\n        queue.close()\n        queue.join_thread()", "C03.R1")
V("C03", "drop-join-thread", TRANS, "    queue.close()\n    queue.join_thread()\n", "    queue.close()\n", "C03.R1")
V("C03", "break-on-empty", TRANS, "        except Empty:\n            if done:\n                break\n            continue", "        except Empty:\n            break", "C03.R4")
V("C03", "no-join", MWCS, "        done_event.set()\n        join_workers(workers)", "        done_event.set()", "C03.R6")
V("C03", "revert-flag-after-get", PYR, "            args = ready_queue.get(True, timeout=1)\n        except Empty:\n            if done:\n                break", "            args = ready_queue.get(True, timeout=1)\n        except Empty:\n            if done_event.is_set():\n                break", "C03.R5")
V("C03", "other-source", TRANS, "        for pos in generate_pos(depth):\n            put_to_workers(queue, pos, workers, done_event)", "        for pos in generate_pos(depth - 1):\n            put_to_workers(queue, pos, workers, done_event)", "C03.R2")
V("C03", "skip-nonleaf-guard", PYR, "                if is_leaf:\n                    put_to_workers(ready_queue, (pos, tile), workers, done_event)\n                    progress.update(1)",
  "                if is_leaf and tile is not None:\n                    put_to_workers(ready_queue, (pos, tile), workers, done_event)\n                    progress.update(1)", "C03.R2")
V("C03", "get-no-timeout", MTAN, "image, desc = queue.get(True, timeout=1)", "image, desc = queue.get(True)", "C03.R4")
V("C03", "helper-no-retry", PAR, "    while True:\n        try:\n            queue.put(item, True, timeout=1)\n            return\n        except Full:\n            check_workers(workers, done_event)",
  "    try:\n        queue.put(item, True, timeout=1)\n    except Full:\n        check_workers(workers, done_event)", "C03.R2")
V("C03", "P-timeout", MWCS, "queue.get(True, timeout=10)", "queue.get(True, timeout=3)", "HOLDS")
V("C03", "P-direct-put", TRANS, "put_to_workers(queue, pos, workers, done_event)", "queue.put(pos)", "HOLDS", note="C03 does not care about liveness escapes (C19 does)")

# ---------------------------------------------------------------- C04 / C05
V("C04", "children-exchanged", TOAST, "        Tile(Pos(n=n, x=x + 1, y=y), (to, ur, ri, ce), increasing),\n        Tile(Pos(n=n, x=x, y=y + 1), (le, ce, bo, ll), increasing),",
  "        Tile(Pos(n=n, x=x, y=y + 1), (le, ce, bo, ll), increasing),\n        Tile(Pos(n=n, x=x + 1, y=y), (to, ur, ri, ce), increasing),", "C04.R3")
V("C04", "partial-planetary", TOAST, "lonlats[..., 0] = (lonlats[..., 0] + np.pi) % TWOPI", "lonlats[:2, :, 0] = (lonlats[:2, :, 0] + np.pi) % TWOPI", "C04.R2")
V("C04", "child-index-swapped", TOAST, "tile = children[iy * 2 + ix]", "tile = children[ix * 2 + iy]", "C04.R5")
V("C04", "not-increasing", TOAST, "Tile(Pos(n=n, x=x + 1, y=y + 1), (ce, ri, lr, bo), increasing),", "Tile(Pos(n=n, x=x + 1, y=y + 1), (ce, ri, lr, bo), not increasing),", "C04.R3")
V("C04", "wrong-diagonal", TOAST, "ce = mid(ll, ur) if increasing else mid(ul, lr)", "ce = mid(ul, lr) if increasing else mid(ll, ur)", "C04.R3")
V("C04", "level1-lon", TOAST, "[(90, 0), (0, -90), (0, 0), (0, 90)],", "[(90, 0), (0, -90), (180, 0), (0, 90)],", "C04.R1")
V("C04", "single-tile-astronomical", TOAST, "    children = _create_level1_tiles(coordsys)\n    cur_n = 0", "    children = _create_level1_tiles(ToastCoordinateSystem.ASTRONOMICAL)\n    cur_n = 0", "C04.R5")
V("C04", "P-midpoints-renamed", TOAST, "    to = mid(ul, ur)\n    ri = mid(ur, lr)\n    bo = mid(lr, ll)\n    le = mid(ll, ul)\n    ce = mid(ll, ur) if increasing else mid(ul, lr)",
  "    top = mid(ur, ul)\n    ri = mid(lr, ur)\n    bo = mid(ll, lr)\n    le = mid(ul, ll)\n    to = top\n    ce = mid(ur, ll) if increasing else mid(lr, ul)", "HOLDS")
V("C05", "corners-order", TOAST, "        tile.corners[0],\n        tile.corners[1],\n        tile.corners[2],\n        tile.corners[3],\n        256,", "        tile.corners[0],\n        tile.corners[1],\n        tile.corners[3],\n        tile.corners[2],\n        256,", "C05.R2")
V("C05", "not-increasing", TOAST, "        256,\n        tile.increasing,\n    )", "        256,\n        not tile.increasing,\n    )", "C05.R2")
V("C05", "div4-diverges", TOAST, "Tile(Pos(n=n, x=x, y=y + 1), (le, ce, bo, ll), increasing),", "Tile(Pos(n=n, x=x, y=y + 1), (le, ce, bo, lr), increasing),", "C05.R1")
V("C05", "pyx-transposed", "toasty/_libtoasty.pyx", "    _subsample(up, ur, ri, cen, x[:n2, n2:], y[:n2, n2:], increasing)\n    _subsample(le, cen, lo, ll, x[n2:, :n2], y[n2:, :n2], increasing)",
  "    _subsample(up, ur, ri, cen, x[n2:, :n2], y[n2:, :n2], increasing)\n    _subsample(le, cen, lo, ll, x[:n2, n2:], y[:n2, n2:], increasing)", "C05.R1")
V("C05", "grid-128", TOAST, "        256,\n        tile.increasing,", "        128,\n        tile.increasing,", "C05.R2")

# ---------------------------------------------------------------- C06
V("C06", "drop-flip", TOAST, "        if self._invert_into_tiles:\n            sampled_data = sampled_data[::-1]\n", "", "C06.R2")
V("C06", "latlon", TOAST, "sampled_data = self._sampler(lon, lat)", "sampled_data = self._sampler(lat, lon)", "C06.R1")
V("C06", "clobber-in-filtered", TOAST, "proc = ToastSampler(pio, sampler, False, format=format)", "proc = ToastSampler(pio, sampler, True, format=format)", "C06.R3")
V("C06", "revert-parity-fix", TOAST, "        if clobber and format is not None:\n            self._invert_into_tiles = get_format_vertical_parity_sign(format) == 1\n        else:\n            self._invert_into_tiles = pio.get_default_vertical_parity_sign() == 1",
  "        self._invert_into_tiles = pio.get_default_vertical_parity_sign() == 1", "C06.R2b")
V("C06", "parity-format-or-default", TOAST, "        if clobber and format is not None:\n            self._invert_into_tiles = get_format_vertical_parity_sign(format) == 1\n        else:\n            self._invert_into_tiles = pio.get_default_vertical_parity_sign() == 1",
  "        self._invert_into_tiles = get_format_vertical_parity_sign(format or pio.get_default_format()) == 1", "C06.R2b",
  note="the sub-agent's C06-m2: looks like a fix but sample_layer_filtered passes the builtin `format`, and updates always write the default format")
V("C06", "write-neighbour", TOAST, "self._pio.write_image(pos, img, format=self._format)", "self._pio.write_image(Pos(pos.n, pos.y, pos.x), img, format=self._format)", "C06.R1")
V("C06", "P-parity-equivalent", TOAST, "        if clobber and format is not None:\n            self._invert_into_tiles = get_format_vertical_parity_sign(format) == 1\n        else:\n            self._invert_into_tiles = pio.get_default_vertical_parity_sign() == 1",
  "        write_format = format if (clobber and format is not None) else pio.get_default_format()\n        self._invert_into_tiles = get_format_vertical_parity_sign(write_format) == 1", "HOLDS")

# ---------------------------------------------------------------- C19
V("C19", "revert-join-check", PAR, "    for w in workers:\n        w.join()\n\n    check_workers(workers)", "    for w in workers:\n        w.join()", "C19.R1")
V("C19", "revert-stage-join", TRANS, "    join_workers(workers)", "    for w in workers:\n        w.join()", "C19.R1")
V("C19", "revert-dispatcher-check", PYR, "                    check_workers(workers, done_event)\n                    continue", "                    continue", "C19.R2")
V("C19", "revert-put", MTAN, "put_to_workers(queue, (image, desc), workers, done_event)", "queue.put((image, desc))", "C19.R2")
V("C19", "worker-swallows", TRANS, "        do_one(buf, pos, pio_in, pio_out)\n\n\n# float-to-RGB", "        try:\n            do_one(buf, pos, pio_in, pio_out)\n        except Exception as e:\n            print('error processing', pos, e)\n\n\n# float-to-RGB", "C19.R3")
V("C19", "serial-swallows", PYR, "                if is_leaf:\n                    callback(pos, tile)\n                    progress.update(1)\n\n                riter.set_data(None)\n\n    def _visit_leaves_parallel",
  "                if is_leaf:\n                    try:\n                        callback(pos, tile)\n                    except Exception:\n                        pass\n                    progress.update(1)\n\n                riter.set_data(None)\n\n    def _visit_leaves_parallel", "C19.R3")
V("C19", "join-in-finally", MTAN, "        with progress_bar(total=len(self._descs), show=cli_progress) as progress:\n            for image, desc in zip(self._collection.images(), self._descs):\n                put_to_workers(queue, (image, desc), workers, done_event)\n                progress.update(1)\n\n        # Finish up\n\n        queue.close()\n        queue.join_thread()\n        done_event.set()\n        join_workers(workers)",
  "        try:\n            with progress_bar(total=len(self._descs), show=cli_progress) as progress:\n                for image, desc in zip(self._collection.images(), self._descs):\n                    put_to_workers(queue, (image, desc), workers, done_event)\n                    progress.update(1)\n\n            queue.close()\n            queue.join_thread()\n            done_event.set()\n        finally:\n            join_workers(workers)", "C19.R2",
  note="the sub-agent's C19-m2 rebased onto the repaired tree")
V("C19", "exitcode-none-ok", PAR, "if w.exitcode is not None and w.exitcode != 0:", "if w.exitcode is not None and w.exitcode != 0 and False:", "C19.R6",
  note="was a documented limit; C19.R6 interprets the condition under which the helper raises")
V("C19", "exitcode-positive-only", PAR, "if w.exitcode is not None and w.exitcode != 0:", "if w.exitcode is not None and w.exitcode > 0:", "C19.R6",
  note="a worker killed by a signal (negative exit code, e.g. the OOM killer) is no longer reported")
V("C19", "exitcode-eq-1", PAR, "if w.exitcode is not None and w.exitcode != 0:", "if w.exitcode == 1:", "C19.R6")
V("C19", "exitcode-first-only", PAR, "    for w in workers:\n        if w.exitcode is not None and w.exitcode != 0:", "    for w in workers[:1]:\n        if w.exitcode is not None and w.exitcode != 0:", "C19.R6")
V("C19", "P-exitcode-truthy", PAR, "if w.exitcode is not None and w.exitcode != 0:", "if w.exitcode:", "HOLDS")
V("C19", "P-exitcode-notin", PAR, "if w.exitcode is not None and w.exitcode != 0:", "if w.exitcode not in (None, 0):", "HOLDS")
V("C19", "P-exitcode-guard", PAR, "        if w.exitcode is not None and w.exitcode != 0:\n            if done_event is not None:\n                done_event.set()\n\n            raise Exception(\n                f\"a worker process failed (exit code {w.exitcode}); see its error message above\"\n            )",
  "        if w.exitcode is None or w.exitcode == 0:\n            continue\n        if done_event is not None:\n            done_event.set()\n        raise Exception(\n            f\"a worker process failed (exit code {w.exitcode}); see its error message above\"\n        )", "HOLDS")
V("C19", "P-exitcode-any", PAR, "    for w in workers:\n        if w.exitcode is not None and w.exitcode != 0:\n            if done_event is not None:\n                done_event.set()\n\n            raise Exception(\n                f\"a worker process failed (exit code {w.exitcode}); see its error message above\"\n            )",
  "    if any(w.exitcode not in (None, 0) for w in workers):\n        if done_event is not None:\n            done_event.set()\n        raise Exception(\"a worker process failed; see its error message above\")", "HOLDS")
V("C19", "P-message", PAR, 'f"a worker process failed (exit code {w.exitcode}); see its error message above"', 'f"worker died with status {w.exitcode}"', "HOLDS")

# ---------------------------------------------------------------- C07
V("C07", "revert-linspace", SAMP, "            n1 = int(np.ceil(coarse_idx1[hi1] - coarse_idx1[lo1])) + 1", "            n1 = max(int(np.ceil(coarse_idx1[hi1] - coarse_idx1[lo1])), 1)", "C07.R5")
V("C07", "children-sliced", TOAST, "    for child in _div4(tile):\n        for item in _postfix_corner(child, depth, filter, bottom_only):", "    for child in _div4(tile)[:3]:\n        for item in _postfix_corner(child, depth, filter, bottom_only):", "C07.R2")
V("C07", "mask-three", SAMP, "            ok &= (iy >= 0) & (iy < ny)", "            ok &= (iy < ny)", "C07.R3")
V("C07", "lat-bounds-swapped", SAMP, "        return lon_l, lon_r, lat_d, lat_u", "        return lon_l, lon_r, lat_u, lat_d", "C07.R4")
V("C07", "filter-passes-corners", SAMP, "        corner_lonlats = np.asarray(tile.corners)\n", "        corner_lonlats = tile.corners\n", "C07.R1")
V("C07", "prune-on-level", TOAST, "    if n > 1 and not filter(tile):\n        return", "    if n > 1 and (not filter(tile) or n > 6):\n        return", "C07.R2")
V("C07", "P-np-array", SAMP, "        corner_lonlats = np.asarray(tile.corners)\n", "        corner_lonlats = np.array(tile.corners)\n", "HOLDS")
V("C07", "P-max-2", SAMP, "            n1 = int(np.ceil(coarse_idx1[hi1] - coarse_idx1[lo1])) + 1", "            n1 = max(int(np.ceil(coarse_idx1[hi1] - coarse_idx1[lo1])), 2)", "HOLDS")
V("C07", "bottom-window-off-by-one", SAMP, "                rel = 3 * nm - e\n", "                rel = 3 * nm - (1 + e)\n", "C07.R9", note="the repaired F11")
V("C07", "left-window-off-by-one", SAMP, "                rel = 4 * nm - e\n", "                rel = 4 * nm - e - 1\n", "C07.R9")
V("C07", "right-edge-refined-on-left", SAMP, "                refined_idx1 = np.zeros(n) + coarse_idx1[nm]\n", "                refined_idx1 = np.zeros(n) + coarse_idx1[0]\n", "C07.R9")
V("C07", "walk-bottom-forwards", SAMP, "        coarse_edge_lons[2 * nm : 3 * nm] = coarse_lon[-1:0:-1, nm]", "        coarse_edge_lons[2 * nm : 3 * nm] = coarse_lon[1:, nm]", "C07.R9", note="walk direction no longer matches the refinement")
V("C07", "top-window-one-sided", SAMP, "            if e < nm:\n                # \"top\" edge (thinking of array as [lon, lat] ~ [x, y])\n                lo = max(e - 1, 0)", "            if e < nm:\n                # \"top\" edge (thinking of array as [lon, lat] ~ [x, y])\n                lo = max(e, 0)", "C07.R9")
V("C07", "P-bottom-rel-respelled", SAMP, "                rel = 3 * nm - e\n", "                rel = -(e - 3 * nm)\n", "HOLDS")
V("C07", "P-wider-window", SAMP, "                rel = 4 * nm - e\n                lo = max(rel - 1, 0)\n                hi = min(rel + 1, nm)", "                rel = 4 * nm - e\n                lo = max(rel - 2, 0)\n                hi = min(rel + 2, nm)", "HOLDS")

# ---------------------------------------------------------------- C08
V("C08", "gx1-no-minus-one", STUDY, "        img_gx1 = (\n            self._img_gx0 + self._width - 1\n        )  # inclusive", "        img_gx1 = (\n            self._img_gx0 + self._width\n        )  # inclusive", "C08.R2")
V("C08", "range-exclusive", STUDY, "        for ity in range(tile_start_ty, tile_end_ty + 1):", "        for ity in range(tile_start_ty, tile_end_ty):", "C08.R")
V("C08", "flip-256", STUDY, "                    flip_tile_y1 = 255 - tile_y", "                    flip_tile_y1 = 256 - tile_y", "C08.R3")
V("C08", "sub-offset-axis", STUDY, "        sub_tiling._img_gx0 += subim_ix\n        sub_tiling._img_gy0 += subim_iy", "        sub_tiling._img_gx0 += subim_iy\n        sub_tiling._img_gy0 += subim_ix", "C08.R")
V("C08", "sub-offset-dropped", STUDY, "        sub_tiling._img_gx0 += subim_ix\n", "", "C08.R")
V("C08", "xy-swapped-fill", STUDY, "image.fill_into_maskable_buffer(buffer, iy_idx, ix_idx, by_idx, bx_idx)", "image.fill_into_maskable_buffer(buffer, ix_idx, iy_idx, by_idx, bx_idx)", "C08.R3")
V("C08", "count-drift", STUDY, "        return (tile_end_ty + 1 - tile_start_ty) * (tile_end_tx + 1 - tile_start_tx)", "        return (tile_end_ty - tile_start_ty) * (tile_end_tx + 1 - tile_start_tx)", "C08.R1")
V("C08", "tile-gx1-256", STUDY, "                tile_gx1 = tile_gx0 + 255", "                tile_gx1 = tile_gx0 + 256", "C08.R2")
V("C08", "clone-drift", MWCS, "                    flip_tile_y1 = 255 - tile_y\n                    flip_tile_y0 = flip_tile_y1 - height\n\n                    if flip_tile_y0 == -1:\n                        flip_tile_y0 = None  # with", "                    flip_tile_y1 = 255 - tile_y\n                    flip_tile_y0 = flip_tile_y1 - height + 1\n\n                    if flip_tile_y0 == -1:\n                        flip_tile_y0 = None  # with", "C08.R5")
V("C08", "P-renamed", STUDY, "                overlap_width = img_overlap_x1 + 1 - img_overlap_x0", "                overlap_width = 1 + (img_overlap_x1 - img_overlap_x0)", "HOLDS")
V("C08", "P-offset-shift", STUDY, "        self._img_gx0 = (self._p2n - self._width) // 2", "        self._img_gx0 = (self._p2n - self._width) >> 1", "UNDECIDED", note="an equivalent spelling the normaliser does not know: refused, not judged")

# ---------------------------------------------------------------- C09
V("C09", "worker-no-flip", MTAN, "        if image.get_parity_sign() != tile_parity_sign:\n            image.flip_parity()\n\n        for (", "        for (", "C09.R")
V("C09", "reflection-off-by-one", MTAN, "                        tile_y = 256 - (tile_y + height)\n", "                        tile_y = 255 - (tile_y + height)\n", "C09.R")
V("C09", "no-cleanup", MTAN, "        pio.clean_lockfiles(self._tiling._tile_levels)\n", "", "C09.R4")
V("C09", "cleanup-level", MTAN, "        pio.clean_lockfiles(self._tiling._tile_levels)\n", "        pio.clean_lockfiles(self._tiling._tile_levels - 1)\n", "C09.R4")
V("C09", "direct-write", MTAN, "            with pio.update_image(\n                pos, masked_mode=image.mode, default=\"masked\"\n            ) as basis:\n                image.update_into_maskable_buffer(basis, iy_idx, ix_idx, by_idx, bx_idx)\n",
  "            basis = pio.read_image(pos, masked_mode=image.mode, default=\"masked\")\n            image.update_into_maskable_buffer(basis, iy_idx, ix_idx, by_idx, bx_idx)\n            pio.write_image(pos, basis)\n", "C09.R3")
V("C09", "crpix-order-dependent", MTAN, 'ref_headers["CRPIX1"] = this_crpix1 + 1 + (mtdesc.crxmin - global_crxmin)', 'ref_headers["CRPIX1"] = this_crpix1 + 1 - global_crxmin', "C09.R5")
V("C09", "imax-floor", MTAN, "            desc.imax = int(np.ceil(desc.crxmax - global_crxmin))", "            desc.imax = int(np.floor(desc.crxmax - global_crymin))", "C09.R5")
V("C09", "global-min-of-max", MTAN, "                global_crxmax = max(global_crxmax, mtdesc.crxmax)", "                global_crxmax = min(global_crxmax, mtdesc.crxmax)", "C09.R5")
V("C09", "subimage-width", MTAN, "                desc.imax + 1 - desc.imin,", "                desc.imax - desc.imin,", "C09.R5")
V("C09", "P-flip-spelling", MTAN, "                if image.get_parity_sign() != tile_parity_sign:\n                    image.flip_parity()", "                if tile_parity_sign != image.get_parity_sign():\n                    image.flip_parity()", "HOLDS")

# ---------------------------------------------------------------- C10
V("C10", "no-lock", PYR, "        with SoftFileLock(p + \".lock\"):\n            img = self.read_image(\n                pos,\n                default=default,\n                masked_mode=masked_mode,\n                format=format or self._default_format,\n            )\n\n            yield img\n            self.write_image(pos, img, format=format or self._default_format)",
  "        img = self.read_image(\n            pos,\n            default=default,\n            masked_mode=masked_mode,\n            format=format or self._default_format,\n        )\n\n        yield img\n        self.write_image(pos, img, format=format or self._default_format)", "C10.R")
V("C10", "write-after-with", PYR, "            yield img\n            self.write_image(pos, img, format=format or self._default_format)", "            yield img\n\n        self.write_image(pos, img, format=format or self._default_format)", "C10.R1")
V("C10", "pid-in-key", PYR, 'with SoftFileLock(p + ".lock"):', 'with SoftFileLock(p + ".%d.lock" % os.getpid()):', "C10.R3")
V("C10", "threading-lock", PYR, "        from filelock import SoftFileLock\n\n        p = self.tile_path(pos)\n\n        with SoftFileLock(p + \".lock\"):", "        from threading import Lock\n\n        p = self.tile_path(pos)\n\n        with Lock():", "C10.R2")
V("C10", "write-other-format", PYR, "            self.write_image(pos, img, format=format or self._default_format)", "            self.write_image(pos, img, format=format)", "HOLDS",
  note="format=None resolves to the default format inside write_image: same file")
V("C10", "write-other-pos", PYR, "            yield img\n            self.write_image(pos, img, format=format or self._default_format)", "            yield img\n            self.write_image(Pos(pos.n, pos.x, pos.y + 1), img, format=format or self._default_format)", "C10.R4")
V("C10", "P-filelock", PYR, "        from filelock import SoftFileLock\n\n        p = self.tile_path(pos)\n\n        with SoftFileLock(p + \".lock\"):", "        from filelock import FileLock\n\n        p = self.tile_path(pos)\n\n        with FileLock(p + \".lock\"):", "HOLDS")

# ---------------------------------------------------------------- C11
V("C11", "one-pixel-shift", SAMP, "    lon0 = -np.pi + 0.5 / dx  # longitudes of the centers of the pixels with ix = 0", "    lon0 = -np.pi + 1.5 / dx  # longitudes of the centers of the pixels with ix = 0", "C11.R3")
V("C11", "no-clip", SAMP, "        lon = lon % TWOPI  # ensure in range [0, 2pi]\n        ix = (lon - lon0) * dx\n        ix = np.round(ix).astype(int)\n        ix = np.clip(ix, 0, nx - 1)", "        lon = lon % TWOPI  # ensure in range [0, 2pi]\n        ix = (lon - lon0) * dx\n        ix = np.round(ix).astype(int)", "C11.R1")
V("C11", "transposed", SAMP, "        iy = np.clip(iy, 0, ny - 1)\n\n        return data[iy, ix]\n\n    return vec2pix\n\n\ndef plate_carree_planet_zeroleft_sampler", "        iy = np.clip(iy, 0, ny - 1)\n\n        return data[ix, iy]\n\n    return vec2pix\n\n\ndef plate_carree_planet_zeroleft_sampler", "C11.R1")
V("C11", "mod-pi", SAMP, "        lon = lon % TWOPI  # ensure in range [0, 2pi]\n        ix = (lon0 - lon) * dx", "        lon = lon % np.pi  # ensure in range [0, 2pi]\n        ix = (lon0 - lon) * dx", "C11.R2")
V("C11", "clip-wrong-axis", SAMP, "        iy = np.clip(iy, 0, ny - 1)\n\n        return data[iy, ix]\n\n    return vec2pix\n\n\ndef plate_carree_galactic_sampler", "        iy = np.clip(iy, 0, nx - 1)\n\n        return data[iy, ix]\n\n    return vec2pix\n\n\ndef plate_carree_galactic_sampler", "C11.R1")
V("C11", "planet-leftward", SAMP, "        lon = (lon + np.pi) % TWOPI - np.pi  # ensure in range [-pi, pi]\n        ix = (lon - lon0) * dx", "        lon = (lon + np.pi) % TWOPI - np.pi  # ensure in range [-pi, pi]\n        ix = (-lon0 - lon) * dx", "C11.R4")
V("C11", "no-wrap", SAMP, "        lon = lon % TWOPI  # ensure in range [0, 2pi]\n        ix = (lon - lon0) * dx", "        ix = (lon - lon0) * dx", "C11.R2")
V("C11", "truncate", SAMP, "        lon = lon % TWOPI  # ensure in range [0, 2pi]\n        ix = (lon - lon0) * dx\n        ix = np.round(ix).astype(int)", "        lon = lon % TWOPI  # ensure in range [0, 2pi]\n        ix = (lon - lon0) * dx\n        ix = ix.astype(int)", "C11.R1")
V("C11", "galactic-no-rotation", SAMP, "        gal = ICRS(lon * u.rad, lat * u.rad).transform_to(Galactic())\n        lon, lat = gal.l.rad, gal.b.rad\n", "", "C11.R")
V("C11", "galactic-frame-class", SAMP, ".transform_to(Galactic())", ".transform_to(Galactic)", "C11.R5", "F14: the frame class instead of an instance (ConvertError on every call)")
V("C11", "P-galactic-frame-local", SAMP, "        gal = ICRS(lon * u.rad, lat * u.rad).transform_to(Galactic())\n", "        frame = Galactic()\n        gal = ICRS(lon * u.rad, lat * u.rad).transform_to(frame)\n", "HOLDS")
V("C11", "lat-flipped", SAMP, "    lat0 = HALFPI - 0.5 / dy  # latitudes of the centers of the pixels with iy = 0\n\n    def vec2pix(lon, lat):\n        lon = lon % TWOPI  # ensure in range [0, 2pi]\n        ix = (lon0 - lon) * dx", "    lat0 = -HALFPI + 0.5 / dy  # latitudes of the centers of the pixels with iy = 0\n\n    def vec2pix(lon, lat):\n        lon = lon % TWOPI  # ensure in range [0, 2pi]\n        ix = (lon0 - lon) * dx", "C11.R3")
V("C11", "P-equivalent-algebra", SAMP, "        lon = lon % TWOPI  # ensure in range [0, 2pi]\n        ix = (lon - lon0) * dx\n        ix = np.round(ix).astype(int)\n        ix = np.clip(ix, 0, nx - 1)", "        wrapped = np.mod(lon, 2 * np.pi)\n        ix = wrapped * nx / (2 * np.pi) - 0.5\n        ix = np.clip(np.round(ix).astype(int), 0, nx - 1)", "HOLDS")
V("C11", "P-shift-3pi", SAMP, "        lon = (lon + np.pi) % TWOPI - np.pi  # ensure in range [-pi, pi]\n        ix = (lon - lon0) * dx", "        lon = (lon + 3 * np.pi) % TWOPI - np.pi  # ensure in range [-pi, pi]\n        ix = (lon - lon0) * dx", "HOLDS")

# ---------------------------------------------------------------- C12
V("C12", "revert-planetary-fix", TOAST, "        if _toast_tile_containment_score(tile, lat, level1_lon) == 0.0:", "        if _toast_tile_containment_score(tile, lat, lon) == 0.0:", "C12.R3")
V("C12", "no-mod", TOAST, "    lon = lon % TWOPI\n\n    if depth == 0:", "    if depth == 0:", "C12.R1")
V("C12", "descend-from-grandchild", TOAST, "            if score > best_score:\n                tile = child\n                best_score = score", "            if score > best_score:\n                tile = _div4(child)[0]\n                best_score = score", "C12.R2")
V("C12", "revert-pixel-wrap", TOAST, "    lons = (lons - lon + np.pi) % TWOPI - np.pi\n    lon = 0.0\n    dist2 = lons**2 + (lats - lat) ** 2", "    dist2 = (lons - lon) ** 2 + (lats - lat) ** 2", "C12.R1")
V("C12", "level1-range", TOAST, "        if lon > HALFPI and lon <= np.pi and tile.pos.x == 0 and tile.pos.y == 0:", "        if lon > HALFPI and lon <= np.pi and tile.pos.x == 0 and tile.pos.y == 1:", "C12.R3")
V("C12", "level1-boundary-gap", TOAST, "        if lon >= 0 and lon <= HALFPI and tile.pos.x == 1 and tile.pos.y == 0:", "        if lon > 0 and lon <= HALFPI and tile.pos.x == 1 and tile.pos.y == 0:", "C12.R3")
V("C12", "edge-order", TOAST, "    right = _left_of_half_space_score(ur, lr, test_point)", "    right = _left_of_half_space_score(lr, ur, test_point)", "C12.R4")
V("C12", "latlon-swapped", TOAST, "    ul = _equ_to_xyz(tile.corners[0][1], tile.corners[0][0])", "    ul = _equ_to_xyz(tile.corners[0][0], tile.corners[0][1])", "C12.R4")
V("C12", "first-nonnegative", TOAST, "            if score > best_score:\n                tile = child\n                best_score = score", "            if score < best_score:\n                tile = child\n                best_score = score", "C12.R4")
V("C12", "P-level1-lon-minus-pi", TOAST, "        level1_lon = (lon + np.pi) % TWOPI", "        level1_lon = (lon - np.pi) % TWOPI", "HOLDS")

# ---------------------------------------------------------------- C13
V("C13", "parent-indices-swapped", PYR, "return parent, pos.x % 2, pos.y % 2", "return parent, pos.y % 2, pos.x % 2", "C13.R1")
V("C13", "closed-form-arg", PYR, "            return depth2tiles(self.depth - (self._apex.n + 1))", "            return depth2tiles(self.depth - self._apex.n)", "C13.R4")
V("C13", "closed-form", PYR, "    return (4 ** (depth + 1) - 1) // 3", "    return (4 ** (depth + 1)) // 3", "C13.R4")
V("C13", "live-unconditional-plus-one", PYR, "                # Only count this tile as \"live\" if it has any live children.\n                if count:\n                    count += 1", "                count += 1", "C13.R5")
V("C13", "children-order", PYR, "        Pos(n=n, x=x + 1, y=y),\n        Pos(n=n, x=x, y=y + 1),", "        Pos(n=n, x=x, y=y + 1),\n        Pos(n=n, x=x + 1, y=y),", "C13.R1")
V("C13", "subpyramid-depth", PYR, "                for pos in generate_pos(self.depth - na):", "                for pos in generate_pos(self.depth - na + 1):", "C13.R3")
V("C13", "leaf-visit-all", PYR, "                if is_leaf:\n                    callback(pos, tile)\n                    progress.update(1)\n\n                riter.set_data(None)\n\n    def _visit_leaves_parallel", "                callback(pos, tile)\n                progress.update(1)\n\n                riter.set_data(None)\n\n    def _visit_leaves_parallel", "C13.R5")
V("C13", "is-subtile-x-only", PYR, "        return deeper_pos.x == shallower_pos.x and deeper_pos.y == shallower_pos.y", "        return deeper_pos.x == shallower_pos.x", "C13.R1")
V("C13", "ops-leaf-one", PYR, "            if is_leaf:\n                is_live = True\n                ops = 0\n            else:\n                is_live = data[0][0] or data[1][0] or data[2][0] or data[3][0]\n                ops = data[0][1] + data[1][1] + data[2][1] + data[3][1]\n\n                if is_live:\n                    ops += 1\n\n            riter.set_data((is_live, ops))\n\n        return riter.result()[1]",
  "            if is_leaf:\n                is_live = True\n                ops = 1\n            else:\n                is_live = data[0][0] or data[1][0] or data[2][0] or data[3][0]\n                ops = data[0][1] + data[1][1] + data[2][1] + data[3][1]\n\n                if is_live:\n                    ops += 1\n\n            riter.set_data((is_live, ops))\n\n        return riter.result()[1]", "C13.R5")
V("C13", "P-shift-scale", PYR, "                    x_eff = pos.x + self._apex.x * 2**pos.n\n                    y_eff = pos.y + self._apex.y * 2**pos.n", "                    scale = 1 << pos.n\n                    x_eff = pos.x + self._apex.x * scale\n                    y_eff = self._apex.y * scale + pos.y", "HOLDS")
V("C13", "P-count-sum", PYR, "                count = data[0] + data[1] + data[2] + data[3]\n\n                # Only count", "                count = data[3] + data[2] + data[1] + data[0]\n\n                # Only count", "HOLDS")

# ---------------------------------------------------------------- C14
V("C14", "min-of-max", MERGE, "                min_value = min(min_values)", "                min_value = min(max_values)", "C14.R")
V("C14", "no-min-value", MERGE, "self._pio.write_image(pos, merged, min_value=min_value, max_value=max_value)", "self._pio.write_image(pos, merged, max_value=max_value)", "C14.R2")
V("C14", "swapped-header-keys", IMG, '                max_value = self._get_header_value_or_none(\n                    header=hdul[0].header, keyword="DATAMAX"\n                )', '                max_value = self._get_header_value_or_none(\n                    header=hdul[0].header, keyword="DATAMIN"\n                )', "C14.R1")
V("C14", "drop-child", MERGE, "min_value, max_value = self._get_min_max_of_children([img0, img1, img2, img3])", "min_value, max_value = self._get_min_max_of_children([img0, img1, img2])", "C14.R2")
V("C14", "range-of-merged", MERGE, "self._pio.write_image(pos, merged, min_value=min_value, max_value=max_value)", "self._pio.write_image(pos, merged, min_value=np.nanmin(merged.asarray()), max_value=np.nanmax(merged.asarray()))", "C14.R2")
V("C14", "root-swapped", BLD, '                self.imgset.data_min = top_tile[0].header["DATAMIN"]\n                self.imgset.data_max = top_tile[0].header["DATAMAX"]', '                self.imgset.data_min = top_tile[0].header["DATAMAX"]\n                self.imgset.data_max = top_tile[0].header["DATAMIN"]', "C14.R")
V("C14", "save-swapped", IMG, '                if min_value is not None:\n                    header["DATAMIN"] = min_value', '                if min_value is not None:\n                    header["DATAMIN"] = max_value', "C14.R")
V("C14", "leaf-stale-range", PYR, "            self.write_image(pos, img, format=format or self._default_format)", "            self.write_image(pos, img, format=format or self._default_format, min_value=img.data_min, max_value=img.data_max)", "C14.R3")
V("C14", "skip-none-children-wrong", MERGE, "                    if image.data_min is not None:\n                        min_values.append(image.data_min)", "                    if image.data_min:\n                        min_values.append(image.data_min)", "C14.R2")
V("C14", "P-lookup-get", IMG, "        value = None\n        if keyword in header:\n            value = header[keyword]\n        return value", "        return header.get(keyword)", "HOLDS")

# ---------------------------------------------------------------- C15
V("C15", "i16-dropped", IMG, "        elif self.mode in (ImageMode.RGBA, ImageMode.U8, ImageMode.I16, ImageMode.I32):\n            b.fill(0)", "        elif self.mode in (ImageMode.RGBA, ImageMode.U8, ImageMode.I32):\n            b.fill(0)", "C15.R1")
V("C15", "floats-cleared-zero", IMG, "        elif self._mode in (ImageMode.F32, ImageMode.F64, ImageMode.F16x3):\n            self.asarray().fill(np.nan)", "        elif self._mode in (ImageMode.F32, ImageMode.F64, ImageMode.F16x3):\n            self.asarray().fill(0)", "C15.R2")
V2("C15", "mask-value-helper-startswith", [('toasty/image.py', '    def try_as_pil(self):\n', '    def get_mask_value(self):\n        if self.value.startswith("F"):\n            return np.nan\n        return 0\n\n    def try_as_pil(self):\n'), ('toasty/image.py', '        if self._mode in (\n            ImageMode.RGB,\n            ImageMode.RGBA,\n            ImageMode.U8,\n            ImageMode.I16,\n            ImageMode.I32,\n        ):\n            self.asarray().fill(0)\n        elif self._mode in (ImageMode.F32, ImageMode.F64, ImageMode.F16x3):\n            self.asarray().fill(np.nan)\n        else:\n            raise Exception("unhandled mode in clear()")\n', '        self.asarray().fill(self._mode.get_mask_value())\n')], "C15.R2", note="F64 is spelled 'D': the helper on the mode object returns 0 for it (round-3 seed C15-p2)")
V2("C15", "P-mask-value-helper", [('toasty/image.py', '    def try_as_pil(self):\n', '    def get_mask_value(self):\n        if self in (ImageMode.F32, ImageMode.F64, ImageMode.F16x3):\n            return np.nan\n        return 0\n\n    def try_as_pil(self):\n'), ('toasty/image.py', '        if self._mode in (\n            ImageMode.RGB,\n            ImageMode.RGBA,\n            ImageMode.U8,\n            ImageMode.I16,\n            ImageMode.I32,\n        ):\n            self.asarray().fill(0)\n        elif self._mode in (ImageMode.F32, ImageMode.F64, ImageMode.F16x3):\n            self.asarray().fill(np.nan)\n        else:\n            raise Exception("unhandled mode in clear()")\n', '        self.asarray().fill(self._mode.get_mask_value())\n')], "HOLDS")
V2("C15", "P-mask-value-helper-by-value", [('toasty/image.py', '    def try_as_pil(self):\n', '    def get_mask_value(self):\n        if self.value in ("F", "D", "F16x3"):\n            return np.nan\n        return 0\n\n    def try_as_pil(self):\n'), ('toasty/image.py', '        if self._mode in (\n            ImageMode.RGB,\n            ImageMode.RGBA,\n            ImageMode.U8,\n            ImageMode.I16,\n            ImageMode.I32,\n        ):\n            self.asarray().fill(0)\n        elif self._mode in (ImageMode.F32, ImageMode.F64, ImageMode.F16x3):\n            self.asarray().fill(np.nan)\n        else:\n            raise Exception("unhandled mode in clear()")\n', '        self.asarray().fill(self._mode.get_mask_value())\n')], "HOLDS")
V("C15", "alpha-channel-0", IMG, "            return np.all(i[..., 3] == 0)", "            return np.all(i[..., 0] == 0)", "C15.R2")
V("C15", "update-fills", IMG, "            valid = ~np.isnan(sub_i)\n            np.putmask(sub_b, valid, sub_i)", "            valid = ~np.isnan(sub_i)\n            np.putmask(b, valid, sub_i)", "C15.R3")
V("C15", "rgba-valid-inverted", IMG, "            valid = sub_i[..., 3] != 0", "            valid = sub_i[..., 3] == 0", "C15.R2")
V("C15", "ints-overwrite", IMG, "            np.maximum(sub_b, sub_i, out=sub_b)", "            sub_b[...] = sub_i", "C15.R2")
V("C15", "dtype-table-drift", IMG, '            elif dtype.kind == "i" and dtype.itemsize == 2:\n                return cls.I16', '            elif dtype.kind == "u" and dtype.itemsize == 2:\n                return cls.I16', "C15.R4")
V("C15", "errno-any", PYR, "            if e.errno != 2:\n                raise  # not EEXIST", "            if e.errno != 2 and False:\n                raise  # not EEXIST", "C15.R5")
V("C15", "masked-not-cleared", PYR, "                buf = masked_mode.make_maskable_buffer(256, 256)\n                buf.clear()\n                return buf", "                buf = masked_mode.make_maskable_buffer(256, 256)\n                return buf", "C15.R5")
V("C15", "mode-duplicated", IMG, "        if self.mode in (ImageMode.RGB, ImageMode.U8, ImageMode.I16, ImageMode.I32):\n            return False", "        if self.mode in (ImageMode.RGB, ImageMode.RGBA, ImageMode.U8, ImageMode.I16, ImageMode.I32):\n            return False", "C15.R")
V("C15", "P-branch-order", IMG, "        if self.mode in (ImageMode.RGB, ImageMode.U8, ImageMode.I16, ImageMode.I32):\n            return False\n        elif self.mode in (ImageMode.F32, ImageMode.F64, ImageMode.F16x3):\n            return np.all(np.isnan(i))",
  "        if self.mode in (ImageMode.F64, ImageMode.F32, ImageMode.F16x3):\n            return np.all(np.isnan(i))\n        elif self.mode in (ImageMode.I32, ImageMode.RGB, ImageMode.U8, ImageMode.I16):\n            return False", "HOLDS")

# ---------------------------------------------------------------- C16
V("C16", "negate-cd21", IMG, '    h["CD1_2"] *= -1\n    h["CD2_2"] *= -1', '    h["CD2_1"] *= -1\n    h["CD2_2"] *= -1', "C16.R1")
V("C16", "h-minus-crpix", IMG, '        image_height + 1 - h["CRPIX2"]', '        image_height - h["CRPIX2"]', "C16.R1")
V("C16", "width", IMG, "        self._wcs = _flip_wcs_parity(self._wcs, self.height)\n        self._array = self.asarray()[::-1]", "        self._wcs = _flip_wcs_parity(self._wcs, self.width)\n        self._array = self.asarray()[::-1]", "C16.R2")
V("C16", "flip-columns", IMG, "        self._array = self.asarray()[::-1]", "        self._array = self.asarray()[:, ::-1]", "C16.R2")
V("C16", "ensure-on-minus", IMG, "        if self.get_parity_sign() == 1:\n            self.flip_parity()\n        return self\n\n    def _as_writeable_array", "        if self.get_parity_sign() == -1:\n            self.flip_parity()\n        return self\n\n    def _as_writeable_array", "C16.R3")
V("C16", "det-sign", IMG, "    if det < 0:\n        return 1  # yes!", "    if det > 0:\n        return 1  # yes!", "C16.R3")
V("C16", "cd-wrong-cdelt", IMG, '    h["CD1_2"] = h["CDELT1"] * h.setdefault("PC1_2", 0.0)', '    h["CD1_2"] = h["CDELT2"] * h.setdefault("PC1_2", 0.0)', "C16.R1")
V("C16", "keep-pc", IMG, '    for hn in "CDELT1 CDELT2 PC1_1 PC1_2 PC2_1 PC2_2".split():', '    for hn in "CDELT1 CDELT2".split():', "C16.R1")
V("C16", "desc-no-flip", IMG, "        self.wcs = _flip_wcs_parity(self.wcs, self.height)\n        return self", "        return self", "C16.R2")
V("C16", "P-neg-spelling", IMG, '    h["CD1_2"] *= -1\n    h["CD2_2"] *= -1', '    h["CD1_2"] = -h["CD1_2"]\n    h["CD2_2"] = 0 - h["CD2_2"]', "HOLDS")
V("C16", "P-get-instead-of-setdefault", IMG, '    h["CD2_1"] = h["CDELT2"] * h.setdefault("PC2_1", 0.0)', '    h["CD2_1"] = h.get("PC2_1", 0.0) * h["CDELT2"]', "HOLDS")

# ---------------------------------------------------------------- C17
V("C17", "xy-in-filename", PYR, '            d, "{}_{}.{}".format(iy, ix, format or self._default_format)', '            d, "{}_{}.{}".format(ix, iy, format or self._default_format)', "C17.R1")
V("C17", "scheme-edited", PYR, '            self._scheme = "{1}/{3}/{3}_{2}"', '            self._scheme = "{1}/{2}/{2}_{3}"', "C17.R1")
V("C17", "no-dot", BLD, '        self.imgset.file_type = "." + pio.get_default_format()', '        self.imgset.file_type = pio.get_default_format()', "C17.R2")
V("C17", "depth-plus-one", BLD, "        self.imgset.tile_levels = depth\n", "        self.imgset.tile_levels = depth + 1\n", "C17.R3")
V("C17", "revert-reuse-fix", FTIL, "                else:\n                    self._load_builder_from_index()\n\n                return", "\n                return", "C17.R5")
V("C17", "emit-first", "toasty/pipeline/__init__.py", "            src.process(uniq_id, cdata, cachedir, builder)\n            cdata.close()\n            builder.write_index_rel_wtml()", "            builder.write_index_rel_wtml()\n            src.process(uniq_id, cdata, cachedir, builder)\n            cdata.close()", "C17.R4")
V("C17", "binding-swapped", PYR, "        return self._tile_path(level, ix, iy, format=format, makedirs=makedirs)", "        return self._tile_path(level, iy, ix, format=format, makedirs=makedirs)", "C17.R1")
V("C17", "not-injective", PYR, '            "L{}X{}Y{}.{}".format(level, ix, iy, format or self._default_format),', '            "L{}{}{}.{}".format(level, ix, iy, format or self._default_format),', "C17.R1")
V("C17", "study-levels", STUDY, "        imgset.tile_levels = self._tile_levels\n", "        imgset.tile_levels = self._tile_levels + 1\n", "C17.R3")
V("C17", "P-fstring-path", PYR, '            "L{}X{}Y{}.{}".format(level, ix, iy, format or self._default_format),', '            f"L{level}X{ix}Y{iy}.{format or self._default_format}",', "HOLDS")
V("C17", "P-join-flat", PYR, "        d = os.path.join(self._base_dir, level, iy)\n        if makedirs:\n            os.makedirs(d, exist_ok=True)\n        return os.path.join(\n            d, \"{}_{}.{}\".format(iy, ix, format or self._default_format)\n        )",
  "        d = os.path.join(self._base_dir, level, iy)\n        if makedirs:\n            os.makedirs(d, exist_ok=True)\n        return os.path.join(self._base_dir, level, iy, iy + \"_\" + ix + \".\" + (format or self._default_format))", "HOLDS")

# ---------------------------------------------------------------- C18
V("C18", "sentinel-first", PIPE, "                temp = filenames[-1]\n                filenames[-1] = 'index.wtml'\n                filenames[index_index] = temp", "                temp = filenames[0]\n                filenames[0] = 'index.wtml'\n                filenames[index_index] = temp", "C18.R1")
V("C18", "rename-in-loop", PIPE, "                with open(p, 'rb') as f:\n                    self._pipeio.put_item(*sub_components[1:], source=f)\n\n            os.rename(", "                with open(p, 'rb') as f:\n                    self._pipeio.put_item(*sub_components[1:], source=f)\n\n                os.rename(", "C18.R4")
V("C18", "swallow", PIPE, "                with open(p, 'rb') as f:\n                    self._pipeio.put_item(*sub_components[1:], source=f)\n", "                try:\n                    with open(p, 'rb') as f:\n                        self._pipeio.put_item(*sub_components[1:], source=f)\n                except Exception as e:\n                    print('warning: upload failed', e)\n", "C18.R3")
V("C18", "sorted-after-swap", PIPE, "            for filename in filenames:\n                # Get the components", "            for filename in sorted(filenames):\n                # Get the components", "C18.R")
V("C18", "refresh-other-name", PCLI, '        if mgr._pipeio.check_exists(uniq_id, "index.wtml"):', '        if mgr._pipeio.check_exists(uniq_id, "index_rel.wtml"):', "C18.R5")
V("C18", "no-reorder", PIPE, "            try:\n                index_index = filenames.index('index.wtml')\n            except ValueError:\n                pass\n            else:\n                temp = filenames[-1]\n                filenames[-1] = 'index.wtml'\n                filenames[index_index] = temp\n", "", "C18.R1")
V("C18", "swap-loses-file", PIPE, "                temp = filenames[-1]\n                filenames[-1] = 'index.wtml'\n                filenames[index_index] = temp", "                filenames[-1] = 'index.wtml'\n                filenames[index_index] = filenames[-1]", "C18.R1")
V("C18", "rename-in-finally", PIPE, "            for filename in filenames:\n                # Get the components of the item path relative to todo_dir.\n                sub_components = [todo_dir, uniq_id, filename]\n                p = os.path.join(*sub_components)\n                assert p.startswith(pfx)\n\n                with open(p, 'rb') as f:\n                    self._pipeio.put_item(*sub_components[1:], source=f)\n\n            os.rename(os.path.join(todo_dir, uniq_id), os.path.join(done_dir, uniq_id))",
  "            try:\n                for filename in filenames:\n                    sub_components = [todo_dir, uniq_id, filename]\n                    p = os.path.join(*sub_components)\n                    with open(p, 'rb') as f:\n                        self._pipeio.put_item(*sub_components[1:], source=f)\n            finally:\n                os.rename(os.path.join(todo_dir, uniq_id), os.path.join(done_dir, uniq_id))", "C18.R4")
V("C18", "local-append-mode", LIO, "        with open(fpath, 'wb') as f:\n            shutil.copyfileobj(source, f)", "        with open(fpath, 'ab') as f:\n            shutil.copyfileobj(source, f)", "C18.R6")
V("C18", "P-remove-append", PIPE, "            try:\n                index_index = filenames.index('index.wtml')\n            except ValueError:\n                pass\n            else:\n                temp = filenames[-1]\n                filenames[-1] = 'index.wtml'\n                filenames[index_index] = temp\n",
  "            if 'index.wtml' in filenames:\n                filenames.remove('index.wtml')\n                filenames.append('index.wtml')\n", "HOLDS")
V("C18", "P-sort-key-eq", PIPE, "            try:\n                index_index = filenames.index('index.wtml')\n            except ValueError:\n                pass\n            else:\n                temp = filenames[-1]\n                filenames[-1] = 'index.wtml'\n                filenames[index_index] = temp\n",
  "            filenames.sort(key=lambda fn: fn == 'index.wtml')\n", "HOLDS")

# ---------------------------------------------------------------- C20
V("C20", "revert-hdu-fix", COLL, "                    hdu_index = self._hdu_index[path_index]\n                    hdu = hdul[hdu_index]", "                    hdu_index = self._hdu_index[path_index]\n                    hdu = hdul[self._hdu_index]", "C20.R1")
V("C20", "list-first-entry", COLL, "                    hdu_index = self._hdu_index[path_index]\n                    hdu = hdul[hdu_index]", "                    hdu_index = self._hdu_index[0]\n                    hdu = hdul[hdu_index]", "C20.R1")
V("C20", "wcs-key-list-ignored", COLL, "                    wcs_key = self._wcs_key[path_index]", "                    wcs_key = self._wcs_key[0]", "C20.R2")
V("C20", "images-not-shared", COLL, "    def images(self):\n        return self._load(True)\n\n\nclass RubinDirectoryCollection", "    def images(self):\n        return self._load_images()\n\n\nclass RubinDirectoryCollection", "C20.R3")
V("C20", "wcs-default-key", COLL, "            wcs = WCS(hdu.header, key=wcs_key)", "            wcs = WCS(hdu.header)", "C20.R3")
V("C20", "load-drops-wcs-key", COLL, "    loader.hdu_index = hdu_index\n    loader.wcs_key = wcs_key\n", "    loader.hdu_index = hdu_index\n", "C20.R4")
V("C20", "tile-fits-drops-hdu", "toasty/__init__.py", "coll = collection.load(fits, hdu_index=hdu_index, wcs_key=wcs_key, blankval=blankval)", "coll = collection.load(fits, wcs_key=wcs_key, blankval=blankval)", "C20.R4")
V("C20", "cli-drops-hdu", "toasty/cli.py", "collection = SimpleFitsCollection(settings.paths, hdu_index=settings.hdu_index, wcs_key=settings.wcs_key)", "collection = SimpleFitsCollection(settings.paths, wcs_key=settings.wcs_key)", "C20.R4")
V("C20", "paths-sorted", COLL, "        self._paths = list(paths)", "        self._paths = sorted(paths)", "C20.R4")
V("C20", "P-scalar-first", COLL, "                if isinstance(self._hdu_index, int):\n                    hdu_index = self._hdu_index\n                    hdu = hdul[self._hdu_index]", "                if isinstance(self._hdu_index, int):\n                    hdu_index = self._hdu_index\n                    hdu = hdul[hdu_index]", "HOLDS")

# C03 (worker vs serial processing)
V("C03", "worker-args-swapped", TRANS, "        do_one(buf, pos, pio_in, pio_out)\n\n\n# float-to-RGB", "        do_one(buf, pos, pio_out, pio_in)\n\n\n# float-to-RGB", "C03.R2")
V("C03", "worker-callback-args", PYR, "        callback(*args)\n", "        callback(args[0], None)\n", "C03.R2")

# attribute caches (round-3 seed C08-p2): a count remembered on the tiling object
V2("C08", "P-count-memo-fresh-subtiling", [('toasty/study.py', '    def __init__(self, width, height):\n        """Set up the tiling information.\n', '    _n_populated = None\n\n    def __init__(self, width, height):\n        """Set up the tiling information.\n'), ('toasty/study.py', '        img_gx1 = self._img_gx0 + self._width - 1\n        img_gy1 = self._img_gy0 + self._height - 1\n        tile_start_tx = self._img_gx0 // 256\n        tile_start_ty = self._img_gy0 // 256\n        tile_end_tx = img_gx1 // 256\n        tile_end_ty = img_gy1 // 256\n        return (tile_end_ty + 1 - tile_start_ty) * (tile_end_tx + 1 - tile_start_tx)\n', '        if self._n_populated is None:\n            img_gx1 = self._img_gx0 + self._width - 1\n            img_gy1 = self._img_gy0 + self._height - 1\n            tile_start_tx = self._img_gx0 // 256\n            tile_start_ty = self._img_gy0 // 256\n            tile_end_tx = img_gx1 // 256\n            tile_end_ty = img_gy1 // 256\n            self._n_populated = (tile_end_ty + 1 - tile_start_ty) * (tile_end_tx + 1 - tile_start_tx)\n        return self._n_populated\n')], "HOLDS", note="memoised count; sub-tilings are constructed afresh, so their cache starts empty")
V2("C08", "count-memo-copied-subtiling", [('toasty/study.py', '    def __init__(self, width, height):\n        """Set up the tiling information.\n', '    _n_populated = None\n\n    def __init__(self, width, height):\n        """Set up the tiling information.\n'), ('toasty/study.py', '        img_gx1 = self._img_gx0 + self._width - 1\n        img_gy1 = self._img_gy0 + self._height - 1\n        tile_start_tx = self._img_gx0 // 256\n        tile_start_ty = self._img_gy0 // 256\n        tile_end_tx = img_gx1 // 256\n        tile_end_ty = img_gy1 // 256\n        return (tile_end_ty + 1 - tile_start_ty) * (tile_end_tx + 1 - tile_start_tx)\n', '        if self._n_populated is None:\n            img_gx1 = self._img_gx0 + self._width - 1\n            img_gy1 = self._img_gy0 + self._height - 1\n            tile_start_tx = self._img_gx0 // 256\n            tile_start_ty = self._img_gy0 // 256\n            tile_end_tx = img_gx1 // 256\n            tile_end_ty = img_gy1 // 256\n            self._n_populated = (tile_end_ty + 1 - tile_start_ty) * (tile_end_tx + 1 - tile_start_tx)\n        return self._n_populated\n'), ('toasty/study.py', '        sub_tiling = StudyTiling(self._width, self._height)\n', '        import copy\n        sub_tiling = copy.copy(self)\n')], "C08.R1", note="the sub-tiling is a copy of the parent and inherits its remembered count")
V2("C08", "P-count-memo-copied-reset", [('toasty/study.py', '    def __init__(self, width, height):\n        """Set up the tiling information.\n', '    _n_populated = None\n\n    def __init__(self, width, height):\n        """Set up the tiling information.\n'), ('toasty/study.py', '        img_gx1 = self._img_gx0 + self._width - 1\n        img_gy1 = self._img_gy0 + self._height - 1\n        tile_start_tx = self._img_gx0 // 256\n        tile_start_ty = self._img_gy0 // 256\n        tile_end_tx = img_gx1 // 256\n        tile_end_ty = img_gy1 // 256\n        return (tile_end_ty + 1 - tile_start_ty) * (tile_end_tx + 1 - tile_start_tx)\n', '        if self._n_populated is None:\n            img_gx1 = self._img_gx0 + self._width - 1\n            img_gy1 = self._img_gy0 + self._height - 1\n            tile_start_tx = self._img_gx0 // 256\n            tile_start_ty = self._img_gy0 // 256\n            tile_end_tx = img_gx1 // 256\n            tile_end_ty = img_gy1 // 256\n            self._n_populated = (tile_end_ty + 1 - tile_start_ty) * (tile_end_tx + 1 - tile_start_tx)\n        return self._n_populated\n'), ('toasty/study.py', '        sub_tiling = StudyTiling(self._width, self._height)\n', '        import copy\n        sub_tiling = copy.copy(self)\n        sub_tiling._n_populated = None\n')], "HOLDS", note="copy, but the remembered count is reset before the rectangle is changed")

# the liveness check moved into the try of the polling loop (round-3 seed C19-p1): fine while the handler cannot catch what it raises
V("C19", "P-check-inside-try", PYR, '                try:\n                    pos = done_queue.get(True, timeout=1)\n                except (OSError, ValueError, Empty):\n                    # OSError or ValueError => queue closed. This signal seems not to\n                    # cross multiprocess lines, though. If a worker died, the tile\n                    # that it was processing will never be reported as done.\n                    check_workers(workers, done_event)\n                    continue\n', '                try:\n                    check_workers(workers, done_event)\n                    pos = done_queue.get(True, timeout=1)\n                except (OSError, ValueError, Empty):\n                    continue\n', "HOLDS", note="check_workers raises Exception, the handler catches OSError/ValueError/Empty only")
V2("C19", "check-inside-try-swallowed", [('toasty/pyramid.py', '                try:\n                    pos = done_queue.get(True, timeout=1)\n                except (OSError, ValueError, Empty):\n                    # OSError or ValueError => queue closed. This signal seems not to\n                    # cross multiprocess lines, though. If a worker died, the tile\n                    # that it was processing will never be reported as done.\n                    check_workers(workers, done_event)\n                    continue\n', '                try:\n                    check_workers(workers, done_event)\n                    pos = done_queue.get(True, timeout=1)\n                except (OSError, ValueError, Empty):\n                    continue\n'), ('toasty/par_util.py', '            raise Exception(\n                f"a worker process failed (exit code {w.exitcode}); see its error message above"\n            )', '            raise ChildProcessError(\n                f"a worker process failed (exit code {w.exitcode}); see its error message above"\n            )')], "C19.R2", note="check_workers now raises an OSError subclass which the polling handler swallows")

# ---------------------------------------------------------------- round-6 premises (both directions)
CLI = "toasty/cli.py"
V("C03", "cancel-join-thread", TRANS, "    queue = mp.Queue(maxsize=16 * parallel)\n", "    queue = mp.Queue(maxsize=16 * parallel)\n    queue.cancel_join_thread()\n", "C03.R1")
V("C07", "coarse-grid-pixel-centres", SAMP, "        coarse_idx1 = np.linspace(0.5, naxis1 + 0.5, N_COARSE)", "        coarse_idx1 = np.linspace(1, naxis1, N_COARSE)", "C07.R6")
V("C07", "P-coarse-grid-respelled", SAMP, "        coarse_idx1 = np.linspace(0.5, naxis1 + 0.5, N_COARSE)", "        coarse_idx1 = np.linspace(0.5, 0.5 + naxis1, N_COARSE)", "HOLDS")
V("C08", "save-nan-to-num", IMG, "            np.save(path_or_stream, self.asarray())", "            np.save(path_or_stream, np.nan_to_num(self.asarray()))", "C08.R3")
V("C15", "save-nan-to-num", IMG, "            np.save(path_or_stream, self.asarray())", "            np.save(path_or_stream, np.nan_to_num(self.asarray()))", "C15.R5")
V("C15", "save-fits-astype", IMG, "            arr = self.asarray()\n\n            # Avoid annoying", "            arr = self.asarray().astype(np.float32)\n\n            # Avoid annoying", "C15.R5")
V("C15", "P-save-contiguous", IMG, "            np.save(path_or_stream, self.asarray())", "            np.save(path_or_stream, np.ascontiguousarray(self.asarray()))", "HOLDS")
V("C08", "P-save-contiguous", IMG, "            np.save(path_or_stream, self.asarray())", "            np.save(path_or_stream, np.ascontiguousarray(self.asarray()))", "HOLDS")
V("C09", "descs-reversed", MTAN, "        return self  # chaining convenience", "        self._descs.reverse()\n        return self  # chaining convenience", "C09.R8")
V("C09", "descs-filtered", MTAN, "            self._descs.append(mtdesc)\n", "            if mtdesc.crxmax > mtdesc.crxmin:\n                self._descs.append(mtdesc)\n", "C09.R8")
V("C09", "P-descs-copied", MTAN, "        return self  # chaining convenience", "        self._descs = list(self._descs)\n        return self  # chaining convenience", "HOLDS")
V("C16", "delete-lonpole", IMG, "    # Here's what we need to flip:\n", "    del h[\"LONPOLE\"]\n\n    # Here's what we need to flip:\n", "C16.R1")
V("C19", "join-before-raise", PAR, "                done_event.set()\n\n            raise Exception(", "                done_event.set()\n\n            w.join()\n            raise Exception(", "C19.R6")
V("C19", "P-join-with-timeout-before-raise", PAR, "                done_event.set()\n\n            raise Exception(", "                done_event.set()\n\n            w.join(1)\n            raise Exception(", "HOLDS")
V("C20", "search-needs-3-axes", COLL, "                            and len(hdu.shape) > 1\n", "                            and len(hdu.shape) > 2\n", "C20.R1")
V("C20", "search-accepts-1d", COLL, "                            and len(hdu.shape) > 1\n", "                            and len(hdu.shape) >= 1\n", "C20.R1")
V("C20", "P-search-ge-2", COLL, "                            and len(hdu.shape) > 1\n", "                            and len(hdu.shape) >= 2\n", "HOLDS")
V("C20", "P-search-not-lt-2", COLL, "                            and len(hdu.shape) > 1\n", "                            and not len(hdu.shape) < 2\n", "HOLDS")
V("C20", "cli-paths-sorted", CLI, "    coll = CollectionLoader.create_from_args(settings).load_paths(settings.paths)", "    coll = CollectionLoader.create_from_args(settings).load_paths(sorted(settings.paths))", "C20.R4")
V("C20", "P-cli-paths-listed", CLI, "    coll = CollectionLoader.create_from_args(settings).load_paths(settings.paths)", "    coll = CollectionLoader.create_from_args(settings).load_paths(list(settings.paths))", "HOLDS")
V("C18", "refresh-accepts-thumb", PCLI, "        if mgr._pipeio.check_exists(uniq_id, \"index.wtml\"):", "        if mgr._pipeio.check_exists(uniq_id, \"index.wtml\") or mgr._pipeio.check_exists(uniq_id, \"thumb.jpg\"):", "C18.R5")
V2("C17", "index-with-place-after-imgset", [(BLD, "            folder.children = [self.imgset]\n", "            folder.children = [self.imgset]\n            if add_place_for_toast:\n                folder.children.append(self.place)\n"),
                                             (BLD, "        if self.imgset.projection == ProjectionType.TOAST and not add_place_for_toast:", "        if self.imgset.projection == ProjectionType.TOAST:"),
                                             (FTIL, "                self.builder.place.foreground_image_set = item\n", "                self.builder.place.foreground_image_set = item\n                break\n")], "C17.R5")
V("C17", "P-loader-break-after-place", FTIL, "                self.builder.imgset = item.foreground_image_set\n", "                self.builder.imgset = item.foreground_image_set\n                break\n", "HOLDS", note="each written list has one child")
V("C07", "bounds-core-transform", SAMP, "            refined_lon = self._wcs.all_pix2world(refined_pix, 1)[:, 0]", "            refined_lon = self._wcs.wcs_pix2world(refined_pix, 1)[:, 0]", "C07.R10", note="the repaired F13, one site")

# ---------------------------------------------------------------- C06.R8 (command-line projection dispatch)
CLIPY = "toasty/cli.py"
V("C06", "cli-zeroright-not-planet", CLIPY, "        sampler = plate_carree_zeroright_sampler(img.asarray())\n        is_planet = True", "        sampler = plate_carree_zeroright_sampler(img.asarray())", "C06.R8")
V("C06", "cli-galactic-wrong-sampler", CLIPY, "        from .samplers import plate_carree_galactic_sampler\n\n        sampler = plate_carree_galactic_sampler(img.asarray())", "        from .samplers import plate_carree_sampler\n\n        sampler = plate_carree_sampler(img.asarray())", "C06.R8")
V("C06", "cli-panorama-as-planet", CLIPY, "        sampler = plate_carree_sampler(img.asarray())\n        is_pano = True", "        sampler = plate_carree_sampler(img.asarray())\n        is_planet = True", "C06.R8")
V("C06", "cli-unknown-projection-default", CLIPY, "        die(\n            \"the image projection type {!r} is not recognized\".format(\n                settings.projection\n            )\n        )\n\n    builder = Builder(pio)\n\n    # Do the thumbnail first", "        from .samplers import plate_carree_sampler\n\n        sampler = plate_carree_sampler(img.asarray())\n\n    builder = Builder(pio)\n\n    # Do the thumbnail first", "C06.R8")
V("C06", "cli-depth-plus-one", CLIPY, "    builder.toast_base(\n        sampler,\n        settings.depth,\n        is_planet=is_planet,", "    builder.toast_base(\n        sampler,\n        settings.depth + 1,\n        is_planet=is_planet,", "C06.R8")
V("C06", "P-cli-projection-table", CLIPY,
  "    if settings.projection == \"plate-carree\":\n        from .samplers import plate_carree_sampler\n\n        sampler = plate_carree_sampler(img.asarray())\n    elif settings.projection == \"plate-carree-galactic\":",
  "    if settings.projection in (\"plate-carree\",):\n        from .samplers import plate_carree_sampler\n\n        data = img.asarray()\n        sampler = plate_carree_sampler(data)\n    elif \"plate-carree-galactic\" == settings.projection:", "HOLDS")
V("C06", "P-cli-flags-keywords", CLIPY, "    builder.toast_base(\n        sampler,\n        settings.depth,\n        is_planet=is_planet,\n        is_pano=is_pano,", "    builder.toast_base(\n        sampler=sampler,\n        depth=settings.depth,\n        is_pano=is_pano,\n        is_planet=is_planet,", "HOLDS")

# ---------------------------------------------------------------- C06.R9 (Builder.toast_base)
V("C06", "toastbase-coordsys-swapped", BLD, "            ToastCoordinateSystem.PLANETARY\n            if is_planet\n            else ToastCoordinateSystem.ASTRONOMICAL", "            ToastCoordinateSystem.ASTRONOMICAL\n            if is_planet\n            else ToastCoordinateSystem.PLANETARY", "C06.R9")
V("C06", "toastbase-explicit-coordsys-ignored", BLD, "        coordsys = kwargs.pop(\"coordsys\", coordsys)", "        kwargs.pop(\"coordsys\", None)", "C06.R9")
V("C06", "toastbase-planet-published-as-sky", BLD, "        if is_planet:\n            self.imgset.data_set_type = DataSetType.PLANET\n        elif is_pano:", "        if is_pano:", "C06.R9")
V("C06", "toastbase-filtered-no-coordsys", BLD, "                pio=self.pio, sampler=sampler, depth=depth, coordsys=coordsys, **kwargs", "                pio=self.pio, sampler=sampler, depth=depth, **kwargs", "C06.R9")
V("C06", "P-toastbase-guard-style", BLD, "        coordsys = (\n            ToastCoordinateSystem.PLANETARY\n            if is_planet\n            else ToastCoordinateSystem.ASTRONOMICAL\n        )\n        coordsys = kwargs.pop(\"coordsys\", coordsys)", "        if is_planet:\n            default_cs = ToastCoordinateSystem.PLANETARY\n        else:\n            default_cs = ToastCoordinateSystem.ASTRONOMICAL\n        coordsys = kwargs.pop(\"coordsys\", default_cs)", "HOLDS")

# ---------------------------------------------------------------- round-7 premises: preserving twins and minimal breaking forms
V2("C04", "P-mid-pure-passthrough", [(TOAST, "from ._libtoasty import subsample, mid\n", "from ._libtoasty import subsample, mid as _compiled_mid\n\n\ndef mid(a, b):\n    return _compiled_mid(a, b)\n")], "HOLDS")
V2("C04", "mid-python-standin", [(TOAST, "from ._libtoasty import subsample, mid\n", "from ._libtoasty import subsample, mid as _compiled_mid\n\n\ndef mid(a, b):\n    if a[1] == b[1]:\n        return 0.5 * (a[0] + b[0]), a[1]\n    return _compiled_mid(a, b)\n")], "C04.R3")
V("C15", "P-asarray-through-local", IMG, "            self._array = np.asarray(self._pil)\n        return self._array\n", "            self._array = np.asarray(self._pil)\n        arr = self._array\n        return arr\n", "HOLDS")
V("C15", "asarray-returns-copy", IMG, "            self._array = np.asarray(self._pil)\n        return self._array\n", "            self._array = np.asarray(self._pil)\n        return self._array.copy()\n", "C15.R6")
V("C19", "join-loop-drops-entries", PAR, "    for w in workers:\n        w.join()\n", "    for w in workers:\n        w.join()\n        if w.exitcode == 0:\n            workers.remove(w)\n", "C19.R6")
V("C19", "P-join-loop-over-copy", PAR, "    for w in workers:\n        w.join()\n", "    for w in list(workers):\n        w.join()\n", "HOLDS")
V("C20", "P-load-loop-untouched-shape", COLL, "        for fits_path, _hdu_index, hdu, wcs_key in self._scan_hdus():", "        scanned = self._scan_hdus()\n        for fits_path, _hdu_index, hdu, wcs_key in scanned:", "HOLDS")

# F15 (open): the repaired form of the range reducer must be accepted silently
V2("C14", "P-save-range-over-finite-pixels", [(IMG, "                    m = np.nanmin(arr)\n", "                    m = np.nanmin(np.where(np.isinf(arr), np.nan, arr))\n"), (IMG, "                    m = np.nanmax(arr)\n", "                    m = np.nanmax(np.where(np.isinf(arr), np.nan, arr))\n")], "HOLDS", "the two-line repair of F15")

# F16 (open): the clause is silent once the workers' status is inspected between the last put and the feeder join
V2("C19", "P-status-check-before-feeder-join", [(MTAN, "        from .par_util import join_workers, put_to_workers\n", "        from .par_util import check_workers, join_workers, put_to_workers\n"),
                                               (MTAN, "        queue.close()\n        queue.join_thread()\n        done_event.set()\n        join_workers(workers)\n", "        check_workers(workers, done_event)\n        queue.close()\n        queue.join_thread()\n        done_event.set()\n        join_workers(workers)\n")], "HOLDS", "exercises the holds branch of the feeder-join clause (not a complete repair of F16)")
