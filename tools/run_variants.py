#!/venv/bin/python
"""Run selected hand-written self-test variants: run_variants.py C06 [substring]"""
import os, sys
sys.path.insert(0, os.path.dirname(os.path.dirname(os.path.abspath(__file__))))
from selftest import harness, variants
prop = sys.argv[1]; sub = sys.argv[2] if len(sys.argv) > 2 else ""
bad = 0
for v in variants.VARIANTS:
    if v["prop"] == prop and sub in v["id"]:
        r = harness.run_variant(("/repo", v))
        print(r[0], r[1], r[2][:220])
        bad += r[1] == "fail"
sys.exit(1 if bad else 0)
