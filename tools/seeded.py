#!/venv/bin/python
"""Run the checks against seeded breaking changes.

usage: seeded.py [--dir /verif/seeded] [--only C03] [--all-props] [-v]

For every <dir>/<id>/patch.diff: a scratch copy of /repo's tracked sources is
made under a temporary directory (outside /repo and /verif), the patch is
applied there, the check of the broken property (and, with --all-props, every
other property: they must stay silent) is run with --repo <copy> --no-write,
and the copy is removed.  Nothing is written to /repo.
"""
import argparse
import json
import os
import shutil
import subprocess
import sys
import tempfile
from concurrent.futures import ThreadPoolExecutor

HERE = os.path.dirname(os.path.dirname(os.path.abspath(__file__)))
PY = sys.executable


def make_copy(repo, patch):
    tmp = tempfile.mkdtemp(prefix="seedchk_", dir="/var/tmp")
    subprocess.run("git -C %s archive HEAD toasty | tar -x -C %s" % (repo, tmp), shell=True, check=True)
    r = subprocess.run(["git", "apply", "--unsafe-paths", "--directory=" + tmp, patch], capture_output=True, text=True, cwd="/")
    if r.returncode != 0:
        r2 = subprocess.run(["patch", "-p1", "-d", tmp, "-i", patch], capture_output=True, text=True)
        if r2.returncode != 0:
            shutil.rmtree(tmp)
            return None, r.stderr + r2.stdout
    return tmp, ""


def run_check(prop, repo_copy):
    r = subprocess.run([PY, os.path.join(HERE, "check.py"), "--property", prop, "--repo", repo_copy, "--no-write"],
                       capture_output=True, text=True)
    return r.returncode, r.stdout


def one(item, args, props):
    sid, d = item
    meta = json.load(open(os.path.join(d, "meta.json")))
    prop = meta["property"]
    tmp, err = make_copy(args.repo, os.path.join(d, "patch.diff"))
    if tmp is None:
        return sid, prop, "PATCH-FAILED", err, {}
    try:
        code, out = run_check(prop, tmp)
        others = {}
        if args.all_props:
            for p in props:
                if p != prop:
                    c, o = run_check(p, tmp)
                    if c != 0:
                        others[p] = (c, [l for l in o.splitlines() if l.startswith(("VIOLATION", "ANALYSIS-ERROR", "  "))][:4])
        return sid, prop, code, out, others
    finally:
        shutil.rmtree(tmp, ignore_errors=True)


def main():
    ap = argparse.ArgumentParser()
    ap.add_argument("--dir", default=os.path.join(HERE, "seeded"))
    ap.add_argument("--repo", default="/repo")
    ap.add_argument("--only")
    ap.add_argument("--all-props", action="store_true")
    ap.add_argument("--expect-clean", action="store_true", help="the patches are behaviour-preserving: every check must exit 0")
    ap.add_argument("-v", action="store_true")
    args = ap.parse_args()
    items = []
    for sid in sorted(os.listdir(args.dir)):
        d = os.path.join(args.dir, sid)
        if os.path.exists(os.path.join(d, "patch.diff")) and os.path.exists(os.path.join(d, "meta.json")):
            if args.only and not sid.startswith(args.only):
                continue
            items.append((sid, d))
    props = ["C%02d" % i for i in range(1, 21) if os.path.exists(os.path.join(HERE, "rules", "C%02d.py" % i))]
    caught = missed = 0
    with ThreadPoolExecutor(14) as ex:
        for sid, prop, code, out, others in ex.map(lambda it: one(it, args, props), items):
            if args.expect_clean:
                status = {1: "FALSE-ALARM", 0: "silent", 2: "undecided"}.get(code, str(code))
                caught += code == 0
                missed += code != 0
            else:
                status = {1: "CAUGHT", 0: "missed", 2: "undecided"}.get(code, str(code))
                caught += code == 1
                missed += code != 1
            first = ""
            for l in out.splitlines():
                if l.startswith("  C") or l.startswith("ANALYSIS-ERROR"):
                    first = l.strip()[:200]
                    break
            print("%-10s %s %-9s %s" % (sid, prop, status, first))
            if args.v:
                print(out)
            for p, (c, ls) in others.items():
                print("    also %s exit %d: %s" % (p, c, " | ".join(ls)[:300]))
    print("%s %d / %d" % ("silent" if args.expect_clean else "caught", caught, caught + missed))


if __name__ == "__main__":
    main()
