#!/usr/bin/env python3
"""Run every property's check on every behaviour-preserving change of /verif/refactors (all of them must stay clear of VIOLATED for
all 20 properties) and print / rewrite the list of (refactor, property) pairs the checks answer UNDECIDED on.

    tools/refactor_matrix.py            # report; exit 1 if any pair is VIOLATED
    tools/refactor_matrix.py --write    # also rewrite refactors/EXPECTED_UNDECIDED.json from what was observed
"""
import glob
import json
import os
import sys
from concurrent.futures import ProcessPoolExecutor

HERE = os.path.dirname(os.path.dirname(os.path.abspath(__file__)))
sys.path.insert(0, HERE)
from selftest.harness import run_variant, _patched_overrides          # noqa: E402


def main():
    repo = "/repo"
    write = "--write" in sys.argv
    only = [a for a in sys.argv[1:] if not a.startswith("--")]
    jobs = []
    for d in sorted(glob.glob(os.path.join(HERE, "refactors", "C*-*"))):
        rid = os.path.basename(d)
        if only and not any(rid.startswith(o) for o in only):
            continue
        ov = _patched_overrides(repo, os.path.join(d, "patch.diff"))
        for i in range(1, 21):
            jobs.append((repo, dict(prop="C%02d" % i, id="%s/C%02d" % (rid, i), overrides=ov, expect="HOLDS")))
    res = {}
    with ProcessPoolExecutor(min(16, os.cpu_count() or 4)) as ex:
        for vid, status, msg in ex.map(run_variant, jobs, chunksize=4):
            if status != "ok":
                rid, prop = vid.split("/")
                body = msg.split(":", 1)[1] if ":" in msg else msg
                kind = "VIOLATED" if "VIOLATED" in body[:40] else ("PATCH-FAILED" if (status == "skipped" or "not found exactly once" in msg) else "UNDECIDED")
                res.setdefault(rid, {})[prop] = (kind, body.strip()[:160])
    nv = sum(1 for r in res.values() for k, m in r.values() if k == "VIOLATED")
    nu = sum(1 for r in res.values() for k, m in r.values() if k == "UNDECIDED")
    nref = len({j[1]["id"].split("/")[0] for j in jobs})
    npf = sorted({rid for rid, r in res.items() for k, m in r.values() if k == "PATCH-FAILED"})
    if npf:
        print("PATCH-FAILED (the stored patch does not apply to /repo any more):", " ".join(npf))
        nv += len(npf)
    print("%d refactors x 20 properties: %d pairs VIOLATED, %d pairs UNDECIDED (%d refactors), rest silent" % (nref, nv, nu, len(res)))
    for rid, r in sorted(res.items()):
        for p, (k, m) in sorted(r.items()):
            if k == "VIOLATED":
                print("FALSE-ALARM", rid, p, m[:200])
    if write and not only:
        out = {rid: {p: m.replace("UNDECIDED ", "", 1) for p, (k, m) in sorted(r.items()) if k == "UNDECIDED"} for rid, r in sorted(res.items())}
        out = {k: v for k, v in out.items() if v}
        json.dump(out, open(os.path.join(HERE, "refactors", "EXPECTED_UNDECIDED.json"), "w"), indent=1)
        print("wrote refactors/EXPECTED_UNDECIDED.json: %d refactors, %d pairs" % (len(out), sum(len(v) for v in out.values())))
    return 1 if nv else 0


if __name__ == "__main__":
    sys.exit(main())
