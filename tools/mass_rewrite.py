#!/venv/bin/python
"""Mechanical behaviour-preserving rewrites of the whole package, to test that no check depends on spelling.

usage: mass_rewrite.py <scratch dir with a copy of toasty/> <transform>[,<transform>...]
transforms:
  invert-if    `if c: A else: B`            -> `if not c: B else: A`
  flip-cmp     `a < b` -> `b > a`, `a == b` -> `b == a`, `a != b` -> `b != a` (single comparisons, constants moved left)
  guard        a trailing `if c: BODY` of a function or loop body -> `if not c: return|continue` + BODY
  rename       every local variable v of every function (not parameters) -> v_ (closures included)
  kwargs       positional arguments of calls to same-module functions -> keywords (where the signature is known)
Nothing under /repo or /verif is written: the caller gives a scratch copy.
"""
import ast
import glob
import os
import sys


class InvertIf(ast.NodeTransformer):
    def visit_If(self, n):
        self.generic_visit(n)
        if n.orelse and not (len(n.orelse) == 1 and isinstance(n.orelse[0], ast.If)):
            n.test = ast.UnaryOp(op=ast.Not(), operand=n.test)
            n.body, n.orelse = n.orelse, n.body
        return n


FLIP = {ast.Lt: ast.Gt, ast.Gt: ast.Lt, ast.LtE: ast.GtE, ast.GtE: ast.LtE, ast.Eq: ast.Eq, ast.NotEq: ast.NotEq}


class FlipCmp(ast.NodeTransformer):
    def visit_Compare(self, n):
        self.generic_visit(n)
        if len(n.ops) == 1 and type(n.ops[0]) in FLIP:
            return ast.Compare(left=n.comparators[0], ops=[FLIP[type(n.ops[0])]()], comparators=[n.left])
        return n


class Guard(ast.NodeTransformer):
    def _rewrite(self, body, leave):
        if body and isinstance(body[-1], ast.If) and not body[-1].orelse and len(body) >= 1:
            last = body[-1]
            has_yield = any(isinstance(x, (ast.Yield, ast.YieldFrom)) for x in ast.walk(last))
            guard = ast.If(test=ast.UnaryOp(op=ast.Not(), operand=last.test), body=[leave()], orelse=[])
            return body[:-1] + [guard] + last.body
        return body

    def visit_FunctionDef(self, n):
        self.generic_visit(n)
        is_gen = any(isinstance(x, (ast.Yield, ast.YieldFrom)) for x in ast.walk(n))
        n.body = self._rewrite(n.body, lambda: ast.Return(value=None))
        return n

    def visit_For(self, n):
        self.generic_visit(n)
        if not n.orelse:
            n.body = self._rewrite(n.body, lambda: ast.Continue())
        return n

    def visit_While(self, n):
        self.generic_visit(n)
        if not n.orelse:
            n.body = self._rewrite(n.body, lambda: ast.Continue())
        return n


def _locals_of(fn):
    params = {a.arg for a in fn.args.posonlyargs + fn.args.args + fn.args.kwonlyargs}
    if fn.args.vararg:
        params.add(fn.args.vararg.arg)
    if fn.args.kwarg:
        params.add(fn.args.kwarg.arg)
    assigned = set()
    declared = set()

    def walk(node, top=True):
        for ch in ast.iter_child_nodes(node):
            if isinstance(ch, (ast.FunctionDef, ast.AsyncFunctionDef, ast.Lambda, ast.ClassDef)):
                if isinstance(ch, (ast.FunctionDef, ast.AsyncFunctionDef, ast.ClassDef)):
                    declared.add(ch.name)
                continue
            if isinstance(ch, ast.Name) and isinstance(ch.ctx, (ast.Store, ast.Del)):
                assigned.add(ch.id)
            if isinstance(ch, (ast.Global, ast.Nonlocal)):
                declared.update(ch.names)
            if isinstance(ch, (ast.Import, ast.ImportFrom)):
                for a in ch.names:
                    declared.add((a.asname or a.name).split(".")[0])
            if isinstance(ch, ast.ExceptHandler) and ch.name:
                declared.add(ch.name)
            walk(ch, False)
    walk(fn)
    return {v for v in assigned - params - declared if not v.startswith("__")}


class Rename(ast.NodeTransformer):
    """Rename the locals of each *top-level* function or method throughout its subtree (nested closures see the new name),
    unless a nested function binds the same name itself."""

    def _nested_binds(self, fn):
        out = set()
        for x in ast.walk(fn):
            if x is fn:
                continue
            if isinstance(x, (ast.FunctionDef, ast.AsyncFunctionDef, ast.Lambda)):
                a = x.args
                out |= {p.arg for p in a.posonlyargs + a.args + a.kwonlyargs}
                if a.vararg:
                    out.add(a.vararg.arg)
                if a.kwarg:
                    out.add(a.kwarg.arg)
                if not isinstance(x, ast.Lambda):
                    out |= _locals_of(x)
            if isinstance(x, (ast.ListComp, ast.SetComp, ast.DictComp, ast.GeneratorExp)):
                pass
        return out

    def visit_FunctionDef(self, n):
        names = _locals_of(n) - self._nested_binds(n)
        if names:
            class R(ast.NodeTransformer):
                def visit_Name(s, x):
                    if x.id in names:
                        x.id = x.id + "_"
                    return x
            R().visit(n)
        return n        # nested functions already handled through the outer subtree

    def visit_ClassDef(self, n):
        self.generic_visit(n)
        return n


class Kwargs(ast.NodeTransformer):
    def __init__(self, sigs):
        self.sigs = sigs

    def visit_Call(self, n):
        self.generic_visit(n)
        if isinstance(n.func, ast.Name) and n.func.id in self.sigs and not any(isinstance(a, ast.Starred) for a in n.args) \
                and not any(k.arg is None for k in n.keywords):
            params = self.sigs[n.func.id]
            if len(n.args) <= len(params):
                kws = [ast.keyword(arg=p, value=a) for p, a in zip(params, n.args)]
                n.keywords = kws + n.keywords
                n.args = []
        return n


TRANSFORMS = ("invert-if", "flip-cmp", "guard", "rename", "kwargs")


def rewrite_source(src, names):
    """The source text after the named transforms (in order)."""
    tree = ast.parse(src)
    if True:
        for t in names:
            if t == "invert-if":
                tree = InvertIf().visit(tree)
            elif t == "flip-cmp":
                tree = FlipCmp().visit(tree)
            elif t == "guard":
                tree = Guard().visit(tree)
            elif t == "rename":
                tree = Rename().visit(tree)
            elif t == "kwargs":
                sigs = {}
                for n in tree.body:
                    if isinstance(n, ast.FunctionDef) and not n.args.vararg and not n.args.kwarg and not n.args.posonlyargs and not n.decorator_list:
                        sigs[n.name] = [a.arg for a in n.args.args]
                tree = Kwargs(sigs).visit(tree)
            else:
                raise SystemExit("unknown transform " + t)
    ast.fix_missing_locations(tree)
    return ast.unparse(tree) + "\n"


def rewrite_tree(root, names):
    """{relative path: rewritten text} for every non-test module under <root>/toasty."""
    out = {}
    for p in sorted(glob.glob(os.path.join(root, "toasty", "**", "*.py"), recursive=True)):
        if "/tests/" in p:
            continue
        out[os.path.relpath(p, root)] = rewrite_source(open(p, encoding="utf8").read(), names)
    return out


def main():
    root, names = sys.argv[1], sys.argv[2].split(",")
    for rel, text in rewrite_tree(root, names).items():
        open(os.path.join(root, rel), "w").write(text)


if __name__ == "__main__":
    main()
