#!/venv/bin/python
"""Mechanical behaviour-preserving rewrites of the whole package, to test that no check depends on spelling.

usage: mass_rewrite.py <scratch dir with a copy of toasty/> <transform>[,<transform>...]
transforms:
  invert-if    `if c: A else: B`            -> `if not c: B else: A`
  flip-cmp     `a < b` -> `b > a`, `a == b` -> `b == a`, `a != b` -> `b != a` (single comparisons, constants moved left)
  guard        a trailing `if c: BODY` of a function or loop body -> `if not c: return|continue` + BODY
  rename       every local variable v of every function (not parameters) -> v_ (closures included)
  kwargs       positional arguments of calls to same-module functions -> keywords (where the signature is known)
  demorgan     `a and b` in test position -> `not (not a or not b)` (and dually)
  comp-loop    `x = [E for v in IT if C]` -> `x = []` + `for`/`if`/`append`
  ifexp-stmt   `x = A if C else B` -> if/else statement
  else-after-exit  `if C: ...; return` + REST -> the REST moves into an `else:`
  chain-cmp    `a <= b < c` -> `a <= b and b < c`
  swap-mul     operands of `*`, `&`, `|` swapped (call-free operands)
  temps        call-valued arguments hoisted into temporaries
Nothing under /repo or /verif is written: the caller gives a scratch copy.
"""
import ast
import glob
import os
import sys


class InvertIf(ast.NodeTransformer):
    def visit_If(self, n):
        self.generic_visit(n)
        if n.orelse and not (len(n.orelse) == 1 and isinstance(n.orelse[0], ast.If)):
            n.test = ast.UnaryOp(op=ast.Not(), operand=n.test)
            n.body, n.orelse = n.orelse, n.body
        return n


FLIP = {ast.Lt: ast.Gt, ast.Gt: ast.Lt, ast.LtE: ast.GtE, ast.GtE: ast.LtE, ast.Eq: ast.Eq, ast.NotEq: ast.NotEq}


class FlipCmp(ast.NodeTransformer):
    def visit_Compare(self, n):
        self.generic_visit(n)
        if len(n.ops) == 1 and type(n.ops[0]) in FLIP:
            return ast.Compare(left=n.comparators[0], ops=[FLIP[type(n.ops[0])]()], comparators=[n.left])
        return n


class Guard(ast.NodeTransformer):
    def _rewrite(self, body, leave):
        if body and isinstance(body[-1], ast.If) and not body[-1].orelse and len(body) >= 1:
            last = body[-1]
            has_yield = any(isinstance(x, (ast.Yield, ast.YieldFrom)) for x in ast.walk(last))
            guard = ast.If(test=ast.UnaryOp(op=ast.Not(), operand=last.test), body=[leave()], orelse=[])
            return body[:-1] + [guard] + last.body
        return body

    def visit_FunctionDef(self, n):
        self.generic_visit(n)
        is_gen = any(isinstance(x, (ast.Yield, ast.YieldFrom)) for x in ast.walk(n))
        n.body = self._rewrite(n.body, lambda: ast.Return(value=None))
        return n

    def visit_For(self, n):
        self.generic_visit(n)
        if not n.orelse:
            n.body = self._rewrite(n.body, lambda: ast.Continue())
        return n

    def visit_While(self, n):
        self.generic_visit(n)
        if not n.orelse:
            n.body = self._rewrite(n.body, lambda: ast.Continue())
        return n


def _locals_of(fn):
    params = {a.arg for a in fn.args.posonlyargs + fn.args.args + fn.args.kwonlyargs}
    if fn.args.vararg:
        params.add(fn.args.vararg.arg)
    if fn.args.kwarg:
        params.add(fn.args.kwarg.arg)
    assigned = set()
    declared = set()

    def walk(node, top=True):
        for ch in ast.iter_child_nodes(node):
            if isinstance(ch, (ast.FunctionDef, ast.AsyncFunctionDef, ast.Lambda, ast.ClassDef)):
                if isinstance(ch, (ast.FunctionDef, ast.AsyncFunctionDef, ast.ClassDef)):
                    declared.add(ch.name)
                continue
            if isinstance(ch, ast.Name) and isinstance(ch.ctx, (ast.Store, ast.Del)):
                assigned.add(ch.id)
            if isinstance(ch, (ast.Global, ast.Nonlocal)):
                declared.update(ch.names)
            if isinstance(ch, (ast.Import, ast.ImportFrom)):
                for a in ch.names:
                    declared.add((a.asname or a.name).split(".")[0])
            if isinstance(ch, ast.ExceptHandler) and ch.name:
                declared.add(ch.name)
            walk(ch, False)
    walk(fn)
    return {v for v in assigned - params - declared if not v.startswith("__")}


class Rename(ast.NodeTransformer):
    """Rename the locals of each *top-level* function or method throughout its subtree (nested closures see the new name),
    unless a nested function binds the same name itself."""

    def _nested_binds(self, fn):
        out = set()
        for x in ast.walk(fn):
            if x is fn:
                continue
            if isinstance(x, (ast.FunctionDef, ast.AsyncFunctionDef, ast.Lambda)):
                a = x.args
                out |= {p.arg for p in a.posonlyargs + a.args + a.kwonlyargs}
                if a.vararg:
                    out.add(a.vararg.arg)
                if a.kwarg:
                    out.add(a.kwarg.arg)
                if not isinstance(x, ast.Lambda):
                    out |= _locals_of(x)
            if isinstance(x, (ast.ListComp, ast.SetComp, ast.DictComp, ast.GeneratorExp)):
                pass
        return out

    def visit_FunctionDef(self, n):
        names = _locals_of(n) - self._nested_binds(n)
        if names:
            class R(ast.NodeTransformer):
                def visit_Name(s, x):
                    if x.id in names:
                        x.id = x.id + "_"
                    return x
            R().visit(n)
        return n        # nested functions already handled through the outer subtree

    def visit_ClassDef(self, n):
        self.generic_visit(n)
        return n


class Kwargs(ast.NodeTransformer):
    def __init__(self, sigs):
        self.sigs = sigs

    def visit_Call(self, n):
        self.generic_visit(n)
        if isinstance(n.func, ast.Name) and n.func.id in self.sigs and not any(isinstance(a, ast.Starred) for a in n.args) \
                and not any(k.arg is None for k in n.keywords):
            params = self.sigs[n.func.id]
            if len(n.args) <= len(params):
                kws = [ast.keyword(arg=p, value=a) for p, a in zip(params, n.args)]
                n.keywords = kws + n.keywords
                n.args = []
        return n


class DeMorgan(ast.NodeTransformer):
    """In test position only (where only the truth value matters): `a and b` -> `not (not a or not b)`, `a or b` -> `not (not a and not b)`."""
    def _test(self, t):
        if isinstance(t, ast.BoolOp):
            other = ast.Or() if isinstance(t.op, ast.And) else ast.And()
            return ast.UnaryOp(op=ast.Not(), operand=ast.BoolOp(op=other, values=[ast.UnaryOp(op=ast.Not(), operand=v) for v in t.values]))
        return t

    def visit_If(self, n):
        self.generic_visit(n)
        n.test = self._test(n.test)
        return n

    def visit_While(self, n):
        self.generic_visit(n)
        n.test = self._test(n.test)
        return n

    def visit_IfExp(self, n):
        self.generic_visit(n)
        n.test = self._test(n.test)
        return n


class _Blocks(ast.NodeTransformer):
    """Base: rewrite every statement list of function bodies through self.block(stmts)."""
    def block(self, stmts):
        return stmts

    def generic_visit(self, n):
        super().generic_visit(n)
        if self._depth > 0:
            for fld in ("body", "orelse", "finalbody"):
                v = getattr(n, fld, None)
                if isinstance(v, list) and v and isinstance(v[0], ast.stmt):
                    setattr(n, fld, self.block(v))
        return n

    _depth = 0

    def visit_FunctionDef(self, n):
        self._depth += 1
        try:
            return self.generic_visit(n)
        finally:
            self._depth -= 1


class CompLoop(_Blocks):
    """`x = [E for v in IT if C]` (one generator, Name target and Name loop variable) -> `x = []` + loop with append. The loop variable
    gets a fresh name because a comprehension variable does not leak into the function."""
    counter = 0

    def block(self, stmts):
        out = []
        for s in stmts:
            if isinstance(s, ast.Assign) and len(s.targets) == 1 and isinstance(s.targets[0], ast.Name) and isinstance(s.value, ast.ListComp) \
                    and len(s.value.generators) == 1 and isinstance(s.value.generators[0].target, ast.Name) and not s.value.generators[0].is_async:
                g = s.value.generators[0]
                tgt = s.targets[0].id
                names = {x.id for x in ast.walk(s.value) if isinstance(x, ast.Name)}
                if tgt in names or any(isinstance(x, (ast.Lambda, ast.ListComp, ast.GeneratorExp, ast.SetComp, ast.DictComp, ast.NamedExpr, ast.Yield, ast.Await))
                                       for x in ast.walk(s.value) if x is not s.value):
                    out.append(s)
                    continue
                CompLoop.counter += 1
                fresh = "%s_c%d" % (g.target.id, CompLoop.counter)

                class R(ast.NodeTransformer):
                    def visit_Name(self, x):
                        return ast.copy_location(ast.Name(id=fresh, ctx=x.ctx), x) if x.id == g.target.id else x
                elt = R().visit(s.value.elt)
                conds = [R().visit(c) for c in g.ifs]
                body = [ast.Expr(value=ast.Call(func=ast.Attribute(value=ast.Name(id=tgt, ctx=ast.Load()), attr="append", ctx=ast.Load()), args=[elt], keywords=[]))]
                for c in reversed(conds):
                    body = [ast.If(test=c, body=body, orelse=[])]
                out.append(ast.Assign(targets=[ast.Name(id=tgt, ctx=ast.Store())], value=ast.List(elts=[], ctx=ast.Load())))
                out.append(ast.For(target=ast.Name(id=fresh, ctx=ast.Store()), iter=g.iter, body=body, orelse=[]))
            else:
                out.append(s)
        return out


class IfExpStmt(_Blocks):
    """`x = A if C else B` -> `if C: x = A` / `else: x = B` (Name target)."""
    def block(self, stmts):
        out = []
        for s in stmts:
            if isinstance(s, ast.Assign) and len(s.targets) == 1 and isinstance(s.targets[0], ast.Name) and isinstance(s.value, ast.IfExp):
                t = s.targets[0].id
                out.append(ast.If(test=s.value.test, body=[ast.Assign(targets=[ast.Name(id=t, ctx=ast.Store())], value=s.value.body)],
                                  orelse=[ast.Assign(targets=[ast.Name(id=t, ctx=ast.Store())], value=s.value.orelse)]))
            else:
                out.append(s)
        return out


class ElseAfterExit(_Blocks):
    """`if C: ...; return` followed by REST -> `if C: ...; return` / `else: REST` (the inverse of a guard clause)."""
    def block(self, stmts):
        for i, s in enumerate(stmts[:-1]):
            if isinstance(s, ast.If) and not s.orelse and isinstance(s.body[-1], (ast.Return, ast.Raise, ast.Continue, ast.Break)):
                rest = stmts[i + 1:]
                # a nested def / global statement in the rest is left alone
                if any(isinstance(x, (ast.FunctionDef, ast.ClassDef, ast.Global, ast.Nonlocal)) for x in rest):
                    break
                s.orelse = self.block(rest)
                return stmts[:i + 1]
        return stmts


class ChainCmp(ast.NodeTransformer):
    """`a <= b < c` -> `a <= b and b < c` when the middle operands are names, attributes of names or constants."""
    def visit_Compare(self, n):
        self.generic_visit(n)
        if len(n.ops) < 2:
            return n
        def simple(x):
            return isinstance(x, (ast.Name, ast.Constant)) or (isinstance(x, ast.Attribute) and isinstance(x.value, ast.Name))
        if not all(simple(c) for c in n.comparators[:-1]):
            return n
        parts, left = [], n.left
        for op, c in zip(n.ops, n.comparators):
            parts.append(ast.Compare(left=left, ops=[op], comparators=[c]))
            left = c
        return ast.BoolOp(op=ast.And(), values=parts)


class SwapMul(ast.NodeTransformer):
    """`a * b` -> `b * a`, `a & b` -> `b & a`, `a | b` -> `b | a` when both operands are free of calls (no evaluation-order effect)."""
    def visit_BinOp(self, n):
        self.generic_visit(n)
        if isinstance(n.op, (ast.Mult, ast.BitAnd, ast.BitOr)) and not any(isinstance(x, (ast.Call, ast.Yield, ast.Await, ast.NamedExpr)) for x in ast.walk(n)):
            n.left, n.right = n.right, n.left
        return n


class Temps(_Blocks):
    """Hoist call-valued arguments of the call in `x = f(..)`, `return f(..)` and `f(..)` statements into temporaries, left to right."""
    counter = 0

    def block(self, stmts):
        out = []
        for s in stmts:
            call = None
            if isinstance(s, (ast.Assign, ast.Return, ast.Expr)) and isinstance(s.value, ast.Call):
                call = s.value
            if call is None or not isinstance(call.func, (ast.Name, ast.Attribute)) or any(isinstance(a, ast.Starred) for a in call.args) \
                    or any(k.arg is None for k in call.keywords):
                out.append(s)
                continue
            # left to right: stop at the first argument that is not hoisted but could observe an effect (anything but names/constants)
            def pure(a):
                return isinstance(a, (ast.Name, ast.Constant)) or (isinstance(a, ast.UnaryOp) and isinstance(a.operand, ast.Constant))
            args = list(call.args) + [k.value for k in call.keywords]
            new = []
            ok = True
            for a in args:
                if pure(a):
                    new.append(a)
                elif ok and isinstance(a, ast.Call) and not any(isinstance(x, (ast.Yield, ast.Await, ast.NamedExpr, ast.Lambda)) for x in ast.walk(a)):
                    Temps.counter += 1
                    nm = "tmp_h%d" % Temps.counter
                    out.append(ast.Assign(targets=[ast.Name(id=nm, ctx=ast.Store())], value=a))
                    new.append(ast.Name(id=nm, ctx=ast.Load()))
                else:
                    ok = False
                    new.append(a)
            call.args = new[:len(call.args)]
            for k, v in zip(call.keywords, new[len(call.args):]):
                k.value = v
            out.append(s)
        return out



TRANSFORMS = ("invert-if", "flip-cmp", "guard", "rename", "kwargs", "demorgan", "comp-loop", "ifexp-stmt", "else-after-exit", "chain-cmp", "swap-mul", "temps")


# combinations replayed by the self-test besides each single transform
COMBOS = (
    ("invert-if", "flip-cmp", "rename", "kwargs", "demorgan", "comp-loop", "ifexp-stmt", "chain-cmp", "swap-mul", "temps", "guard"),
    ("else-after-exit", "invert-if", "demorgan", "rename"),
    ("temps", "rename", "kwargs", "flip-cmp"),
)


def rewrite_source(src, names):
    """The source text after the named transforms (in order)."""
    tree = ast.parse(src)
    if True:
        for t in names:
            if t == "invert-if":
                tree = InvertIf().visit(tree)
            elif t == "flip-cmp":
                tree = FlipCmp().visit(tree)
            elif t == "guard":
                tree = Guard().visit(tree)
            elif t == "rename":
                tree = Rename().visit(tree)
            elif t == "kwargs":
                sigs = {}
                for n in tree.body:
                    if isinstance(n, ast.FunctionDef) and not n.args.vararg and not n.args.kwarg and not n.args.posonlyargs and not n.decorator_list:
                        sigs[n.name] = [a.arg for a in n.args.args]
                tree = Kwargs(sigs).visit(tree)
            elif t == "demorgan":
                tree = DeMorgan().visit(tree)
            elif t == "comp-loop":
                tree = CompLoop().visit(tree)
            elif t == "ifexp-stmt":
                tree = IfExpStmt().visit(tree)
            elif t == "else-after-exit":
                tree = ElseAfterExit().visit(tree)
            elif t == "chain-cmp":
                tree = ChainCmp().visit(tree)
            elif t == "swap-mul":
                tree = SwapMul().visit(tree)
            elif t == "temps":
                tree = Temps().visit(tree)
            else:
                raise SystemExit("unknown transform " + t)
    ast.fix_missing_locations(tree)
    return ast.unparse(tree) + "\n"


def rewrite_tree(root, names):
    """{relative path: rewritten text} for every non-test module under <root>/toasty."""
    out = {}
    for p in sorted(glob.glob(os.path.join(root, "toasty", "**", "*.py"), recursive=True)):
        if "/tests/" in p:
            continue
        out[os.path.relpath(p, root)] = rewrite_source(open(p, encoding="utf8").read(), names)
    return out


def main():
    root, names = sys.argv[1], sys.argv[2].split(",")
    for rel, text in rewrite_tree(root, names).items():
        open(os.path.join(root, rel), "w").write(text)


if __name__ == "__main__":
    main()
