#!/venv/bin/python
"""Take a finished sub-agent worktree into /verif/seeded: confirm each out/<i> with confirm_seed.py
and store the confirmed ones as seeded/<prop>-<letter><i>.

usage: intake_round.py <round-dir> <prop> <letter> <round-number>
"""
import json, os, shutil, subprocess, sys
HERE = os.path.dirname(os.path.dirname(os.path.abspath(__file__)))
rd, prop, letter, rnd = sys.argv[1:5]
wt = os.path.join(rd, prop)
for i in ("1", "2", "3"):
    sub = os.path.join("out", i)
    if not os.path.exists(os.path.join(wt, sub, "patch.diff")):
        print(prop, i, "no patch"); continue
    r = subprocess.run([sys.executable, os.path.join(HERE, "tools", "confirm_seed.py"), wt, sub], capture_output=True, text=True)
    try:
        rec = json.loads(r.stdout.strip().splitlines()[-1])
    except Exception:
        print(prop, i, "confirm crashed", r.stdout[-300:], r.stderr[-300:]); continue
    if not rec.get("confirmed"):
        print(prop, i, "NOT CONFIRMED", json.dumps(rec)[:600]); continue
    sid = "%s-%s%s" % (prop, letter, i)
    dst = os.path.join(HERE, "seeded", sid)
    os.makedirs(dst, exist_ok=True)
    shutil.copy(os.path.join(wt, sub, "patch.diff"), dst)
    shutil.copy(os.path.join(wt, sub, "demo.py"), dst)
    try:
        meta = json.load(open(os.path.join(wt, sub, "meta.json")))
    except Exception:
        meta = {"property": prop}
    meta["property"] = prop
    meta["round"] = int(rnd)
    meta["origin"] = "independent sub-agent given only the property record and a scratch worktree"
    rec.pop("demo_with_patch_tail", None)
    rec["how"] = "tools/confirm_seed.py in the scratch worktree: demo on the untouched tree; git apply patch; demo; pytest toasty (3 always-failing AVM tests deselected); git checkout -- toasty; demo"
    meta["confirmed_by_main"] = rec
    json.dump(meta, open(os.path.join(dst, "meta.json"), "w"), indent=1)
    print(prop, i, "confirmed ->", sid, "|", meta.get("kind"), "|", (meta.get("summary") or "")[:110])
