#!/bin/bash
# usage: at_commit.sh <commit> <property> [extra check.py args]  -- run a check against a scratch export of a /repo commit
c=$1; p=$2; shift 2
d=$(mktemp -d /var/tmp/atc_XXXXXX)
git -C /repo archive $c toasty | tar -x -C $d
/venv/bin/python /verif/check.py --property $p --repo $d --no-write "$@"
rc=$?
rm -rf $d
exit $rc
