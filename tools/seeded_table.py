#!/venv/bin/python
"""Markdown table: which check catches which seeded change (runs tools/seeded.py logic)."""
import json, os, sys, re, subprocess
HERE = os.path.dirname(os.path.dirname(os.path.abspath(__file__)))
out = subprocess.run([sys.executable, os.path.join(HERE, "tools", "seeded.py")], capture_output=True, text=True).stdout
rows = []
for l in out.splitlines():
    m = re.match(r"^(C\d\d-[mnpquw]\d)\s+(C\d\d)\s+(\S+)\s*(.*)$", l)
    if not m:
        continue
    sid, prop, status, first = m.groups()
    meta = json.load(open(os.path.join(HERE, "seeded", sid, "meta.json")))
    rule = ""
    mm = re.match(r"^(C\d\d\.R\w+)", first.replace("ANALYSIS-ERROR property=%s " % prop, ""))
    if mm:
        rule = mm.group(1)
    summ = meta.get("summary", "").replace("|", "/").replace("\n", " ")
    summ = summ[:150] + ("..." if len(summ) > 150 else "")
    verdict = {"CAUGHT": "VIOLATION", "undecided": "UNDECIDED (exit 2)", "missed": "missed"}.get(status, status)
    rows.append("| %s | %s | %s | %s |" % (sid, summ, verdict, rule))
print("| seeded change | what was changed | verdict of the property's check | rule |")
print("|---|---|---|---|")
print("\n".join(rows))
