#!/venv/bin/python
"""Confirm a sub-agent's seeded change in its scratch worktree.

usage: confirm_seed.py <worktree> <out-subdir> [--expect-pass-with-patch]

Steps (all inside the scratch worktree, never in /repo): worktree must be clean;
demo on the untouched tree (must exit 0); git apply patch; demo (must exit != 0,
or 0 with --expect-pass-with-patch for honest refactorings); the 46-test suite
(3 always-failing AVM tests deselected; must give 46 passed); git checkout;
demo again (must exit 0).  Prints one JSON record.
"""
import json
import os
import re
import subprocess
import sys

PY = "/venv/bin/python"
DESEL = ["--deselect", "toasty/tests/test_avm.py::TestAvm::test_check_cli_good",
         "--deselect", "toasty/tests/test_study.py::TestStudy::test_avm",
         "--deselect", "toasty/tests/test_study.py::TestStudy::test_avm_from"]


def sh(cmd, cwd, timeout=900):
    try:
        r = subprocess.run(cmd, cwd=cwd, capture_output=True, text=True, timeout=timeout)
        return r.returncode, (r.stdout + r.stderr)
    except subprocess.TimeoutExpired:
        return 124, "TIMEOUT"


def main():
    wt, sub = sys.argv[1], sys.argv[2]
    honest = "--expect-pass-with-patch" in sys.argv
    out = os.path.join(wt, sub)
    rec = {"worktree": wt, "sub": sub}
    head = sh(["git", "rev-parse", "--short", "HEAD"], wt)[1].strip()
    rec["at_repo_head"] = head
    sh(["git", "checkout", "--", "toasty"], wt)
    st = sh(["git", "status", "--short", "toasty"], wt)[1].strip()
    if st:
        rec["error"] = "worktree not clean: " + st
        print(json.dumps(rec)); return 1
    patch = os.path.join(out, "patch.diff")
    demo = os.path.join(sub, "demo.py")
    touched = re.findall(r"^\+\+\+ b/(\S+)", open(patch).read(), re.M)
    rec["files"] = touched
    if any(not t.startswith("toasty/") or "/tests/" in t for t in touched):
        rec["error"] = "patch touches files outside toasty/ or tests"
        print(json.dumps(rec)); return 1
    c, o = sh([PY, demo], wt, 300)
    rec["demo_on_pristine"] = "PASS (exit 0)" if c == 0 else "exit %d: %s" % (c, o[-300:])
    c, o = sh(["git", "apply", patch], wt)
    if c != 0:
        rec["error"] = "patch does not apply: " + o[-300:]
        print(json.dumps(rec)); return 1
    c, o = sh([PY, demo], wt, 300)
    rec["demo_with_patch"] = ("PASS (exit 0)" if c == 0 else "FAIL (exit %d)" % c)
    rec["demo_with_patch_tail"] = o[-400:]
    c2, o2 = sh([PY, "-m", "pytest", "toasty", "-q", "-p", "no:cacheprovider", "--timeout=900"] + DESEL, wt, 1500)
    tail = [l for l in o2.splitlines() if re.search(r"\d+ passed|failed|error", l)]
    rec["test_suite_with_patch"] = tail[-1].strip("= ") if tail else "exit %d" % c2
    sh(["git", "checkout", "--", "toasty"], wt)
    c3, o3 = sh([PY, demo], wt, 300)
    rec["demo_after_restore"] = "PASS (exit 0)" if c3 == 0 else "exit %d" % c3
    ok = rec["demo_on_pristine"].startswith("PASS") and rec["demo_after_restore"].startswith("PASS") \
        and re.match(r"46 passed", rec["test_suite_with_patch"]) is not None and "failed" not in rec["test_suite_with_patch"] \
        and ((c == 0) if honest else (c not in (0, 124)))
    rec["confirmed"] = bool(ok)
    print(json.dumps(rec))
    return 0 if ok else 1


if __name__ == "__main__":
    sys.exit(main())
