#!/venv/bin/python
"""Regenerate MANIFEST.json from rules/*.py metadata (MANIFEST dict in each rule module)."""
import importlib, json, os, sys
HERE = os.path.dirname(os.path.dirname(os.path.abspath(__file__)))
sys.path.insert(0, HERE)
props = [json.loads(l) for l in open(os.path.join(HERE, "properties.jsonl"))]
checks, na = [], []
for p in props:
    pid = p["id"]
    path = os.path.join(HERE, "rules", pid + ".py")
    if not os.path.exists(path):
        na.append({"property_id": pid, "reason": "check not built yet in this session (static rules designed in DESIGN.md section 4)"})
        continue
    m = importlib.import_module("rules." + pid)
    meta = getattr(m, "MANIFEST", {})
    checks.append({
        "property_id": pid,
        "quick_cmd": "/venv/bin/python check.py --property %s --tier quick" % pid,
        "thorough_cmd": "/venv/bin/python check.py --property %s --tier thorough" % pid,
        "evidence_file": "/verif/evidence/%s.json" % pid,
        "replay_cmd_template": "/venv/bin/python check.py --replay {path}",
        "engine": "sa",
        "level_claimed": {
            "category": "other",
            "text": meta.get("text", "static analysis of structural premises on the current /repo sources with a written lemma (DESIGN.md); no execution, no solver"),
            "design_ref": "DESIGN.md section 4, " + pid,
        },
        "level_note": meta.get("note", ""),
        "technique": meta.get("technique", "static analysis (AST/CFG/term abstract interpretation)"),
    })
man = {
    "version": 1,
    "setup_cmd": "/venv/bin/python -m compileall -q sa rules selftest check.py >/dev/null 2>&1 || true",
    "hooks": {
        "guard": "WORLDWIDETELESCOPE_TOASTY_VERIF",
        "enable": "none needed: the checks read /repo's sources and never build or run it (no hook commits)",
        "baseline_off_cmd": "cd /repo && /venv/bin/python -m pytest -ra -q -p no:cacheprovider --timeout=900 --continue-on-collection-errors",
        "source_commits": [],
        "add_only": True,
    },
    "engines": [{"name": "sa", "path": "/verif/sa", "serves_properties": [c["property_id"] for c in checks],
                 "kind_free_text": "pure-stdlib static analyser: ast front-end (+ Cython-subset normaliser), statement CFG with dominators and path queries, abstract interpretation over canonical terms (Laurent polynomials), helper effect summaries, parallel-stage discovery"}],
    "checks": checks,
    "not_applicable": na,
    "notes": "All checks are static: they parse /repo's current working tree on every run and never import or execute toasty. exit 0 = all obligations hold (KNOWN-FINDING lines for listed genuine defects), exit 1 = VIOLATION lines, exit 2 = ANALYSIS-ERROR (undecided: unknown idiom, vanished anchor, vacuity floor). Fix commits in /repo: see known_findings.json.",
}
json.dump(man, open(os.path.join(HERE, "MANIFEST.json"), "w"), indent=1)
print("checks:", [c["property_id"] for c in checks], "n/a:", len(na))
