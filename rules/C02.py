"""C02 - Cascade output: every parent tile is the 2x2 downsample of its children mosaic.

R1 quadrant placement tables (literal evaluation) for both vertical parities
R2 table selection by format parity; FITS is the only bottom-up format
R3 child k <-> slice k pairing and the update call's argument positions
R4 the reused mosaic buffer is cleared (NaN/zero) on every path before children are merged in
R5 merged = merger(buffer) is written at the callback's own position
R6 averaging merger: reshape (h/2, 2, w/2, 2)+rest, nanmean over the two 2-axes, cast back
R7 fully masked tiles are removed, not stored (shared with C15.R5)
R8 no remembered reading of the file system in the tile I/O layer
R9 the `cascade` subcommand hands the user's selections on: directory, --format (as the pyramid's default format), --start, -j
"""
import ast

from sa import sym, boolalg
from sa.teval import teval, UNKNOWN
from sa.sym import show, num, num_value, atoms_of
from sa.cfg import CFG
from sa.model import callee_attr, dotted, own_calls, own_nodes, try_const

EXPLANATION = (
    "The two literal slice tables are evaluated and compared with the oracle `child 2*dy+dx -> quadrant (rows dy, cols dx)` "
    "(rows mirrored for bottom-up tiles); the table choice is the branch under `default vertical parity == +1`; the "
    "children read, the zip pairing and the update call are compared as canonical terms with pos_children inlined; a "
    "typestate analysis ({None, Fresh, Clean, Dirty} with `is None` refinement) over the callback's CFG decides that the "
    "shared buffer is cleared on every path reaching a merge; the merger's reshape tuple / reduction axes / cast are "
    "compared with their canonical forms. With numpy's nanmean contract these give the block mean of the mosaic."
)

MANIFEST = {
    "technique": "static analysis: partial evaluation of the merge callback with helpers inlined and 4-entry loops unrolled; exhaustive simulation of the extracted event trace over 32 abstract cases (buffer freshness typestate); canonical-term comparison of the merge pipeline; per-mode evaluation of the mask operations (shared premise with C15); memo rule for cached readings of the file system in the tile I/O layer; value flow of the cascade subcommand's options into cascade_images / PyramidIO; position pairing after filtering (zip of a table with a filtered sequence); per-mode buffer layout classified by the library's own dtype table (shared with C15)",
    "text": "Decides placement, buffer freshness, pairing, write-back position and the averaging merger's shape algebra on all paths; numerical means and codec behaviour are not decided.",
    "note": "Trusted: numpy reshape/nanmean/astype semantics, Image.clear() (decided by C15). Not decided: numeric values of means, integer rounding of astype, PNG/JPEG codecs.",
}

M = "toasty.merge"


def run(run):
    project = run.project
    run.explanation = EXPLANATION
    run.assumptions += ["numpy: reshape/nanmean(axis=...)/astype; 2-D indexing is [row, col]",
                        "Image.clear() fills with the mode's undefined value (C15.R2)"]
    run.undecided_clauses += ["numerical value of the means and integer rounding", "codec behaviour (PNG/JPEG/FITS I/O)"]
    for r, n in (("C02.R1", 2), ("C02.R2", 2), ("C02.R3", 2), ("C02.R4", 1), ("C02.R5", 1), ("C02.R6", 1), ("C02.R7", 1), ("C02.R8", 1), ("C02.R9", 4)):
        run.floor(r, n)
    _r1_tables(run)
    _r2_selection(run)
    _r3_r5_callback(run)
    _r4_buffer(run)
    _r6_merger(run)
    _r7_masked(run)
    # "fully masked" must mean what the buffers' undefined-value convention says, for every mode (decided by C15's rules)
    from . import C15 as c15
    from . import common as _common

    def conv(sub):
        members = c15._enum_members(sub.project)
        if len(members) >= 8:
            chains = c15._r1_chains(sub, members)
            c15._r2_conventions(sub, members, chains)
    _common.delegate(run, "C02.R7", "C15", conv, only_rules={"C15.R2"}, note="premise of 'an all-undefined parent is removed, not stored'")
    _common.delegate(run, "C02.R6", "C15", lambda sub: c15.buffer_layouts(sub, "C15.R7"), only_rules={"C15.R7"}, note="premise: the mosaic buffer holds the children's pixels in their own type")
    # "which children exist" is read from the disk at merge time: in a parallel cascade the children were written by other
    # processes, so nothing in the tile I/O layer (or the merger) may answer from a remembered copy of the directory state
    _r9_cli(run)
    from . import memo
    n_tab = 0
    for modname in ("toasty.pyramid", M):
        n_tab += memo.check_module(run, "C02.R8", modname)
    if not memo.selfcheck():
        run.undecided("C02.R8", None, None, "memo rule self-check failed", kind="selfcheck", construct="<memo selfcheck>")
    if not [o for o in run.obs if o.rule == "C02.R8"]:
        run.holds("C02.R8", run.project.fn("toasty.pyramid.PyramidIO.read_image"), None, "the tile I/O layer and the merger keep no memo table / cached reading of "
                  "the file system (%d uses); positive example flagged" % n_tab, table_uses=n_tab)


def _r9_cli(run):
    """The command-line cascade works on the pyramid, format, start depth and worker count the user named: each option of
    cascade_getparser reaches the corresponding parameter of merge.cascade_images / PyramidIO (value flow through helpers)."""
    project = run.project
    CLI = "toasty.cli"
    impl = project.funcs.get(CLI + ".cascade_impl")
    if impl is None:
        run.undecided("C02.R9", None, None, "toasty.cli.cascade_impl not found", kind="anchor", construct="cascade_impl", file="toasty/cli.py")
        return
    run.note_func(impl)
    ev = sym.make_evaluator(project, CLI, [], inline_local=True)
    ev.inline_resolved = True
    ev.no_inline = ("cascade_images", "die", "averaging_merger")
    r = ev.run(impl.node)
    S = ("sym", impl.params()[0])
    calls = [e for e in r.events if e.kind == "call" and show(e.term[1]).split(".")[-1] == "cascade_images"]
    if len(calls) != 1:
        run.undecided("C02.R9", impl, None, "cascade_impl calls cascade_images %d times (through helpers that are not followed?)" % len(calls), kind="cli-shape")
        return
    t = calls[0].term
    target = project.fn(M + ".cascade_images")
    ps = target.params()
    bound = dict(zip(ps, t[2]))
    bound.update(dict(t[3]))
    pio = bound.get(ps[0])

    def ctor_args(c):
        if c is None or c[0] != "call" or show(c[1]).split(".")[-1] != "PyramidIO":
            return None
        init = project.fn("toasty.pyramid.PyramidIO.__init__")
        ips = init.params()[1:]
        b = dict(zip(ips, c[2]))
        b.update(dict(c[3]))
        return b
    ca = ctor_args(pio)
    want = [("pyramid_dir", "the pyramid directory", lambda: ca.get("base_dir") if ca is not None else None),
            ("format", "--format (the pyramid's default format: which tiles are read and written)", lambda: ca.get("default_format", sym.NONE) if ca is not None else None),
            ("start", "--start", lambda: bound.get("start")),
            ("parallelism", "-j / --parallelism", lambda: bound.get("parallel", sym.NONE))]
    if ca is None:
        run.undecided("C02.R9", impl, calls[0].node, "the pyramid handed to cascade_images is %s, not a PyramidIO built here" % show(pio)[:80], kind="cli-pio")
        return
    for dest, label, getter in want:
        got = getter()
        exp = ("attr", S, dest)
        if got is not None and got[0] == "call" and got[1] == ("sym", "getattr") and len(got[2]) in (2, 3) and got[2][0] == S and got[2][1] == ("const", dest):
            got = exp            # getattr(settings, "<dest>"[, default]): the option itself (the default only covers other subcommands)
        if got == exp:
            run.holds("C02.R9", impl, calls[0].node, "%s reaches the cascade as settings.%s" % (label, dest), option=dest)
        elif got is not None and exp in _atoms(got):
            run.undecided("C02.R9", impl, calls[0].node, "%s reaches the cascade as %s" % (label, show(got)[:80]), kind="cli-derived-" + dest, option=dest)
        else:
            run.violated("C02.R9", impl, calls[0].node, "%s does not reach the cascade: the value used is %s, not settings.%s -- the command works on something other "
                         "than what the user selected" % (label, "the callee's default" if got is None or got == sym.NONE else show(got)[:60], dest), kind="cli-option-" + dest, option=dest)


def _atoms(t):
    out = set()
    if isinstance(t, tuple):
        out.add(t)
        for x in t:
            if isinstance(x, tuple):
                out |= _atoms(x)
    return out


def _slice_half(node, consts=None):
    """Normalise a ``slice(a, b)`` literal to 0 (first half [0:256]) or 1 ([256:512])."""
    seen = 0
    while isinstance(node, ast.Name) and consts and node.id in consts and seen < 4:
        node = consts[node.id]
        seen += 1
    if not (isinstance(node, ast.Call) and dotted(node.func) == "slice"):
        return None
    args = list(node.args)
    if len(args) == 1:
        args = [ast.Constant(None)] + args
    if len(args) == 3:
        ok, st = try_const(args[2])
        if not ok or st not in (None, 1):
            return None
    vals = []
    for a in args[:2]:
        ok, v = try_const(a)
        if not ok:
            return None
        vals.append(v)
    lo, hi = vals
    lo = 0 if lo is None else lo
    hi = 512 if hi is None else hi
    if (lo, hi) == (0, 256):
        return 0
    if (lo, hi) == (256, 512):
        return 1
    return ("bad", lo, hi)


def _tables(project):
    consts = project.module_constants(M)
    out = {}
    for name, v in consts.items():
        if isinstance(v, (ast.List, ast.Tuple)) and len(v.elts) == 4 and all(
                isinstance(e, ast.Tuple) and len(e.elts) == 2 for e in v.elts):
            rows = [(_slice_half(e.elts[0], consts), _slice_half(e.elts[1], consts)) for e in v.elts]
            if all(r[0] is not None and r[1] is not None for r in rows):
                out[name] = (rows, v)
    return out


def _classify_table(rows):
    match = [(k // 2, k % 2) for k in range(4)]
    opp = [(1 - k // 2, k % 2) for k in range(4)]
    if rows == match:
        return "matching"
    if rows == opp:
        return "opposite"
    return None


def _r1_tables(run):
    project = run.project
    tabs = _tables(project)
    if len(tabs) < 2:
        # no literal tables: the placement is computed; the evaluation under R2/R3 decides it
        verdict, info = _placement_semantics(project)
        f_ = project.fn(M + ".TileMerger.walk_callback")
        if verdict is True:
            run.holds("C02.R1", f_, None, "no literal quadrant tables; the computed placement equals the display layout / its vertical mirror (%d placements evaluated)" % info)
            run.holds("C02.R1", f_, None, "child k = 2*dy+dx lands in column half dx")
        elif verdict is False:
            run.violated("C02.R1", f_, None, info, kind="quadrant-table")
        else:
            run.undecided("C02.R1", None, None, "expected two literal quadrant tables in toasty/merge.py, found %d, and the placement cannot be evaluated (%s)" % (len(tabs), info),
                          kind="tables-missing", construct="merge.<tables>", file="toasty/merge.py")
        return
    for name, (rows, node) in sorted(tabs.items()):
        cls = _classify_table(rows)
        facts = dict(table=name, rows=[list(r) for r in rows], file="toasty/merge.py")
        if cls is None:
            run.violated("C02.R1", None, node, "table %s places child k at (row half, col half) = %s; neither the display layout "
                         "[(0,0),(0,1),(1,0),(1,1)] nor its vertical mirror [(1,0),(1,1),(0,0),(0,1)] (child k = 2*dy+dx)" % (name, rows),
                         kind="quadrant-table", construct="merge." + name, **facts)
        else:
            run.holds("C02.R1", None, node, "%s = %s-parity layout" % (name, cls), construct="merge." + name, cls=cls, **facts)


def _r2_selection(run):
    project = run.project
    tabs = {n: _classify_table(rows) for n, (rows, node) in _tables(project).items()}
    f = project.fn(M + ".TileMerger.__init__")
    run.note_func(f)
    ev = sym.make_evaluator(project, M, [])
    r = ev.run(f.node)
    # which layout is used for which vertical parity: decided from the values that reach the updates (constructor state
    # substituted into the callback), so that a table, two tables, or index arithmetic are all the same to the rule
    verdict, info = _placement_semantics(project)
    if verdict is True:
        run.holds("C02.R2", f, None, "rows of the mosaic are mirrored exactly when the default format's vertical parity is +1 (%d placements evaluated)" % info)
    elif verdict is False:
        run.violated("C02.R2", f, None, info, kind="table-selection")
    else:
        run.undecided("C02.R2", f, None, "cannot evaluate the placement of the children: %s" % info, kind="selection-shape")
    # get_format_vertical_parity_sign: +1 only for 'fits'
    g = project.fn("toasty.image.get_format_vertical_parity_sign")
    run.note_func(g)
    ev2 = sym.make_evaluator(project, "toasty.image", [])
    r2 = ev2.run(g.node)
    fmt = ("sym", g.params()[0])
    val = boolalg.fold_returns(r2.returns)
    table = {}
    for fv in ("fits", "png", "jpg", "npy", "tiff", None):
        table[fv] = teval(val, {fmt: fv}) if val is not None else UNKNOWN
    if any(v is UNKNOWN for v in table.values()):
        run.undecided("C02.R2", g, None, "cannot evaluate get_format_vertical_parity_sign (%s)" % (show(val)[:100] if val is not None else "no return"), kind="format-parity-shape")
    elif table["fits"] == 1 and all(v == -1 for k, v in table.items() if k != "fits"):
        run.holds("C02.R2", g, None, "vertical parity sign is +1 exactly for 'fits'")
    else:
        run.violated("C02.R2", g, None, "get_format_vertical_parity_sign gives %s; expected +1 iff format == 'fits', else -1" % table, kind="format-parity")


def _callback_eval(project):
    """walk_callback with pos_children and the merger's own helper methods inlined, the constant-length loops
    unrolled (the placement table has four entries of two indexers each)."""
    f = project.fn(M + ".TileMerger.walk_callback")
    ev = sym.make_evaluator(project, M, ["toasty.pyramid.pos_children"], inline_local=True, no_inline=["_get_min_max_of_children", "combine_child_ranges"])
    ev.self_class = M + ".TileMerger"
    slices_t = ("attr", ("sym", "self"), "_slices")

    def static_len(t):
        if t == slices_t:
            return 4
        if t[0] == "item" and t[1] == slices_t:
            return 2
        return None
    ev.static_len = static_len
    ev.unroll = True
    return f, ev, ev.run(f.node)


def _placement_semantics(project):
    """Where child k lands in the 512x512 mosaic, decided from the *values*: the merger's constructor state is substituted into
    the callback, helpers are inlined, the four children unrolled, and the two buffer indexers of every update are evaluated
    for both vertical parities of the tile format.  Expected: columns by dx, rows by dy -- mirrored for bottom-up formats
    (parity +1).  -> (True, n) | (False, message) | (None, reason)"""
    init = project.fn(M + ".TileMerger.__init__")
    f = project.fn(M + ".TileMerger.walk_callback")
    ev = sym.make_evaluator(project, M, ["toasty.pyramid.pos_children"], inline_local=True, no_inline=["_get_min_max_of_children"])
    ev.self_class = M + ".TileMerger"
    ev.inline_resolved = True
    ev.unroll = True
    ev.no_inline = ("_get_min_max_of_children", "read_image", "write_image", "update_into_maskable_buffer", "make_maskable_buffer", "clear", "asarray",
                    "from_array", "get_default_format", "get_default_vertical_parity_sign", "_merger", "combine_child_ranges")
    ri = ev.run(init.node)
    facts = {k: v for k, v in (ri.env or {}).items() if isinstance(k, tuple) and k[0] == "attr" and k[1] == ("sym", "self")}
    signs = {a for v in facts.values() for a in _subterms(v) if a[0] == "call" and a[1][0] == "attr" and a[1][2] == "get_default_vertical_parity_sign"}
    r = ev.run(f.node, env=facts)
    pos = ("sym", f.params()[1])
    upd = [e for e in r.events if e.kind == "call" and e.term[1][0] == "attr" and e.term[1][2] == "update_into_maskable_buffer"]
    if len(upd) != 4 or any(c[0] == "loop" for e in upd for c in e.pc):
        return None, "the four per-child updates could not be unrolled (%d found)" % len(upd)
    signs |= {a for e in upd for x in e.term[2] for a in _subterms(x) if a[0] == "call" and a[1][0] == "attr" and a[1][2] == "get_default_vertical_parity_sign"}
    n = 0
    for e in upd:
        recv = e.term[1][1]
        if not (recv[0] == "call" and recv[1][0] == "attr" and recv[1][2] == "read_image" and recv[2] and recv[2][0][0] == "nt"):
            return None, "update receiver %s is not a child tile read in this callback" % show(recv)[:60]
        px, py = recv[2][0][2][1], recv[2][0][2][2]
        dx = num_value(sym.sub(px, ev.expr("2*p.x", {"p": pos})))
        dy = num_value(sym.sub(py, ev.expr("2*p.y", {"p": pos})))
        if dx not in (0, 1) or dy not in (0, 1):
            return None, "child position %s is not (2x+dx, 2y+dy)" % show(recv[2][0])[:60]
        b = ev.bound_args(e.term)[1] if ev.bound_args(e.term)[0] is not None else None
        a = e.term[2]
        if len(a) != 5:
            return None, "update call has %d positional arguments" % len(a)
        for sign in (1, -1):
            envt = {sg: sign for sg in signs}
            by, bx = teval(a[3], envt), teval(a[4], envt)
            if by is UNKNOWN or bx is UNKNOWN:
                return None, "cannot evaluate the buffer indexers %s / %s" % (show(a[3])[:60], show(a[4])[:60])
            lower, upper = slice(256, None), slice(None, 256)
            def same(s1, s2):
                return isinstance(s1, slice) and (s1.start or 0, s1.stop if s1.stop is not None else 512, s1.step or 1) == (s2.start or 0, s2.stop if s2.stop is not None else 512, 1)
            rows_low = (dy == 1) != (sign == 1)
            want_by, want_bx = (lower if rows_low else upper), (lower if dx == 1 else upper)
            if not same(by, want_by) or not same(bx, want_bx):
                return False, "child (dx=%d, dy=%d) of a %s pyramid is placed at buffer[%s, %s]; expected buffer[%s, %s]" % (
                    dx, dy, "bottom-up (FITS)" if sign == 1 else "top-down", by, bx, want_by, want_bx)
            n += 1
    return True, n


def _subterms(t, acc=None):
    acc = [] if acc is None else acc
    if isinstance(t, tuple):
        if t and isinstance(t[0], str):
            acc.append(t)
        for x in t:
            if isinstance(x, tuple):
                _subterms(x, acc)
    return acc


def _is_buffer_term(t):
    s = show(t)
    return "_buf" in s or "make_maskable_buffer" in s


def _r3_r5_callback(run):
    project = run.project
    f, ev, r = _callback_eval(project)
    run.note_func(f)
    from . import common as _c
    for g in [f] + [h for h in project.funcs.values() if h.cls is not None and f.cls is not None and h.cls is f.cls and h is not f]:
        for c, a, why, b in _c.misaligned_zips(project, g):
            run.violated("C02.R3", g, c, "%s pairs `%s` with `%s` by position, but `%s` comes from %s: when a child tile is missing, every image behind it is placed in "
                         "its predecessor's quadrant" % (g.short, b, a, a, why), kind="zip-after-filter")
            return
    pos = ("sym", f.params()[1])
    slices_t = ("attr", ("sym", "self"), "_slices")
    reads = [e for e in r.events if e.kind == "call" and e.term[1][0] == "attr" and e.term[1][2] == "read_image"]
    want_children = []
    for k in range(4):
        dx, dy = k % 2, k // 2
        want_children.append(("nt", "Pos", (ev.expr("p.n + 1", {"p": pos}), ev.expr("2*p.x + %d" % dx, {"p": pos}), ev.expr("2*p.y + %d" % dy, {"p": pos}))))
    got_children = [e.term[2][0] if e.term[2] else None for e in reads]
    if sorted(got_children, key=repr) != sorted(want_children, key=repr) or any(c[0] != "loop" for e in reads for c in e.pc):
        definite = len(got_children) == 4 and all(c is not None and c[0] == "nt" for c in got_children)
        (run.violated if definite else run.undecided)("C02.R3", f, reads[0].node if reads else None, "children read are %s; expected the four children (2x+dx, 2y+dy) of the "
                     "callback's own position, unconditionally" % [show(c)[:60] for c in got_children], kind="children-read")
        return
    for e in reads:
        kw = dict(e.term[3])
        if kw.get("default", ("const", "none")) != ("const", "none") or "format" in kw:
            run.violated("C02.R3", f, e.node, "child tiles must be read with default='none' in the pyramid's default format (got %s)" %
                         {k: show(v) for k, v in kw.items()}, kind="child-read-mode")
            return
    run.holds("C02.R3", f, reads[0].node, "img_k = read_image(child k) for the four children of the callback's own position")
    child_of = {e.term: want_children.index(e.term[2][0]) for e in reads}      # image term -> child index k = 2*dy+dx
    imgs = sorted(child_of, key=lambda t: child_of[t])
    upd = [e for e in r.events if e.kind == "call" and e.term[1][0] == "attr" and e.term[1][2] == "update_into_maskable_buffer"]
    full = ("call", ("sym", "slice"), (sym.NONE,), ())
    if upd and not any(c[0] == "loop" for e in upd for c in e.pc):
        # unrolled: one update per table entry
        seen = {}
        problems = []
        for e in upd:
            recv = e.term[1][1]
            a = e.term[2]
            if recv not in child_of:
                problems.append((e, "update-receiver", "the update is applied by %s, not by one of the child images" % show(recv)[:80]))
                continue
            j = child_of[recv]
            if len(a) != 5 or not _is_buffer_term(a[0]) or a[1] != full or a[2] != full:
                problems.append((e, "update-args", "update call arguments are %s; expected (mosaic buffer, slice(None), slice(None), by, bx)" % [show(x)[:50] for x in a]))
                continue
            ks = [k for k in range(4) if (a[3], a[4]) == (("item", ("item", slices_t, k), 0), ("item", ("item", slices_t, k), 1))]
            if not ks and _placement_semantics(project)[0] is True:
                ks = [j]          # not a table entry, but the evaluated indexers are the right ones for this child (see R2)
            if not ks:
                sw = [k for k in range(4) if (a[4], a[3]) == (("item", ("item", slices_t, k), 0), ("item", ("item", slices_t, k), 1))]
                problems.append((e, "update-args", "child %d is placed at buffer indexers (%s, %s); expected the table entry's (rows, cols) = (by, bx)%s" % (
                    j, show(a[3])[:50], show(a[4])[:50], " -- rows and columns are swapped" if sw else "")))
                continue
            k = ks[0]
            if k != j:
                problems.append((e, "zip-pairing", "child %d (2*dy+dx) is placed with table entry %d: the placement table is indexed by the child number" % (j, k)))
                continue
            guard = boolalg.implies(boolalg.conj(e.pc), ("op", "not", (sym.cmp("Is", recv, sym.NONE),)))
            if guard is not True:
                problems.append((e, "missing-child-guard", "children that do not exist are not skipped (child %d)" % j))
                continue
            other = [c for c in e.pc if c[0] != "loop" and not (set(child_of) & atoms_of(c[0])) and not _is_buffer_term(c[0])]
            if other:
                problems.append((e, "update-conditional", "child %d is only merged under %s" % (j, [show(c[0])[:60] for c in other])))
                continue
            seen[j] = seen.get(j, 0) + 1
        for j in range(4):
            if seen.get(j, 0) != 1 and not problems:
                problems.append((upd[0], "children-merged", "child %d is merged %d times (expected once)" % (j, seen.get(j, 0))))
        if problems:
            for e, kind, msg in problems[:3]:
                run.violated("C02.R3", f, e.node, msg, kind=kind)
        else:
            run.holds("C02.R3", f, upd[0].node, "slice k is applied to child k: child.update_into_maskable_buffer(buf, :, :, *slices[k]), existing children only")
    else:
        loops = [(k, it, n) for k, it, n in r.loops if it[0] == "call" and it[1] == ("sym", "zip")]
        if not loops or len(upd) != 1:
            run.undecided("C02.R3", f, None, "merge loop `for slice, image in zip(...)` with one update call not found (loops=%d, updates=%d)" % (len(loops), len(upd)),
                          kind="merge-loop-shape")
            return
        k, it, lnode = loops[0]
        za = it[2]
        ok_zip = len(za) == 2 and za[0] == slices_t and za[1][0] in ("tuple", "list") and tuple(za[1][1]) == tuple(imgs)
        if not ok_zip:
            definite = len(za) == 2 and za[1][0] in ("tuple", "list") and sorted(za[1][1], key=repr) == sorted(imgs, key=repr)
            definite = definite or (len(za) == 2 and za[0] != slices_t and za[0][0] == "sym")
            (run.violated if definite else run.undecided)("C02.R3", f, lnode, "the placement table is zipped with %s; expected (self._slices, (img0, img1, img2, img3)) in child order" %
                         [show(a)[:80] for a in za], kind="zip-pairing")
            return
        run.undecided("C02.R3", f, lnode, "merge loop could not be unrolled", kind="merge-loop-shape")
        return
    # update_into_maskable_buffer parameter order (by, bx) = positions 4, 5
    g = project.fn("toasty.image.Image.update_into_maskable_buffer")
    run.note_func(g)
    ps = g.params()
    evi = sym.make_evaluator(project, "toasty.image", [])
    ri = evi.run(g.node)
    sub_b = [x for x in ri.events if x.kind == "assign" and x.term[1][1][0] == "sub" and "_as_writeable_array" in show(x.term[1][1][1])]
    sub_i = [x for x in ri.events if x.kind == "assign" and x.term[1][1][0] == "sub" and show(x.term[1][1][1]).endswith("self.asarray()")]
    okb = sub_b and sub_b[0].term[1][1][2] == ("tuple", (("sym", ps[4]), ("sym", ps[5])))
    oki = sub_i and sub_i[0].term[1][1][2] == ("tuple", (("sym", ps[2]), ("sym", ps[3])))
    if okb and oki:
        run.holds("C02.R3", g, None, "update addresses buffer[by, bx] and image[iy, ix] (row indexer first)")
    else:
        run.violated("C02.R3", g, None, "update_into_maskable_buffer does not index buffer[by_idx, bx_idx] / image[iy_idx, ix_idx] with its parameters in "
                     "(iy, ix, by, bx) order", kind="indexer-order")
    # ---- R5
    wr = [e for e in r.events if e.kind == "call" and e.term[1][0] == "attr" and e.term[1][2] == "write_image"]
    if len(wr) != 1:
        run.violated("C02.R5", f, None, "%d write_image calls in the merge callback (expected one)" % len(wr), kind="write-count")
        return
    w = wr[0]
    img = w.term[2][1] if len(w.term[2]) > 1 else None
    img_ok = False
    if img is not None and img[0] == "call" and img[1] == ("attr", ("sym", "Image"), "from_array") and len(img[2]) == 1:
        m = img[2][0]
        if m[0] == "call" and m[1] == ("attr", ("sym", "self"), "_merger") and len(m[2]) == 1:
            b0 = m[2][0]
            img_ok = b0[0] == "call" and b0[1][0] == "attr" and b0[1][2] == "asarray" and _is_buffer_term(b0[1][1]) and not b0[2]
    all_missing = ("op", "and", tuple(sym.cmp("Is", im, sym.NONE) for im in imgs))
    if not w.term[2] or w.term[2][0] != pos:
        run.violated("C02.R5", f, w.node, "merged tile is written at %s, not at the callback's own position" % (show(w.term[2][0]) if w.term[2] else "?"),
                     kind="write-position")
    elif not img_ok:
        run.violated("C02.R5", f, w.node, "the image written is %s; expected Image.from_array(self._merger(<mosaic buffer>.asarray()))" %
                     (show(img)[:160] if img is not None else "?"), kind="written-image")
    elif any(k == "format" for k, v in w.term[3]):
        run.violated("C02.R5", f, w.node, "parent written with an explicit format (children are read in the default format)", kind="write-format")
    else:
        cond = boolalg.conj(w.pc)
        eq = boolalg.equiv(cond, ("op", "not", (all_missing,)))
        if eq is True:
            run.holds("C02.R5", f, w.node, "write_image(pos, Image.from_array(merger(buf.asarray())), ...) at the callback's position, unless all four children are missing")
        elif eq is None:
            run.undecided("C02.R5", f, w.node, "cannot compare the write condition %s" % show(cond)[:160], kind="write-conditional")
        else:
            run.violated("C02.R5", f, w.node, "the parent is written under `%s`; it must be written exactly when at least one child exists; differs for: %s" % (
                show(cond)[:200], boolalg.counterexample(cond, ("op", "not", (all_missing,)))), kind="write-conditional")


def _r4_simulate(run):
    """Exhaustive simulation of the (loop-free, helper-inlined) event trace of walk_callback over the finite
    domain {buffer at entry: None | left dirty by the previous tile} x {child k: missing | present}: the buffer
    handed to each update must have been cleared in this activation.  Returns False if the trace is not loop-free."""
    import itertools
    project = run.project
    f, ev, r = _callback_eval(project)
    buf0 = ("attr", ("sym", "self"), "_buf")
    reads = [e.term for e in r.events if e.kind == "call" and e.term[1][0] == "attr" and e.term[1][2] == "read_image"]
    rel = []
    for e in r.events:
        if e.kind == "store" and e.term[1][0] == buf0:
            rel.append(("alloc", e))
        elif e.kind == "call" and e.term[1][0] == "attr" and e.term[1][2] == "clear" and _is_buffer_term(e.term[1][1]):
            rel.append(("clear", e))
        elif e.kind == "call" and e.term[1][0] == "attr" and e.term[1][2] == "update_into_maskable_buffer":
            rel.append(("update", e))
        elif e.kind == "return":
            rel.append(("return", e))
    if not any(k == "update" for k, e in rel) or any(c[0] == "loop" for k, e in rel for c in e.pc) or len(reads) != 4:
        return False

    def hook(t, rec):
        if t[0] == "call" and t[1][0] == "attr" and t[1][2] == "make_maskable_buffer":
            return "FRESH"
        return NotImplemented

    findings = {}
    unknown = None
    for b0 in (None, "DIRTY"):
        for present in itertools.product((False, True), repeat=4):
            env = {buf0: b0}
            for t, p in zip(reads, present):
                env[t] = ("IMG" if p else None)
            state = {"DIRTY": "Dirty"}
            for kind, e in rel:
                c = teval(boolalg.conj(e.pc), env, [hook])
                if c is UNKNOWN:
                    unknown = (e, "path condition %s" % show(boolalg.conj(e.pc))[:120])
                    break
                if not c:
                    continue
                if kind == "return":
                    break
                if kind == "alloc":
                    v = teval(e.term[1][1], env, [hook])
                    if v != "FRESH":
                        unknown = (e, "allocated value %s" % show(e.term[1][1])[:100])
                        break
                    state["FRESH"] = "Fresh"
                    continue
                obj = teval(e.term[1][1] if kind == "clear" else e.term[2][0], env, [hook])
                if obj is UNKNOWN:
                    unknown = (e, "buffer object %s" % show(e.term[1][1] if kind == "clear" else e.term[2][0])[:100])
                    break
                if kind == "clear":
                    if obj is None:
                        findings.setdefault((e.line, "None"), (e, b0, present))
                    else:
                        state[obj] = "Clean"
                else:
                    st = "None" if obj is None else state.get(obj, "Dirty")
                    if st not in ("Clean", "Merged"):
                        findings.setdefault((e.line, st), (e, b0, present))
                    elif obj is not None:
                        state[obj] = "Merged"
            if unknown:
                break
        if unknown:
            break
    if unknown:
        run.undecided("C02.R4", f, unknown[0].node, "cannot evaluate the %s in the buffer simulation" % unknown[1], kind="buffer-test")
        return True
    why = {"Dirty": "still holds the pixels of the tile merged before by this process",
           "Fresh": "is freshly allocated and was never cleared (make_maskable_buffer returns an uninitialised array)",
           "None": "is None"}
    if findings:
        for (line, st), (e, b0, present) in sorted(findings.items(), key=lambda kv: kv[0]):
            run.violated("C02.R4", f, e.node, "on some path the mosaic buffer reaches the merge (line %d) in state ['%s']: it %s (buffer at entry: %s, children present: %s); "
                         "missing children and undefined pixels would then show stale data" % (
                             line, st, why.get(st, st), "none yet" if b0 is None else "left by the previous tile", list(present)),
                         kind="buffer-not-cleared", states=[st])
    else:
        run.holds("C02.R4", f, [e for k, e in rel if k == "update"][0].node,
                  "buffer was cleared in this activation on every path reaching a merge (32 cases of entry buffer x present children)")
    alloc = [e for k, e in rel if k == "alloc"]
    for e in alloc:
        v = e.term[1][1]
        ok = v[0] == "call" and v[1][0] == "attr" and v[1][2] == "make_maskable_buffer" and [num_value(a) for a in v[2]] == [512, 512]
        if not ok:
            run.violated("C02.R4", f, e.node, "mosaic buffer allocated as %s, expected <child mode>.make_maskable_buffer(512, 512)" % show(v)[:120],
                         kind="buffer-alloc")
    return True


def _r4_buffer(run):
    project = run.project
    if _r4_simulate(run):
        return
    f = project.fn(M + ".TileMerger.walk_callback")
    cfg = CFG(f.node)

    def is_buf(e):
        return isinstance(e, ast.Attribute) and e.attr == "_buf" and isinstance(e.value, ast.Name) and e.value.id == "self"

    reports = []
    unknown_tests = []

    def transfer(n, st, lab):
        st = set(st)
        if n.kind == "if":
            test = n.ast.test
            # refinement by `self._buf is None` / `is not None` / `not (...)` / truthiness (also as a conjunct)
            tests = test.values if isinstance(test, ast.BoolOp) and isinstance(test.op, ast.And) else [test]
            for t in tests:
                neg = False
                while isinstance(t, ast.UnaryOp) and isinstance(t.op, ast.Not):
                    neg = not neg
                    t = t.operand
                nonnull = None    # True: the test holds iff buffer is not None
                if isinstance(t, ast.Compare) and is_buf(t.left) and len(t.ops) == 1 and isinstance(t.comparators[0], ast.Constant) \
                        and t.comparators[0].value is None and isinstance(t.ops[0], (ast.Is, ast.IsNot, ast.Eq, ast.NotEq)):
                    nonnull = isinstance(t.ops[0], (ast.IsNot, ast.NotEq))
                elif is_buf(t):
                    nonnull = True
                elif any(is_buf(x) for x in ast.walk(t)):
                    unknown_tests.append(n)
                if nonnull is not None:
                    if neg:
                        nonnull = not nonnull
                    if lab == "T":
                        st = (st - {"None"}) if nonnull else (st & {"None"})
                    elif lab == "F" and len(tests) == 1:
                        st = (st & {"None"}) if nonnull else (st - {"None"})
                    if not st:
                        return None
            return frozenset(st)
        if n.kind == "stmt":
            a = n.ast
            if isinstance(a, ast.Assign) and any(is_buf(t) for t in a.targets):
                return frozenset({"Fresh"})
            for c in cfg.calls_at(n):
                if isinstance(c.func, ast.Attribute) and c.func.attr == "clear" and is_buf(c.func.value):
                    return frozenset({"Clean"})
                if isinstance(c.func, ast.Attribute) and c.func.attr == "update_into_maskable_buffer" and c.args and is_buf(c.args[0]):
                    reports.append((n, frozenset(st)))
                    return frozenset({"Clean"} if st == {"Clean"} else st | {"Merged"})
        return frozenset(st)

    # the merge loop runs several times: a fix-point is needed, reports are collected at the end
    states = cfg.forward(frozenset({"None", "Dirty"}), lambda n, s, l: transfer(n, s, l), lambda a, b: a | b, skip_labels=("exc",))
    reports.clear()
    final = {}
    for n in cfg.nodes:
        if n.id in states:
            before = len(reports)
            transfer(n, states[n.id], "")
            for nn, st in reports[before:]:
                final[nn.id] = (nn, st)
    if not final:
        run.undecided("C02.R4", f, None, "no update of self._buf found", kind="no-update")
        return
    if unknown_tests:
        run.undecided("C02.R4", f, unknown_tests[0].ast, "a branch tests the mosaic buffer in a way the typestate analysis cannot refine (%s)" %
                      ast.unparse(unknown_tests[0].ast.test)[:100], kind="buffer-test")
        return
    for nid, (n, st) in sorted(final.items()):
        bad = set(st) - {"Clean", "Merged"}
        if "Merged" in st and "Clean" not in st and len(st) == 1:
            bad = set()
        if bad:
            why = {"Dirty": "may still hold the pixels of the tile merged before by this process",
                   "Fresh": "is freshly allocated and was never cleared (make_maskable_buffer returns an uninitialised array)",
                   "None": "may be None"}
            run.violated("C02.R4", f, n.ast, "on some path the mosaic buffer reaches the merge (line %d) in state %s: it %s; missing children "
                         "and undefined pixels would then show stale data" % (n.line, sorted(bad), "; ".join(why.get(b, b) for b in sorted(bad))),
                         kind="buffer-not-cleared", states=sorted(st))
        else:
            run.holds("C02.R4", f, n.ast, "buffer is in state Clean on every path reaching the merge", states=sorted(st))
    # the allocation must be the mode's maskable buffer of the full mosaic size
    ev = sym.make_evaluator(project, M, [])
    r = ev.run(f.node)
    alloc = [e for e in r.events if e.kind == "store" and e.term[1][0] == ("attr", ("sym", "self"), "_buf")]
    for e in alloc:
        v = e.term[1][1]
        ok = v[0] == "call" and v[1][0] == "attr" and v[1][2] == "make_maskable_buffer" and [num_value(a) for a in v[2]] == [512, 512]
        if not ok:
            run.violated("C02.R4", f, e.node, "mosaic buffer allocated as %s, expected <child mode>.make_maskable_buffer(512, 512)" % show(v)[:120],
                         kind="buffer-alloc")


def _r6_merger(run):
    project = run.project
    f = project.fn(M + ".averaging_merger")
    run.note_func(f)
    ev = sym.make_evaluator(project, M, [])
    r = ev.run(f.node)
    data = ("sym", f.params()[0])
    shp = ("attr", data, "shape")
    want_s = ("op", "concat", (("tuple", (ev.expr("d.shape[0] // 2", {"d": data}), num(2), ev.expr("d.shape[1] // 2", {"d": data}), num(2))),
                               ("sub", shp, ("slice", num(2), sym.NONE, sym.NONE))))
    want = ("call", ("attr", ("call", ("attr", ("sym", "np"), "nanmean"),
                              (("call", ("attr", data, "reshape"), (want_s,), ()),), (("axis", ("tuple", (num(1), num(3)))),)), "astype"),
            (("attr", data, "dtype"),), ())
    rets = r.returns
    if not rets:
        run.undecided("C02.R6", f, None, "averaging_merger has no return", kind="no-return")
        return
    for pc, t, n in rets:
        if t == want:
            continue
        s = show(t)
        # characterise the deviation
        if "nanmean" not in s and ("np.mean(" in s or ".mean(" in s):
            msg = "uses mean instead of nanmean: a block with one undefined pixel becomes undefined"
            kind = "mean-not-nanmean"
        elif "nanmean" in s and "axis=" in s and show(want[1][1][3][0][1]) not in s:
            msg = "reduces over the wrong axes (the 2-sized axes of the reshaped array are 1 and 3)"
            kind = "reduction-axes"
        elif "nanmean" in s and "astype" not in s:
            msg = "result is not cast back to the input's data type"
            kind = "no-cast"
        elif "nanmean" in s:
            msg = "reshape tuple / call structure differs from (h//2, 2, w//2, 2) + rest"
            kind = "reshape"
        else:
            conds = [c for c in pc if c[0] != "loop"]
            narrow = [a for a in ("int32", "int16", "uint16", "uint32", "int8") if a in s]
            if narrow:
                msg = ("alternative reduction path under %s accumulates in %s, which cannot hold the sum of four values of every "
                       "supported integer mode (I32)" % ([show(c)[:60] for c, p in conds], narrow[0]))
                kind = "narrow-accumulator"
            else:
                run.undecided("C02.R6", f, n, "unrecognised alternative reduction %s" % s[:200], kind="merger-alt")
                continue
        run.violated("C02.R6", f, n, "averaging_merger returns %s: %s" % (s[:200], msg), kind=kind)
    if all(t == want for pc, t, n in rets):
        run.holds("C02.R6", f, rets[0][2], "nanmean(data.reshape((h//2, 2, w//2, 2) + rest), axis=(1, 3)).astype(data.dtype)")


def _r7_masked(run):
    project = run.project
    f = project.fn("toasty.pyramid.PyramidIO.write_image")
    run.note_func(f)
    ev = sym.make_evaluator(project, "toasty.pyramid", [], inline_local=True)
    ev.self_class = "toasty.pyramid.PyramidIO"          # "remove the tile file" may be a private helper of PyramidIO
    ev.inline_resolved = True
    ev.no_inline = ("tile_path", "save", "is_completely_masked", "make_maskable_buffer", "clear", "load_path", "read_image", "write_image", "update_image",
                    "get_default_format", "open")
    r = ev.run(f.node)
    unl = [e for e in r.events if e.kind == "call" and show(e.term[1]) in ("os.unlink", "os.remove")]
    sav = [e for e in r.events if e.kind == "call" and e.term[1][0] == "attr" and e.term[1][2] == "save"]
    image = ("sym", f.params()[2])
    masked = ("call", ("attr", image, "is_completely_masked"), (), ())
    if len(unl) != 1 or len(sav) != 1:
        run.violated("C02.R7", f, None, "write_image must either unlink or save (unlinks=%d saves=%d)" % (len(unl), len(sav)), kind="write-shape")
        return
    cu = [c for c in unl[0].pc if c[0] != "loop"]
    cs = [c for c in sav[0].pc if c[0] != "loop"]
    if (masked, True) in cu and (masked, False) in cs and unl[0].term[2] and sav[0].term[2] and unl[0].term[2][0] == sav[0].term[2][0]:
        run.holds("C02.R7", f, unl[0].node, "completely masked image: the same path is unlinked instead of saved")
    elif unl[0].term[2] and sav[0].term[2] and unl[0].term[2][0] != sav[0].term[2][0]:
        run.violated("C02.R7", f, unl[0].node, "a fully masked tile unlinks %s but a defined tile is saved to %s: a stale file in the requested "
                     "format survives" % (show(unl[0].term[2][0])[:120], show(sav[0].term[2][0])[:120]), kind="unlink-other-path")
    else:
        run.violated("C02.R7", f, unl[0].node, "unlink/save are not the two arms of `image.is_completely_masked()`", kind="masked-branch")
