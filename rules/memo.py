"""Shared-state rules used by several properties (A3 dependence analysis).

* memo-key completeness: a value stored in a table that outlives the call
  (module level, class-level default, instance attribute) must be determined by
  its key: every input the stored value depends on must be covered by the key
  (or by the owner of the table, for per-instance tables).
* scratch state: a module-level / class-level mutable container mutated inside
  a generator (or a recursive function) is shared between activations that are
  alive at the same time.

Both are decided on canonical terms produced by the abstract evaluator.
"""
import ast

from sa import sym
from sa.sym import show, atoms_of
from sa.model import dotted, own_nodes, own_calls

_MUT_CTORS = {"dict", "list", "set", "OrderedDict", "defaultdict", "deque", "WeakValueDictionary", "WeakKeyDictionary"}


def _is_mutable_literal(v):
    if isinstance(v, (ast.Dict, ast.List, ast.Set)):
        return True
    if isinstance(v, ast.Call):
        d = dotted(v.func)
        if d and d.split(".")[-1] in _MUT_CTORS:
            return True
    return False


def shared_tables(project, modname):
    """{name: (kind, node)} for module-level mutable containers, class-level
    mutable defaults ('Class.attr') and instance tables ('self.attr' set in __init__)."""
    mod = project.mod(modname)
    out = {}
    for n in mod.tree.body:
        if isinstance(n, ast.Assign) and len(n.targets) == 1 and isinstance(n.targets[0], ast.Name) and _is_mutable_literal(n.value):
            out[n.targets[0].id] = ("module", n)
        if isinstance(n, ast.ClassDef):
            for m in n.body:
                if isinstance(m, ast.Assign) and len(m.targets) == 1 and isinstance(m.targets[0], ast.Name) and _is_mutable_literal(m.value):
                    out["%s.%s" % (n.name, m.targets[0].id)] = ("class", m)
                if isinstance(m, ast.FunctionDef) and m.name == "__init__":
                    for s in ast.walk(m):
                        if isinstance(s, ast.Assign) and len(s.targets) == 1 and isinstance(s.targets[0], ast.Attribute) \
                                and isinstance(s.targets[0].value, ast.Name) and s.targets[0].value.id == "self" and _is_mutable_literal(s.value):
                            out["%s.self.%s" % (n.name, s.targets[0].attr)] = ("instance", s)
    return out


def _paths(t):
    """Access paths (sym with attribute/item chain) a term depends on."""
    out = set()

    def path_of(x):
        if x[0] == "sym":
            return x[1]
        if x[0] == "attr":
            p = path_of(x[1])
            return None if p is None else p + "." + x[2]
        if x[0] == "item":
            p = path_of(x[1])
            return None if p is None else "%s#%s" % (p, x[2])
        if x[0] == "elem":
            p = path_of(x[1])
            return None if p is None else p + "[*]"
        if x[0] == "sub":
            p = path_of(x[1])
            return None if p is None else "%s[%s]" % (p, show(x[2])[:60])
        return None

    def visit(x):
        if not isinstance(x, tuple) or not x:
            return
        if isinstance(x[0], str) and x[0] in ("sym", "attr", "item", "sub"):
            p = path_of(x)
            if p is not None:
                out.add(p)
                return
        for y in x[1:] if isinstance(x[0], str) else x:
            if isinstance(y, tuple):
                visit(y)
    visit(t)
    return out


_IGNORE_SYMS = {"np", "numpy", "os", "math", "PI", "None", "True", "False", "int", "float", "str", "len", "tuple", "list", "dict",
                "min", "max", "round", "abs", "range", "sum", "sorted", "isinstance", "type", "id", "WCS", "fits", "warnings"}


_NORMALISERS = {"abspath", "realpath", "normpath", "normcase", "lower", "upper", "casefold", "expanduser", "resolve", "strip", "str", "tuple", "frozenset"}


def _key_normaliser(t):
    """Name of the normalising function a table key is wrapped in (os.path.abspath(x), x.lower(), ...), or None."""
    if t[0] == "call":
        f = t[1]
        name = f[2] if f[0] == "attr" else (f[1] if f[0] == "sym" else None)
        if name in _NORMALISERS:
            return name
    return None


def _key_consistency(run, rule, project, modname, tabs, ev, modfuncs):
    """Every access of one shared table must spell its key the same way: an entry stored under abspath(p) is not found (or not
    removed) under p."""
    module_names = {k for k, (kind, n) in tabs.items() if kind == "module"}
    uses = {}
    for f in modfuncs:
        if f.module.kind != "py":
            continue
        if not any(isinstance(n, ast.Name) and n.id in module_names for n in own_nodes(f.node)):
            continue
        r = ev.run(f.node)
        for e in r.events:
            tname = key = how = None
            if e.kind == "store" and e.term[1][0][0] == "sub" and e.term[1][0][1][0] == "sym":
                tname, key, how = e.term[1][0][1][1].split("@")[0], e.term[1][0][2], "store"
            elif e.kind == "call" and e.term[1][0] == "attr" and e.term[1][1][0] == "sym" and e.term[1][2] in ("get", "pop", "setdefault", "__contains__") and e.term[2]:
                tname, key, how = e.term[1][1][1].split("@")[0], e.term[2][0], e.term[1][2]
            elif e.kind == "del" and e.term[0] == "sub" and e.term[1][0] == "sym":
                tname, key, how = e.term[1][1].split("@")[0], e.term[2], "del"
            if tname in module_names:
                uses.setdefault(tname, []).append((f, e, key, how))
    for tname, us in sorted(uses.items()):
        norms = {_key_normaliser(k) for f, e, k, how in us}
        if len(norms) > 1:
            with_n = [u for u in us if _key_normaliser(u[2]) is not None]
            without = [u for u in us if _key_normaliser(u[2]) != _key_normaliser(with_n[0][2])]
            f, e, k, how = without[0]
            run.violated(rule, f, e.node, "module-level table `%s` is filled under keys normalised with %s(...) (%s) but accessed here (%s) with the key %s: the two "
                         "spellings differ for some inputs (e.g. a relative path), so this %s misses the entry and a stale value is served later" % (
                             tname, _key_normaliser(with_n[0][2]), with_n[0][0].short, how, show(k)[:80], how), kind="memo-key-inconsistent", table=tname)
        elif us:
            run.holds(rule, us[0][0], us[0][1].node, "table `%s`: every access spells its key the same way" % tname, table=tname)


def check_module(run, rule, modname, funcs=None, only_funcs=None):
    """Apply both shared-state rules to the functions of *modname*.
    Returns the number of table uses examined."""
    project = run.project
    tabs = shared_tables(project, modname)
    n_uses = 0
    ev = sym.make_evaluator(project, modname, [])
    modfuncs = [f for f in project.functions_in(modname)]
    if only_funcs is not None:
        modfuncs = [f for f in modfuncs if f.qual in only_funcs]
    module_names = {k for k, (kind, n) in tabs.items() if kind == "module"}
    class_attrs = {}
    for k, (kind, n) in tabs.items():
        if kind in ("class", "instance"):
            cname, attr = k.split(".", 1)
            attr = attr.replace("self.", "")
            class_attrs.setdefault(cname, {})[attr] = kind
    importable = {"mid", "subsample"}
    mod = project.mod(modname)
    defined_funcs = {n.name for n in mod.tree.body if isinstance(n, (ast.FunctionDef, ast.ClassDef))}
    _key_consistency(run, rule, project, modname, tabs, ev, modfuncs)
    for f in modfuncs:
        if f.module.kind != "py":
            continue
        # which shared tables does f touch?
        used = {}
        for n in own_nodes(f.node):
            if isinstance(n, ast.Name) and n.id in module_names and n.id not in f.params():
                used[n.id] = ("module", ("sym", n.id))
            if isinstance(n, ast.Attribute) and isinstance(n.value, ast.Name) and n.value.id in ("self", "cls") and f.cls is not None:
                kind = class_attrs.get(f.cls.name, {}).get(n.attr)
                if kind:
                    used[n.attr] = (kind, ("attr", ("sym", n.value.id), n.attr))
        if not used:
            continue
        run.note_func(f)
        is_gen = any(isinstance(n, (ast.Yield, ast.YieldFrom)) for n in own_nodes(f.node))
        is_rec = any(isinstance(c.func, ast.Name) and c.func.id == f.name for c in own_calls(f.node))
        r = ev.run(f.node)
        params = set(f.params())
        for name, (kind, tterm) in sorted(used.items()):
            n_uses += 1
            def same_table(t):
                # inside a loop that mutates the table its name is a loop-carried symbol `name@L<k>`: still the same table
                if t[0] == "sym" and tterm[0] == "sym":
                    return t[1].split("@")[0] == tterm[1]
                return t == tterm
            stores = [e for e in r.events if e.kind == "store" and e.term[1][0][0] in ("sub", "item") and same_table(e.term[1][0][1])]
            muts = [e for e in r.events if e.kind == "call" and e.term[1][0] == "attr" and same_table(e.term[1][1])
                    and e.term[1][2] in sym.MUTATORS]
            # (a) memo-key completeness
            for e in stores:
                key = e.term[1][0][2] if e.term[1][0][0] == "sub" else sym.num(e.term[1][0][2])
                val = e.term[1][1]
                kp = _paths(key)
                vp = {p for p in _paths(val) if p.split(".")[0].split("#")[0].split("[")[0].split("@")[0] not in _IGNORE_SYMS}
                vp = {p for p in vp if not p.split(".")[0].split("#")[0].split("[")[0].startswith("<closure")}
                # per-instance tables: self is implicitly part of the key
                if kind == "instance":
                    kp = kp | {"self"}
                missing = set()
                for p in vp:
                    root = p.split(".")[0].split("#")[0].split("[")[0]
                    if root not in params and root not in ("self", "cls") and "@" not in root:
                        continue      # globals, helper functions: not an input of the call (loop-carried locals `v@L` are: they
                        # stand for values that differ from call to call)
                    if not any(p == q or p.startswith(q + ".") or p.startswith(q + "#") or p.startswith(q + "[") for q in kp):
                        missing.add(p)
                if missing:
                    run.violated(rule, f, e.node, "%s table `%s` is keyed by %s, but the stored value also depends on %s: a later call "
                                 "with the same key and a different %s gets the remembered (wrong) result" % (
                                     {"module": "module-level", "class": "class-level (shared by all instances)", "instance": "instance"}[kind],
                                     name, show(key)[:100], ", ".join(sorted(missing))[:160], sorted(missing)[0]),
                                 kind="memo-key-incomplete", table=name, key=show(key)[:160], missing=sorted(missing))
                else:
                    run.holds(rule, f, e.node, "table `%s`: stored value is determined by its key" % name, table=name)
            # (b) scratch state shared between live activations
            if muts and kind in ("module", "class") and (is_gen or is_rec):
                e = muts[0]
                run.violated(rule, f, e.node, "%s container `%s` is mutated (%s) inside a %s: two activations alive at the same time "
                             "(e.g. two enumerations consumed alternately, or one nested in the other) corrupt each other" % (
                                 "module-level" if kind == "module" else "class-level", name, e.term[1][2],
                                 "generator" if is_gen else "recursive function"), kind="shared-scratch-state", table=name)
            elif muts and not stores:
                run.holds(rule, f, muts[0].node, "container `%s` mutated outside generators/recursion" % name, table=name)
    return n_uses


POSITIVE_EXAMPLE = '''
_cache = {}
def get_coords(tile):
    if tile.pos in _cache:
        return _cache[tile.pos]
    r = compute(tile.corners, tile.increasing)
    _cache[tile.pos] = r
    return r
'''


def selfcheck():
    """The built-in positive example must be flagged on every run (vacuity guard
    for rules whose expected violation count on the repository is zero)."""
    from sa.model import Project
    from sa import report
    import os, tempfile
    p = Project.__new__(Project)
    p.root = "<memo-selfcheck>"
    p.overrides = {}
    p.modules, p.funcs, p.classes, p.parse_errors = {}, {}, {}, []
    from sa.model import Module
    tree = ast.parse(POSITIVE_EXAMPLE)
    m = Module("toasty._memo_example", "toasty/_memo_example.py", POSITIVE_EXAMPLE, tree)
    p.modules[m.name] = m
    p._index(m)
    r = report.Run("SELF", p, "quick")
    check_module(r, "memo.selfcheck", m.name)
    return any(o.verdict == report.VIOLATED and o.kind == "memo-key-incomplete" for o in r.obs)
