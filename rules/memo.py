"""Shared-state rules used by several properties (A3 dependence analysis).

* memo-key completeness: a value stored in a table that outlives the call
  (module level, class-level default, instance attribute) must be determined by
  its key: every input the stored value depends on must be covered by the key
  (or by the owner of the table, for per-instance tables).
* scratch state: a module-level / class-level mutable container mutated inside
  a generator (or a recursive function) is shared between activations that are
  alive at the same time.

Both are decided on canonical terms produced by the abstract evaluator.
"""
import ast

from sa import sym
from sa.sym import show, atoms_of
from sa.model import dotted, own_nodes, own_calls

_MUT_CTORS = {"dict", "list", "set", "OrderedDict", "defaultdict", "deque", "WeakValueDictionary", "WeakKeyDictionary"}


def _is_mutable_literal(v):
    if isinstance(v, (ast.Dict, ast.List, ast.Set)):
        return True
    if isinstance(v, ast.Call):
        d = dotted(v.func)
        if d and d.split(".")[-1] in _MUT_CTORS:
            return True
    return False


def shared_tables(project, modname):
    """{name: (kind, node)} for module-level mutable containers, class-level
    mutable defaults ('Class.attr') and instance tables ('self.attr' set in __init__)."""
    mod = project.mod(modname)
    out = {}
    for n in mod.tree.body:
        if isinstance(n, ast.Assign) and len(n.targets) == 1 and isinstance(n.targets[0], ast.Name) and _is_mutable_literal(n.value):
            out[n.targets[0].id] = ("module", n)
        if isinstance(n, ast.ClassDef):
            for m in n.body:
                if isinstance(m, ast.Assign) and len(m.targets) == 1 and isinstance(m.targets[0], ast.Name) and _is_mutable_literal(m.value):
                    out["%s.%s" % (n.name, m.targets[0].id)] = ("class", m)
                if isinstance(m, ast.FunctionDef) and m.name == "__init__":
                    for s in ast.walk(m):
                        if isinstance(s, ast.Assign) and len(s.targets) == 1 and isinstance(s.targets[0], ast.Attribute) \
                                and isinstance(s.targets[0].value, ast.Name) and s.targets[0].value.id == "self" and _is_mutable_literal(s.value):
                            out["%s.self.%s" % (n.name, s.targets[0].attr)] = ("instance", s)
    return out


def _paths(t):
    """Access paths (sym with attribute/item chain) a term depends on."""
    out = set()

    def path_of(x):
        if x[0] == "sym":
            return x[1]
        if x[0] == "attr":
            p = path_of(x[1])
            return None if p is None else p + "." + x[2]
        if x[0] == "item":
            p = path_of(x[1])
            return None if p is None else "%s#%s" % (p, x[2])
        if x[0] == "elem":
            p = path_of(x[1])
            return None if p is None else p + "[*]"
        if x[0] == "sub":
            p = path_of(x[1])
            return None if p is None else "%s[%s]" % (p, show(x[2])[:60])
        return None

    def visit(x):
        if not isinstance(x, tuple) or not x:
            return
        if isinstance(x[0], str) and x[0] in ("sym", "attr", "item", "sub"):
            p = path_of(x)
            if p is not None:
                out.add(p)
                return
        for y in x[1:] if isinstance(x[0], str) else x:
            if isinstance(y, tuple):
                visit(y)
    visit(t)
    return out


_IGNORE_SYMS = {"np", "numpy", "os", "math", "PI", "None", "True", "False", "int", "float", "str", "len", "tuple", "list", "dict",
                "min", "max", "round", "abs", "range", "sum", "sorted", "isinstance", "type", "id", "WCS", "fits", "warnings"}


_NORMALISERS = {"abspath", "realpath", "normpath", "normcase", "lower", "upper", "casefold", "expanduser", "resolve", "strip", "str", "tuple", "frozenset"}


def _key_normaliser(t):
    """Name of the normalising function a table key is wrapped in (os.path.abspath(x), x.lower(), ...), or None."""
    if t[0] == "call":
        f = t[1]
        name = f[2] if f[0] == "attr" else (f[1] if f[0] == "sym" else None)
        if name in _NORMALISERS:
            return name
    return None


def _key_consistency(run, rule, project, modname, tabs, ev, modfuncs):
    """Every access of one shared table must spell its key the same way: an entry stored under abspath(p) is not found (or not
    removed) under p."""
    module_names = {k for k, (kind, n) in tabs.items() if kind == "module"}
    uses = {}
    for f in modfuncs:
        if f.module.kind != "py":
            continue
        if not any(isinstance(n, ast.Name) and n.id in module_names for n in own_nodes(f.node)):
            continue
        r = ev.run(f.node)
        for e in r.events:
            tname = key = how = None
            if e.kind == "store" and e.term[1][0][0] == "sub" and e.term[1][0][1][0] == "sym":
                tname, key, how = e.term[1][0][1][1].split("@")[0], e.term[1][0][2], "store"
            elif e.kind == "call" and e.term[1][0] == "attr" and e.term[1][1][0] == "sym" and e.term[1][2] in ("get", "pop", "setdefault", "__contains__") and e.term[2]:
                tname, key, how = e.term[1][1][1].split("@")[0], e.term[2][0], e.term[1][2]
            elif e.kind == "del" and e.term[0] == "sub" and e.term[1][0] == "sym":
                tname, key, how = e.term[1][1].split("@")[0], e.term[2], "del"
            if tname in module_names:
                uses.setdefault(tname, []).append((f, e, key, how))
    for tname, us in sorted(uses.items()):
        norms = {_key_normaliser(k) for f, e, k, how in us}
        if len(norms) > 1:
            with_n = [u for u in us if _key_normaliser(u[2]) is not None]
            without = [u for u in us if _key_normaliser(u[2]) != _key_normaliser(with_n[0][2])]
            f, e, k, how = without[0]
            run.violated(rule, f, e.node, "module-level table `%s` is filled under keys normalised with %s(...) (%s) but accessed here (%s) with the key %s: the two "
                         "spellings differ for some inputs (e.g. a relative path), so this %s misses the entry and a stale value is served later" % (
                             tname, _key_normaliser(with_n[0][2]), with_n[0][0].short, how, show(k)[:80], how), kind="memo-key-inconsistent", table=tname)
        elif us:
            run.holds(rule, us[0][0], us[0][1].node, "table `%s`: every access spells its key the same way" % tname, table=tname)


# calls whose result describes the state of the outside world at the moment of the call (files, directories, URLs): a
# remembered copy goes stale when another process -- or a later step of this one -- changes that state
_VOLATILE_FUNCS = {"open", "os.path.isdir", "os.path.exists", "os.path.isfile", "os.path.getmtime", "os.path.getsize", "os.stat", "os.listdir",
                   "os.scandir", "os.walk", "os.access", "os.path.lexists", "os.path.islink", "glob.glob", "glob", "np.load", "numpy.load", "fits.open"}
_VOLATILE_METHODS = {"from_file", "from_url", "read_image", "read_text", "read_bytes", "exists", "is_dir", "is_file", "stat", "iterdir", "load_path", "open"}


def volatile_reads(t):
    """Names of the calls inside a term that read the outside world."""
    out = []

    def walk(x):
        if isinstance(x, tuple):
            if x and x[0] == "call":
                nm = show(x[1])
                if nm in _VOLATILE_FUNCS or nm.split(".")[-1] in ("isdir", "isfile", "getmtime", "getsize", "listdir", "scandir", "lexists") \
                        or (x[1][0] == "attr" and x[1][2] in _VOLATILE_METHODS and nm not in ("self.exists",)):
                    out.append(nm[:60])
            for y in x:
                if isinstance(y, tuple):
                    walk(y)
    walk(t)
    return out


_CACHE_DECORATORS = ("lru_cache", "cache", "cached_property", "memoize", "memoized")


def check_cached_functions(run, rule, modname):
    """Functions memoised by a decorator (functools.lru_cache / cache): the key is the argument tuple, so it is complete by
    construction -- but the remembered value must not be a reading of the outside world (a file parsed, a directory tested).
    Returns the number of decorated functions examined."""
    project = run.project
    n = 0
    ev = sym.make_evaluator(project, modname, [], inline_local=True)
    for f in project.functions_in(modname):
        if f.module.kind != "py":
            continue
        decos = [(dotted(d.func if isinstance(d, ast.Call) else d) or "") for d in f.node.decorator_list]
        if not any(d.split(".")[-1] in _CACHE_DECORATORS for d in decos):
            continue
        n += 1
        run.note_func(f)
        try:
            r = ev.run(f.node)
        except Exception:
            run.undecided(rule, f, None, "cannot evaluate the memoised function %s" % f.short, kind="memo-decorated-unevaluated")
            continue
        reads = []
        for pc, v, node in r.returns:
            reads += volatile_reads(v)
        for e in r.events:
            if e.kind == "call":
                reads += volatile_reads(e.term)
        if reads:
            run.violated(rule, f, f.node, "%s is memoised by its arguments (%s) but its result is read from the outside world (%s): when the file / directory "
                         "changes -- e.g. the output is regenerated -- later calls still get the remembered, stale result" % (
                             f.short, ", ".join(f.params()) or "none", ", ".join(sorted(set(reads)))[:120]), kind="memo-of-volatile", reads=sorted(set(reads)))
        else:
            run.holds(rule, f, f.node, "%s is memoised by its arguments and reads nothing from the outside world" % f.short)
    return n


def _root_path(t):
    """'self._a' / 'self' for an attribute chain rooted at a symbol, else None."""
    if t[0] == "sym":
        return t[1]
    if t[0] == "attr":
        b = _root_path(t[1])
        return None if b is None else b + "." + t[2]
    return None


def attribute_caches(project, modname):
    """Attribute caches of the classes of *modname*: a method stores `self.X = V` only while `self.X is None` (compute once,
    remember on the object).  -> [(class name, X, method Func, store event, dependencies)], where dependencies is the set of
    attribute names of self the remembered value was computed from, or None for "the object as a whole" (self passed on /
    a method of self called)."""
    out = []
    ev = sym.make_evaluator(project, modname, [])
    for f in project.functions_in(modname):
        if f.module.kind != "py" or f.cls is None or "self" not in ([a.arg for a in f.node.args.args][:1]):
            continue
        if not any(isinstance(n, ast.Attribute) and isinstance(n.ctx, ast.Store) and isinstance(n.value, ast.Name) and n.value.id == "self" for n in own_nodes(f.node)):
            continue
        try:
            r = ev.run(f.node)
        except Exception:
            continue
        for e in r.events:
            if e.kind != "store" or e.term[1][0][0] != "attr" or e.term[1][0][1] != ("sym", "self"):
                continue
            x = e.term[1][0][2]
            me = ("attr", ("sym", "self"), x)
            guarded = any(pol and c == ("op", "cmp:Is", tuple(sorted((me, sym.NONE), key=sym._key))) for c, pol in e.pc if c != "loop" and c[0] != "loop")
            if not guarded:
                continue
            val = e.term[1][1]
            if val == sym.NONE:
                continue
            # "compute once and hand out": the method's result is the remembered attribute (filling in a default for a
            # configuration attribute -- `if self.out_dir is None: self.out_dir = ...` -- is not a cache)
            if not any(me in _all_subterms(v) or val in _all_subterms(v) for _pc, v, _n in r.returns):
                continue
            deps = set()
            whole = False
            for a in sym.atoms_of(val) | set(_all_subterms(val)):
                if a == ("sym", "self"):
                    pass
            for tsub in _all_subterms(val):
                if tsub[0] == "call":
                    if tsub[1][0] == "attr" and tsub[1][1] == ("sym", "self"):
                        whole = True            # a method of self computes it
                    if ("sym", "self") in tsub[2] or any(v == ("sym", "self") for _k, v in tsub[3]):
                        whole = True            # self handed to someone else
                if tsub[0] == "attr" and tsub[1] == ("sym", "self") and tsub[2] != x:
                    deps.add(tsub[2])
            out.append((f.cls.name, x, f, e, None if whole else deps))
    return out


def _all_subterms(t, acc=None):
    acc = [] if acc is None else acc
    if isinstance(t, tuple):
        if t and isinstance(t[0], str):
            acc.append(t)
        for y in t:
            if isinstance(y, tuple):
                _all_subterms(y, acc)
    return acc


def check_attribute_caches(run, rule, modname, writer_modules=None):
    """A value remembered on the object (see attribute_caches) must be forgotten whenever something it was computed from
    changes.  Writers of those attributes are looked for in the whole package: construction of a fresh object is fine (the
    cache starts empty), a method or helper that changes them on an object that may already carry a remembered value (self
    outside __init__, a copy of an existing object) must reset the cache in the same function.  A cache computed from the
    object as a whole, or from a public data attribute that callers may assign, with nothing invalidating it, is reported too.
    Returns the number of caches found."""
    project = run.project
    caches = attribute_caches(project, modname)
    if not caches:
        return 0
    evs = {}
    for cname, x, f, e, deps in caches:
        run.note_func(f)
        cls_q = modname + "." + cname
        problems = []
        # public data attributes of the class: assigned on self / on a fresh instance in __init__ or a factory, not properties
        cls_node = f.cls
        props = {m.name for m in cls_node.body if isinstance(m, ast.FunctionDef) and any((dotted(d) or "").endswith(("property", "setter")) for d in m.decorator_list)}
        public = set()
        for m in cls_node.body:
            if isinstance(m, ast.FunctionDef):
                for n in ast.walk(m):
                    if isinstance(n, ast.Attribute) and isinstance(n.ctx, ast.Store) and not n.attr.startswith("_") and n.attr not in props \
                            and isinstance(n.value, ast.Name) and n.value.id in ("self", "inst", "obj", "new"):
                        public.add(n.attr)
            if isinstance(m, ast.Assign):
                for t_ in m.targets:
                    if isinstance(t_, ast.Name) and not t_.id.startswith("_"):
                        public.add(t_.id)
        reads_public = sorted(public if deps is None else (deps & public))
        # writers
        for g in project.py_funcs():
            if "/tests/" in g.module.relpath or (writer_modules is not None and g.module.name not in writer_modules):
                continue
            names = {n.attr for n in own_nodes(g.node) if isinstance(n, ast.Attribute) and isinstance(n.ctx, ast.Store)}
            watch = names if deps is None else (names & deps)
            watch = {w for w in watch if w != x}
            if not watch:
                continue
            in_class = g.cls is not None and g.cls.name == cname and g.module.name == modname
            mentions_class = in_class or any(isinstance(n, ast.Name) and n.id in (cname, "copy", "deepcopy") for n in own_nodes(g.node))
            if not mentions_class:
                continue
            ev = evs.setdefault(g.module.name, sym.make_evaluator(project, g.module.name, []))
            try:
                rg = ev.run(g.node)
            except Exception:
                continue
            stores = [s_ for s_ in rg.events if s_.kind == "store" and s_.term[1][0][0] == "attr"]
            resets = {s_.term[1][0][1] for s_ in stores if s_.term[1][0][2] == x and s_.term[1][1] == sym.NONE}
            for s_ in stores:
                recv, name = s_.term[1][0][1], s_.term[1][0][2]
                if name not in watch:
                    continue
                fresh = False
                if recv[0] == "call":
                    callee = show(recv[1])
                    if callee in (cname, "cls", "cls.__new__", "object.__new__", cname + ".__new__") or callee.endswith("." + cname):
                        fresh = True
                    is_copy = callee.split(".")[-1] in ("copy", "deepcopy")
                    if not fresh and not is_copy:
                        continue            # some other object
                elif recv == ("sym", "self"):
                    if not in_class:
                        continue
                    if g.name == "__init__":
                        fresh = True
                else:
                    continue
                if fresh or recv in resets:
                    continue
                problems.append((g, s_, "%s changes `%s` of %s without resetting `%s`" % (g.short, name, "a copy of an existing object (which carries the remembered value along)"
                                                                                     if recv[0] == "call" else "the object", x)))
        if problems:
            g, s_, msg = problems[0]
            run.violated(rule, g, s_.node, "%s.%s remembers a value computed from %s in `%s`; %s: later answers are the stale remembered value" % (
                cname, f.name, "the object's state" if deps is None else sorted(deps), x, msg), kind="attribute-cache-stale", cache=x)
        elif reads_public:
            run.violated(rule, f, e.node, "%s.%s remembers its result in `%s`, but the result depends on the public attribute(s) %s, which callers may assign after the first "
                         "call; nothing forgets the remembered value then" % (cname, f.name, x, reads_public[:4]), kind="attribute-cache-public-input", cache=x)
        else:
            run.holds(rule, f, e.node, "%s.%s: the value remembered in `%s` is computed from attributes that only construction writes" % (cname, f.name, x))
    return len(caches)


def check_global_memos(run, rule, modname):
    """A module-level variable that a function both consults and rebinds (`global G`): "the result of the previous call".
    The new value is stored under a guard that compares what G held with some inputs (the key); as for tables, everything the
    stored value depends on must be part of that comparison.  Returns the number of such variables examined."""
    project = run.project
    ev = sym.make_evaluator(project, modname, [])
    n = 0
    for f in project.functions_in(modname):
        if f.module.kind != "py":
            continue
        gnames = {nm for st in own_nodes(f.node) if isinstance(st, ast.Global) for nm in st.names}
        if not gnames:
            continue
        try:
            # what the variable holds on entry is whatever an earlier call left there, not the module's initial value
            r = ev.run(f.node, env={g: ("sym", g) for g in gnames})
        except Exception:
            continue
        params = set(f.params())
        for g in sorted(gnames):
            gsym = ("sym", g)
            assigns = [e for e in r.events if e.kind == "assign" and e.term[1][0] == gsym]
            reads = any(isinstance(x, ast.Name) and x.id == g and isinstance(x.ctx, ast.Load) for x in own_nodes(f.node))
            if not assigns or not reads:
                continue
            n += 1
            run.note_func(f)
            for e in assigns:
                val = e.term[1][1]
                if val == sym.NONE or val[0] == "const":
                    run.holds(rule, f, e.node, "global `%s` is reset to a constant" % g, table=g)
                    continue
                vol = volatile_reads(val)
                if vol:
                    run.violated(rule, f, e.node, "global `%s` remembers a reading of the outside world (%s)" % (g, ", ".join(sorted(set(vol)))[:100]), kind="memo-of-volatile", table=g)
                    continue
                # the key: inputs compared with the old content of G on the way to this store
                kp = set()
                for c, _pol in e.pc:
                    if c == "loop" or c[0] == "loop":
                        continue
                    if any(a == gsym or (a[0] == "sym" and a[1].split("@")[0] == g) for a in atoms_of(c)) or gsym in _all_subterms(c):
                        kp |= {p_ for p_ in _paths(c) if p_.split(".")[0].split("#")[0].split("[")[0] != g}
                vp = {p_ for p_ in _paths(val) if p_.split(".")[0].split("#")[0].split("[")[0].split("@")[0] in params}
                missing = {p_ for p_ in vp if not any(p_ == q or p_.startswith(q + ".") or p_.startswith(q + "#") or p_.startswith(q + "[") for q in kp)}
                if missing:
                    run.violated(rule, f, e.node, "module-level `%s` remembers the previous result and is reused when %s matches, but the remembered value also depends on %s: "
                                 "a call with the same %s and a different %s gets the previous (wrong) result" % (
                                     g, sorted(kp) or "nothing", ", ".join(sorted(missing))[:120], sorted(kp)[0] if kp else "arguments", sorted(missing)[0]),
                                 kind="memo-key-incomplete", table=g, missing=sorted(missing))
                else:
                    run.holds(rule, f, e.node, "global `%s`: the remembered value is determined by what it is compared with" % g, table=g)
    return n


def _module_level_singleton(project, f):
    """Is the class of method *f* instantiated once at module level (`NAME = Cls(...)` as a top-level statement of its module)?
    Such an instance is shared by every caller of the module, like a module-level table."""
    if f.cls is None:
        return False
    try:
        mod = project.mod(f.module.name)
    except Exception:
        return False
    for n in mod.tree.body:
        if isinstance(n, (ast.Assign, ast.AnnAssign)) and isinstance(getattr(n, "value", None), ast.Call):
            d = dotted(n.value.func)
            if d and d.split(".")[-1] == f.cls.name:
                return True
    return False


def check_class_stores(run, rule, modname, modfuncs):
    """A function that assigns an attribute of a *class object* at run time -- `cls.x = v`, `setattr(cls, name, v)` in a
    classmethod, `ClassName.x = v`, `type(self).x = v` -- changes the default every other instance sees: what one call
    selected survives into objects created later in the process.  (Class bodies and module-level configuration are not
    functions and are not looked at.)"""
    project = run.project
    mod = project.mod(modname)
    class_names = {n.name for n in mod.tree.body if isinstance(n, ast.ClassDef)}
    for f in modfuncs:
        if f.module.kind != "py":
            continue
        is_cm = any((dotted(d) or "").split(".")[-1] == "classmethod" for d in f.node.decorator_list)
        ps = f.params()
        cls_param = ps[0] if (is_cm and ps) else None
        rebound = {n.id for n in own_nodes(f.node) if isinstance(n, ast.Name) and isinstance(n.ctx, ast.Store)}

        def is_class_obj(x):
            if isinstance(x, ast.Name):
                if x.id in rebound:
                    return False
                return (cls_param is not None and x.id == cls_param) or (x.id in class_names and x.id not in ps)
            if isinstance(x, ast.Call) and isinstance(x.func, ast.Name) and x.func.id == "type" and len(x.args) == 1:
                return True
            if isinstance(x, ast.Attribute) and x.attr == "__class__":
                return True
            return False
        for n in own_nodes(f.node):
            hit = None
            if isinstance(n, (ast.Assign, ast.AugAssign, ast.AnnAssign)):
                tg = n.targets if isinstance(n, ast.Assign) else [n.target]
                for t_ in tg:
                    for x in ast.walk(t_):
                        if isinstance(x, ast.Attribute) and isinstance(x.ctx, ast.Store) and is_class_obj(x.value):
                            hit = "%s.%s = ..." % (ast.unparse(x.value), x.attr)
            elif isinstance(n, ast.Call) and isinstance(n.func, ast.Name) and n.func.id == "setattr" and len(n.args) == 3 and is_class_obj(n.args[0]):
                hit = "setattr(%s, %s, ...)" % (ast.unparse(n.args[0]), ast.unparse(n.args[1])[:30])
            if hit:
                run.note_func(f)
                run.violated(rule, f, n, "%s executes `%s`: it stores into the class object, not into the instance it is configuring, so the value becomes the default of "
                             "every object of the class created afterwards in this process (a later call that leaves the option out inherits the earlier call's "
                             "selection)" % (f.short, hit), kind="class-object-store", table=hit.split(" ")[0])


def check_keyed_attribute_caches(run, rule, modname):
    """`key = (self.a, self.b); if self._c is not None and self._c[0] == key: return self._c[1]; ...; self._c = (key, value)`:
    a cache on the object with an explicit key.  Every field of the object that the method reads itself while computing the value
    must be part of the key -- otherwise changing that field (e.g. `subpyramid()` moving the apex) leaves a stale entry that still
    matches.  Only the method's own reads are examined (fields read further down, in the methods it calls, are not: no alarm
    is raised on their account).  Returns the number of caches examined."""
    project = run.project
    n = 0
    for f in project.functions_in(modname):
        if f.cls is None or f.module.kind != "py":
            continue
        stores = [a for a in own_nodes(f.node) if isinstance(a, ast.Assign) and len(a.targets) == 1 and isinstance(a.targets[0], ast.Attribute)
                  and isinstance(a.targets[0].value, ast.Name) and a.targets[0].value.id == "self" and isinstance(a.value, ast.Tuple) and len(a.value.elts) == 2]
        for st in stores:
            cname = st.targets[0].attr
            # the comparison `self.<c>[0] == key`
            cmps = [c for c in own_nodes(f.node) if isinstance(c, ast.Compare) and len(c.ops) == 1 and isinstance(c.ops[0], ast.Eq)
                    and any(isinstance(x, ast.Subscript) and isinstance(x.value, ast.Attribute) and x.value.attr == cname for x in [c.left] + c.comparators)]
            if not cmps:
                continue
            key_expr = st.value.elts[0]
            if isinstance(key_expr, ast.Name):
                defs = [a for a in own_nodes(f.node) if isinstance(a, ast.Assign) and len(a.targets) == 1 and isinstance(a.targets[0], ast.Name) and a.targets[0].id == key_expr.id]
                if len(defs) != 1:
                    continue
                key_expr = defs[0].value
            n += 1
            run.note_func(f)
            in_key = {x.attr for x in ast.walk(key_expr) if isinstance(x, ast.Attribute) and isinstance(x.value, ast.Name) and x.value.id == "self"}
            called = {id(c.func) for c in own_calls(f.node)}
            reads = {}
            for x in own_nodes(f.node):
                if isinstance(x, ast.Attribute) and isinstance(x.value, ast.Name) and x.value.id == "self" and isinstance(x.ctx, ast.Load) and id(x) not in called \
                        and x.attr != cname:
                    reads.setdefault(x.attr, x)
            missing = sorted(a for a in reads if a not in in_key)
            if missing:
                run.violated(rule, f, reads[missing[0]], "%s caches its result in self.%s under the key %s, but it also reads self.%s while computing it: after that field "
                             "changes (a sub-pyramid with another apex, another filter, ...) the stale entry still matches and is handed back" % (
                                 f.short, cname, ast.unparse(key_expr)[:80], ", self.".join(missing)), kind="attr-cache-key-incomplete", table=cname, missing=missing)
            else:
                run.holds(rule, f, st, "%s: every field it reads itself is part of the cache key %s" % (f.short, ast.unparse(key_expr)[:60]), table=cname)
    return n


def check_module(run, rule, modname, funcs=None, only_funcs=None):
    """Apply both shared-state rules to the functions of *modname*.
    Returns the number of table uses examined."""
    project = run.project
    tabs = shared_tables(project, modname)
    n_uses = 0
    ev = sym.make_evaluator(project, modname, [])
    modfuncs = [f for f in project.functions_in(modname)]
    if only_funcs is not None:
        modfuncs = [f for f in modfuncs if f.qual in only_funcs]
    module_names = {k for k, (kind, n) in tabs.items() if kind == "module"}
    class_attrs = {}
    for k, (kind, n) in tabs.items():
        if kind in ("class", "instance"):
            cname, attr = k.split(".", 1)
            attr = attr.replace("self.", "")
            class_attrs.setdefault(cname, {})[attr] = kind
    importable = {"mid", "subsample"}
    mod = project.mod(modname)
    defined_funcs = {n.name for n in mod.tree.body if isinstance(n, (ast.FunctionDef, ast.ClassDef))}
    _key_consistency(run, rule, project, modname, tabs, ev, modfuncs)
    check_class_stores(run, rule, modname, modfuncs)
    # which tables hand their content back to a caller?  (a remembered *result*; a table that is only consulted for decisions --
    # readiness flags, a set of seen items -- is state of an algorithm, and what its entries "depend on" is its business)
    handed_back = set()
    all_results = {}
    for f in [g_ for g_ in project.functions_in(modname) if g_.module.kind == "py"]:
        names_used = {n_.id for n_ in own_nodes(f.node) if isinstance(n_, ast.Name)} | {n_.attr for n_ in own_nodes(f.node) if isinstance(n_, ast.Attribute)}
        cand = [k for k in tabs if k.split(".")[-1] in names_used]
        if not cand:
            continue
        try:
            rr = all_results[f.qual] = ev.run(f.node)
        except Exception:
            continue
        outs = [v for _pc, v, _n in rr.returns] + [v for _pc, v, _n in rr.yields]
        for k in cand:
            short = k.split(".")[-1]
            def is_tab(t):
                return (t[0] == "sym" and t[1].split("@")[0] == short) or (t[0] == "attr" and t[2] == short and t[1] in (("sym", "self"), ("sym", "cls")))
            for v in outs:
                if any((a[0] in ("sub", "item") and is_tab(a[1])) or (a[0] == "call" and a[1][0] == "attr" and a[1][2] in ("get", "setdefault", "pop") and is_tab(a[1][1]))
                       for a in _all_subterms(v)) or is_tab(v):
                    handed_back.add(k)
    n_uses += check_cached_functions(run, rule, modname)
    if only_funcs is None:
        n_uses += check_attribute_caches(run, rule, modname)
        n_uses += check_global_memos(run, rule, modname)
    for f in modfuncs:
        if f.module.kind != "py":
            continue
        # which shared tables does f touch?
        used = {}
        for n in own_nodes(f.node):
            if isinstance(n, ast.Name) and n.id in module_names and n.id not in f.params():
                used[n.id] = ("module", ("sym", n.id))
            if isinstance(n, ast.Attribute) and isinstance(n.value, ast.Name) and n.value.id in ("self", "cls") and f.cls is not None:
                kind = class_attrs.get(f.cls.name, {}).get(n.attr)
                if kind:
                    used[n.attr] = (kind, ("attr", ("sym", n.value.id), n.attr))
        if not used:
            continue
        run.note_func(f)
        is_gen = any(isinstance(n, (ast.Yield, ast.YieldFrom)) for n in own_nodes(f.node))
        is_rec = any(isinstance(c.func, ast.Name) and c.func.id == f.name for c in own_calls(f.node))
        r = ev.run(f.node)
        params = set(f.params())
        for name, (kind, tterm) in sorted(used.items()):
            n_uses += 1
            def same_table(t):
                # inside a loop that mutates the table its name is a loop-carried symbol `name@L<k>`: still the same table
                if t[0] == "sym" and tterm[0] == "sym":
                    return t[1].split("@")[0] == tterm[1]
                return t == tterm
            stores = [e for e in r.events if e.kind == "store" and e.term[1][0][0] in ("sub", "item") and same_table(e.term[1][0][1])]
            muts = [e for e in r.events if e.kind == "call" and e.term[1][0] == "attr" and same_table(e.term[1][1])
                    and e.term[1][2] in sym.MUTATORS]
            # (a) memo-key completeness
            tab_key = [k for k in tabs if k.split(".")[-1] == name]
            if stores and tab_key and not any(k in handed_back for k in tab_key) and kind == "instance":
                run.holds(rule, f, stores[0].node, "instance table `%s` is consulted for decisions only (no function hands its entries back): algorithm state, not a "
                          "remembered result" % name, table=name)
                continue
            for e in stores:
                key = e.term[1][0][2] if e.term[1][0][0] == "sub" else sym.num(e.term[1][0][2])
                val = e.term[1][1]
                kp = _paths(key)
                vp = {p for p in _paths(val) if p.split(".")[0].split("#")[0].split("[")[0].split("@")[0] not in _IGNORE_SYMS}
                vp = {p for p in vp if not p.split(".")[0].split("#")[0].split("[")[0].startswith("<closure")}
                # per-instance tables: self is implicitly part of the key
                if kind == "instance":
                    kp = kp | {"self"}
                missing = set()
                for p in vp:
                    root = p.split(".")[0].split("#")[0].split("[")[0]
                    if root not in params and root not in ("self", "cls") and "@" not in root:
                        continue      # globals, helper functions: not an input of the call (loop-carried locals `v@L` are: they
                        # stand for values that differ from call to call)
                    if not any(p == q or p.startswith(q + ".") or p.startswith(q + "#") or p.startswith(q + "[") for q in kp):
                        missing.add(p)
                # an accumulator (`t[k] = t.get(k, 0) | bit`, `t[k] = t[k] + x`): the new value is built from what the table already
                # holds under this key -- that is state being updated, not a remembered result that a later call could wrongly reuse
                reads_self = [a for a in _all_subterms(val) if (a[0] in ("sub", "item") and same_table(a[1])) or
                              (a[0] == "call" and a[1][0] == "attr" and a[1][2] in ("get", "setdefault", "pop") and same_table(a[1][1]))]
                if reads_self:
                    run.holds(rule, f, e.node, "table `%s` is an accumulator (the stored value is computed from the entry it replaces)" % name, table=name)
                    continue
                vol = volatile_reads(val)
                if vol:
                    run.violated(rule, f, e.node, "%s table `%s` remembers a reading of the outside world (%s) under key %s: when another process (a parallel "
                                 "worker) or a later step changes that state, this object keeps answering from its stale copy" % (
                                     {"module": "module-level", "class": "class-level", "instance": "instance"}[kind], name, ", ".join(sorted(set(vol)))[:100],
                                     show(key)[:80]), kind="memo-of-volatile", table=name, reads=sorted(set(vol)))
                    continue
                projection = bool(missing) and all(any(q.startswith(p_ + ".") or q.startswith(p_ + "#") or q.startswith(p_ + "[") for q in kp) for p_ in missing)
                if missing and projection and kind == "instance" and not _module_level_singleton(project, f):
                    # keyed by a field of the very object the value is computed from (`t[tile.pos] = f(tile)`) in a table that belongs to
                    # one instance: whether that field determines the object *among the objects this instance ever sees* is an invariant
                    # of the instance (e.g. one locator per coordinate system) that the analysis does not have
                    run.undecided(rule, f, e.node, "instance table `%s` is keyed by %s, a field of %s, on which the stored value depends as a whole: correct exactly if "
                                  "that field determines the object among all objects one instance is used with (not decided)" % (
                                      name, show(key)[:80], sorted(missing)[0]), kind="memo-key-projection", table=name)
                    continue
                if missing:
                    run.violated(rule, f, e.node, "%s table `%s` is keyed by %s, but the stored value also depends on %s: a later call "
                                 "with the same key and a different %s gets the remembered (wrong) result" % (
                                     {"module": "module-level", "class": "class-level (shared by all instances)", "instance": "instance"}[kind],
                                     name, show(key)[:100], ", ".join(sorted(missing))[:160], sorted(missing)[0]),
                                 kind="memo-key-incomplete", table=name, key=show(key)[:160], missing=sorted(missing))
                else:
                    run.holds(rule, f, e.node, "table `%s`: stored value is determined by its key" % name, table=name)
            # (c) a class-level mutable default that instance methods fill through `self`: every instance writes into the one
            # container of the class, so what one object (one walk, one tiling) left there is seen by the next
            if kind == "class" and (stores or muts) and tterm[0] == "attr" and tterm[1] == ("sym", "self"):
                e0 = (stores or muts)[0]
                run.violated(rule, f, e0.node, "`%s` is a class-level container (one object shared by every instance of %s) but %s fills it through `self`: entries "
                             "left by one instance -- an earlier walk / tiling in the same process -- are still there for the next" % (
                                 name, f.cls.name if f.cls is not None else "the class", f.short), kind="class-level-state", table=name)
                continue
            # (b) scratch state shared between live activations
            if muts and kind in ("module", "class") and (is_gen or is_rec):
                e = muts[0]
                run.violated(rule, f, e.node, "%s container `%s` is mutated (%s) inside a %s: two activations alive at the same time "
                             "(e.g. two enumerations consumed alternately, or one nested in the other) corrupt each other" % (
                                 "module-level" if kind == "module" else "class-level", name, e.term[1][2],
                                 "generator" if is_gen else "recursive function"), kind="shared-scratch-state", table=name)
            elif muts and not stores:
                run.holds(rule, f, muts[0].node, "container `%s` mutated outside generators/recursion" % name, table=name)
    return n_uses


POSITIVE_EXAMPLE = '''
_cache = {}
def get_coords(tile):
    if tile.pos in _cache:
        return _cache[tile.pos]
    r = compute(tile.corners, tile.increasing)
    _cache[tile.pos] = r
    return r
'''


def selfcheck():
    """The built-in positive example must be flagged on every run (vacuity guard
    for rules whose expected violation count on the repository is zero)."""
    from sa.model import Project
    from sa import report
    import os, tempfile
    p = Project.__new__(Project)
    p.root = "<memo-selfcheck>"
    p.overrides = {}
    p.modules, p.funcs, p.classes, p.parse_errors = {}, {}, {}, []
    from sa.model import Module
    tree = ast.parse(POSITIVE_EXAMPLE)
    m = Module("toasty._memo_example", "toasty/_memo_example.py", POSITIVE_EXAMPLE, tree)
    p.modules[m.name] = m
    p._index(m)
    r = report.Run("SELF", p, "quick")
    check_module(r, "memo.selfcheck", m.name)
    return any(o.verdict == report.VIOLATED and o.kind == "memo-key-incomplete" for o in r.obs)
