"""C10 - Concurrent updates of one tile never lose a contribution.

R1 in update_image the read, the yield and the write all happen while the lock is held, in that order
R2 the lock is an inter-process lock class of `filelock`, built per call from a path
R3 lock key: the path of the same tile (pos) plus a literal suffix; no process-local ingredient
R4 read and write address the same (pos, format); the image written is the one yielded
R5 who-may-RMW: functions reachable from parallel workers never read-modify-write a tile file
   outside update_image, and never write a tile unlocked in a mode where they also update it
R6 lock files are removed only by clean_lockfiles, which runs after the stage has joined its workers
"""
import ast

from sa import sym
from sa.sym import show, atoms_of, num_value
from sa.cfg import CFG, enclosing_stmts
from sa.model import dotted, own_calls, own_nodes, callee_attr
from . import common

P = "toasty.pyramid"

LOCK_CLASSES = {"SoftFileLock", "FileLock", "UnixFileLock", "WindowsFileLock"}
NOT_INTERPROCESS = {"Lock", "RLock", "Semaphore", "Condition"}   # threading.* / multiprocessing.* objects created per call
PROCESS_LOCAL = ("getpid", "getppid", "current_process", "current_thread", "get_ident", "time", "monotonic", "perf_counter",
                 "uuid1", "uuid4", "random", "randint", "mkstemp", "mkdtemp", "NamedTemporaryFile", "gettempdir", "id", "token_hex", "urandom")

EXPLANATION = (
    "On update_image's CFG a must-hold dataflow (lock acquired by `with <lock>` or acquire()/release()) decides that the "
    "tile read, the yield to the caller and the write-back all execute with the lock held, in that order; the lock "
    "object's class and the term of its path are extracted (it must be tile_path(pos) of the updated tile plus a "
    "literal, with no process-local ingredient in its dependence set); read and write are compared on (pos, format); "
    "a who-may-call query lists every tile write reachable from worker code and requires it to be outside any mode "
    "in which the same function updates the tile; unlinking of *.lock paths is allowed only in clean_lockfiles. With "
    "the filelock contract these premises serialise all read-modify-write sections of one tile file."
)

MANIFEST = {
    "technique": "static analysis: must-hold lock dataflow on the CFG (with-statement, acquire/release, context-manager helpers), dependence (information-flow) analysis of the lock key, who-may-write call-graph query, path-condition compatibility of locked vs unlocked writes; lock cleanup may not sit inside a with-block whose context manager (transitively, over the call graph) starts worker processes; lock cleanup inside a stage is not reachable between worker start and join (CFG path query); every attribute the tile / lock path reads is stored by the constructor only (no property computed on demand, no later reassignment)",
    "text": "Decides the mutual-exclusion premises of the read-modify-write interface on every path; with filelock's inter-process contract they imply that no contribution is lost and no reader inside the lock sees a partial file.",
    "note": "Trusted: filelock.SoftFileLock/FileLock give inter-process mutual exclusion keyed by path and release on leaving the with/at release(); os.rename-free direct writes are complete before the lock is released.",
}


def run(run):
    run.explanation = EXPLANATION
    run.assumptions += ["filelock.SoftFileLock/FileLock: inter-process mutual exclusion keyed by the lock path"]
    for r, n in (("C10.R1", 1), ("C10.R2", 1), ("C10.R3", 1), ("C10.R4", 1), ("C10.R5", 3), ("C10.R6", 2)):
        run.floor(r, n)
    project = run.project
    f = common.as_generator_cm(project, project.fn(P + ".PyramidIO.update_image"))      # (a hand-written context-manager class is read as the generator it replaces)
    run.note_func(f)
    ev = sym.make_evaluator(project, P, [], no_inline=("tile_path", "read_image", "write_image", "update_image"))
    ev.self_class = P + ".PyramidIO"        # private path helpers of PyramidIO are part of update_image
    r = ev.run(f.node)
    _r1(run, f)
    lock_term = _r2_r3(run, f, r, ev)
    _r4(run, f, r)
    _r5(run)
    _r6(run)


def _lock_provider(project, f, call):
    """A project @contextmanager whose body is `with <Lock>(...): yield`: calling it in a with-statement holds that lock."""
    if project is None:
        return None
    g = common.resolve_callee(project, f, call)
    if g is None or g is f or not any((dotted(d) or "").endswith("contextmanager") for d in g.node.decorator_list):
        return None
    gw, gnames = _lock_exprs(g)
    for w, ce in gw:
        ys = [x for s_ in w.body for x in ast.walk(s_) if isinstance(x, (ast.Yield, ast.YieldFrom))]
        outside = [x for x in own_nodes(g.node) if isinstance(x, (ast.Yield, ast.YieldFrom)) and not any(x is y for y in ys)]
        if ys and not outside:
            return g
    return None


def _lock_factory(project, f, call):
    """A project function / method that builds and returns the lock (`return SoftFileLock(path)` on every return path)."""
    if project is None:
        return None
    g = common.resolve_callee(project, f, call)
    if g is None or g is f or any((dotted(d) or "").endswith("contextmanager") for d in g.node.decorator_list):
        return None
    rets = [x for x in own_nodes(g.node) if isinstance(x, ast.Return)]
    if not rets:
        return None
    local_locks = {t.id for n in own_nodes(g.node) if isinstance(n, ast.Assign) and isinstance(n.value, ast.Call)
                   and (dotted(n.value.func) or "").split(".")[-1] in LOCK_CLASSES | NOT_INTERPROCESS for t in n.targets if isinstance(t, ast.Name)}
    for rt in rets:
        v = rt.value
        if isinstance(v, ast.Call) and (dotted(v.func) or "").split(".")[-1] in LOCK_CLASSES | NOT_INTERPROCESS:
            continue
        if isinstance(v, ast.Name) and v.id in local_locks:
            continue
        return None
    return g


def _lock_exprs(f, project=None):
    """(with-statements whose context is a lock, names bound to lock objects)."""
    lock_names = set()
    for n in own_nodes(f.node):
        if isinstance(n, ast.Assign) and isinstance(n.value, ast.Call) and (dotted(n.value.func) or "").split(".")[-1] in LOCK_CLASSES | NOT_INTERPROCESS:
            for t in n.targets:
                if isinstance(t, ast.Name):
                    lock_names.add(t.id)
    withs = []
    for n in own_nodes(f.node):
        if isinstance(n, ast.With):
            for it in n.items:
                ce = it.context_expr
                if isinstance(ce, ast.Call) and (dotted(ce.func) or "").split(".")[-1] in LOCK_CLASSES | NOT_INTERPROCESS:
                    withs.append((n, ce))
                elif isinstance(ce, ast.Name) and ce.id in lock_names:
                    withs.append((n, ce))
                elif isinstance(ce, ast.Call) and isinstance(ce.func, ast.Attribute) and ce.func.attr == "acquire" \
                        and isinstance(ce.func.value, ast.Name) and ce.func.value.id in lock_names:
                    withs.append((n, ce))
                elif isinstance(ce, ast.Call) and (_lock_provider(project, f, ce) is not None or _lock_factory(project, f, ce) is not None):
                    withs.append((n, ce))
    # a lock obtained from a project factory and bound to a name: `lock = self._tile_lock(pos)`
    for n in own_nodes(f.node):
        if isinstance(n, ast.Assign) and isinstance(n.value, ast.Call) and _lock_factory(project, f, n.value) is not None:
            for t in n.targets:
                if isinstance(t, ast.Name) and t.id not in lock_names:
                    lock_names.add(t.id)
                    for m in own_nodes(f.node):
                        if isinstance(m, ast.With):
                            for it in m.items:
                                if isinstance(it.context_expr, ast.Name) and it.context_expr.id == t.id:
                                    withs.append((m, it.context_expr))
    return withs, lock_names


def _r1(run, f):
    cfg = CFG(f.node)
    withs, lock_names = _lock_exprs(f, run.project)
    held_struct = set()
    for w, ce in withs:
        for s in w.body:
            for x in ast.walk(s):
                held_struct.add(id(x))

    def is_acq(c):
        return isinstance(c.func, ast.Attribute) and c.func.attr == "acquire" and isinstance(c.func.value, ast.Name) and c.func.value.id in lock_names

    def is_rel(c):
        return isinstance(c.func, ast.Attribute) and c.func.attr == "release" and isinstance(c.func.value, ast.Name) and c.func.value.id in lock_names

    def transfer(n, st, lab):
        if lab == "exc":
            # an acquire that raised did not take the lock
            return st
        for c in cfg.calls_at(n):
            if is_acq(c) and n.kind != "with":
                st = True
            elif is_rel(c):
                st = False
        return st
    states = cfg.forward(False, transfer, lambda a, b: a and b)

    def held_at(n):
        return id(n.ast) in held_struct or any(id(x) in held_struct for e in cfg.expr_of(n) for x in [e]) or states.get(n.id, False)

    reads = [n for n in cfg.nodes for c in cfg.calls_at(n) if callee_attr(c) == "read_image"]
    writes = [n for n in cfg.nodes for c in cfg.calls_at(n) if callee_attr(c) == "write_image"]
    yields = [n for n in cfg.nodes for e in cfg.expr_of(n) for x in ast.walk(e) if isinstance(x, ast.Yield)]
    if not (reads and writes and yields):
        run.undecided("C10.R1", f, None, "update_image must read, yield and write (reads=%d yields=%d writes=%d)" % (len(reads), len(yields), len(writes)),
                      kind="rmw-shape")
        return
    if not withs and not lock_names:
        run.violated("C10.R1", f, None, "update_image takes no lock at all: concurrent updaters of one tile overwrite each other (lost update)", kind="no-lock")
        return
    bad = []
    for what, nodes in (("tile read", reads), ("yield to the caller", yields), ("write-back", writes)):
        for n in nodes:
            if not held_at(n):
                bad.append((n, "%s at line %d happens outside the lock" % (what, n.line)))
    # order: read < yield < write
    for rn in reads:
        for yn in yields:
            if yn.id in cfg.reachable(cfg.entry.id, avoid={rn.id}, skip_labels=("exc",)):
                bad.append((yn, "the tile is yielded before it is read"))
    for yn in yields:
        for wn in writes:
            if wn.id in cfg.reachable(cfg.entry.id, avoid={yn.id}, skip_labels=("exc",)):
                bad.append((wn, "write-back reachable before the caller has modified the tile"))
    # the write-back must happen on every normal path after the yield
    for yn in yields:
        if cfg.exit.id in cfg.reachable(yn.id, avoid={w.id for w in writes}, skip_labels=("exc",)):
            bad.append((yn, "after the caller's modification the function can return without writing the tile back"))
    if bad:
        seen = set()
        for n, msg in bad:
            if msg in seen:
                continue
            seen.add(msg)
            run.violated("C10.R1", f, n.ast, msg + ": an updater that read before another one wrote will overwrite that contribution",
                         kind="rmw-outside-lock" if "outside the lock" in msg else "rmw-order")
    else:
        run.holds("C10.R1", f, reads[0].ast, "read, yield and write-back all execute with the lock held, in that order",
                  lines=dict(read=[n.line for n in reads], yield_=[n.line for n in yields], write=[n.line for n in writes]))


def _r2_r3(run, f, r, ev=None):
    withs, lock_names = _lock_exprs(f, run.project)
    ctors = [c for c in own_calls(f.node) if (dotted(c.func) or "").split(".")[-1] in LOCK_CLASSES | NOT_INTERPROCESS]
    subst = {}
    if not ctors:
        # the lock may be taken through a context-manager helper: analyse the helper, with its parameters bound to the call's arguments
        for w, ce in withs:
            g = (_lock_provider(run.project, f, ce) or _lock_factory(run.project, f, ce)) if isinstance(ce, ast.Call) else None
            if g is not None:
                run.note_func(g)
                ctors = [c for c in own_calls(g.node) if (dotted(c.func) or "").split(".")[-1] in LOCK_CLASSES | NOT_INTERPROCESS]
                call_ev = [e for e in r.events if e.kind in ("call", "with") and (e.node is ce or (e.kind == "with" and e.term[0] == "call"))]
                gp = [p_ for p_ in g.params() if p_ not in ("self", "cls")]
                evg = sym.make_evaluator(run.project, g.module.name, [], no_inline=("tile_path", "read_image", "write_image", "update_image"))
                evg.self_class = ev.self_class if ev is not None else None
                rg = evg.run(g.node)
                cterm = [e for e in r.events if e.kind == "call" and e.node is ce]
                if cterm:
                    for p_, a_ in zip(gp, cterm[0].term[2]):
                        subst[("sym", p_)] = a_
                    for k_, v_ in cterm[0].term[3]:
                        subst[("sym", k_)] = v_
                r = rg
                f_lock = g
                break
    if not ctors:
        if not any(isinstance(x, (ast.Yield, ast.YieldFrom)) for x in own_nodes(f.node)):
            # update_image is no longer the generator that holds the lock itself: the transaction lives in an object it returns
            run.undecided("C10.R2", f, None, "update_image hands the read-modify-write to %s, which the analysis does not follow" % (
                [ast.unparse(x.value)[:60] for x in own_nodes(f.node) if isinstance(x, ast.Return) and x.value is not None] or ["another object"])[0], kind="rmw-delegated")
            return None
        run.violated("C10.R2", f, None, "no lock object is constructed in update_image", kind="no-lock-object")
        return None
    c = ctors[0]
    cls = (dotted(c.func) or "").split(".")[-1]
    # where does the class come from?
    src = None
    for n in ast.walk(f.module.tree):
        if isinstance(n, ast.ImportFrom):
            for a in n.names:
                if (a.asname or a.name) == cls:
                    src = n.module
    if cls in NOT_INTERPROCESS or (src or "").split(".")[0] in ("threading", "multiprocessing"):
        run.violated("C10.R2", f, c, "the lock is a %s.%s created per call: it excludes nobody (each call, in each process, has its own lock object)" % (src or "?", cls),
                     kind="lock-not-interprocess")
    elif cls in LOCK_CLASSES and (src or "").split(".")[0] == "filelock":
        run.holds("C10.R2", f, c, "filelock.%s constructed per call from a path" % cls, lock_class=cls)
    else:
        run.undecided("C10.R2", f, c, "lock class %s from %s is not a known inter-process file lock" % (cls, src), kind="lock-class")
    # a timeout on the lock must not lead to proceeding without it
    kw = {k.arg for k in c.keywords}
    # ---- R3 key
    calls = [e for e in r.events if e.kind == "call" and e.node is c]
    if not calls or not calls[0].term[2]:
        run.undecided("C10.R3", f, c, "cannot evaluate the lock path", kind="lock-path")
        return None
    key = _subst(calls[0].term[2][0], subst) if subst else calls[0].term[2][0]
    pos = ("sym", f.params()[1])
    s = show(key)
    local = [a for a in atoms_of(key) if a[0] == "call" and show(a[1]).split(".")[-1] in PROCESS_LOCAL]
    tile_paths = [a for a in atoms_of(key) if a[0] == "call" and a[1][0] == "attr" and a[1][2] == "tile_path" and a[2] and a[2][0] == pos]
    other_pos = [a for a in atoms_of(key) if a[0] == "call" and a[1][0] == "attr" and a[1][2] == "tile_path" and a[2] and a[2][0] != pos]
    if local:
        run.violated("C10.R3", f, c, "the lock path %s contains the process-local value %s: every process locks a different file, so they do not "
                     "exclude one another" % (s[:120], show(local[0])[:60]), kind="lock-key-process-local")
    elif not tile_paths:
        if other_pos:
            run.violated("C10.R3", f, c, "the lock path %s is derived from another position than the tile being updated" % s[:120], kind="lock-key-other-tile")
        elif pos not in atoms_of(key):
            run.violated("C10.R3", f, c, "the lock path %s does not depend on the tile position: unrelated tiles share a lock or, worse, related "
                         "updaters do not" % s[:120], kind="lock-key-no-pos")
        else:
            run.undecided("C10.R3", f, c, "lock path %s is not built from self.tile_path(pos)" % s[:120], kind="lock-key-shape")
    else:
        # must not depend on per-call options that differ between updaters of the same file in a way that splits the key
        tp = tile_paths[0]
        kwd = dict(tp[3])
        fmt_dep = "format" in kwd and kwd["format"] != sym.NONE
        run.holds("C10.R3", f, c, "lock key = tile_path(pos%s) + literal: a function of the pyramid configuration and the tile only" % (
            ", format=..." if fmt_dep else ""), key=s[:160])
        _config_fixed_at_construction(run, f, c)
    return key


def _config_fixed_at_construction(run, f, c):
    """... and that configuration is the same in every process that shares the pyramid: each attribute the tile path (hence the lock
    path) reads is stored by the constructor only and is not a property computed on demand.  A value guessed lazily from the
    directory (or reassigned later) can differ between two forked workers, which then guard one tile with two lock files."""
    import ast as _ast
    project = run.project
    cls_q = P + ".PyramidIO"
    methods = {g.name: g for g in project.functions_in(P) if g.cls is not None and g.cls.name == "PyramidIO" and g.qual.startswith(cls_q + ".")}
    if "tile_path" not in methods:
        return
    seen, todo, attrs = set(), ["tile_path"], {}
    upd = methods.get("update_image")
    while todo:
        m = todo.pop()
        if m in seen or m not in methods:
            continue
        seen.add(m)
        for x in _ast.walk(methods[m].node):
            if isinstance(x, _ast.Attribute) and isinstance(x.value, _ast.Name) and x.value.id == "self":
                if x.attr in methods and not isinstance(x.ctx, _ast.Store):
                    todo.append(x.attr)
                    decos = [dotted(d) or "" for d in methods[x.attr].node.decorator_list]
                    if any(d.split(".")[-1] in ("property", "cached_property") for d in decos):
                        attrs.setdefault(x.attr, x)
                elif isinstance(x.ctx, _ast.Load):
                    attrs.setdefault(x.attr, x)
    # what update_image itself feeds into the path (format or self._default_format)
    if upd is not None:
        for x in _ast.walk(upd.node):
            if isinstance(x, _ast.Attribute) and isinstance(x.value, _ast.Name) and x.value.id == "self" and isinstance(x.ctx, _ast.Load) and x.attr.startswith("_") \
                    and x.attr not in methods:
                attrs.setdefault(x.attr, x)
            if isinstance(x, _ast.Attribute) and isinstance(x.value, _ast.Name) and x.value.id == "self" and x.attr in methods:
                decos = [dotted(d) or "" for d in methods[x.attr].node.decorator_list]
                if any(d.split(".")[-1] in ("property", "cached_property") for d in decos):
                    attrs.setdefault(x.attr, x)
    bad = []
    for a, node in sorted(attrs.items()):
        if a in methods:
            decos = [dotted(d) or "" for d in methods[a].node.decorator_list]
            if any(d.split(".")[-1] in ("property", "cached_property") for d in decos):
                body_reads_fs = any(isinstance(y, _ast.Call) and (dotted(y.func) or "").split(".")[0] in ("os", "glob") or
                                    (isinstance(y, _ast.Call) and isinstance(y.func, _ast.Attribute) and y.func.attr.startswith("_guess")) for y in _ast.walk(methods[a].node))
                stores = [y for y in _ast.walk(methods[a].node) if isinstance(y, _ast.Attribute) and isinstance(y.ctx, _ast.Store)]
                if body_reads_fs or stores:
                    bad.append((a, methods[a].node, "is a property computed on demand (it %s)" % ("reads the directory" if body_reads_fs else "fills in a field on first use")))
            continue
        writers = []
        for mname, g in methods.items():
            for y in _ast.walk(g.node):
                if isinstance(y, _ast.Attribute) and isinstance(y.ctx, _ast.Store) and isinstance(y.value, _ast.Name) and y.value.id == "self" and y.attr == a and mname != "__init__":
                    writers.append((mname, y))
        if writers:
            bad.append((a, writers[0][1], "is reassigned after construction (in %s)" % writers[0][0]))
    if bad:
        a, node, why = bad[0]
        run.violated("C10.R3", f, node, "the tile path - hence the lock path - reads self.%s, which %s: two processes sharing the pyramid can compute different lock files "
                     "for one tile and update it at the same time" % (a, why), kind="lock-key-config-not-fixed")
    else:
        run.holds("C10.R3", f, c, "every attribute the tile / lock path reads (%s) is stored by the constructor only" % ", ".join(sorted(x for x in attrs if x not in methods))[:120])


def lock_key_term(project):
    """(lock path term of PyramidIO.update_image expressed over its own parameters, position symbol, constructor event) --
    also when the lock is taken through a context-manager helper or the path is built by a private helper method."""
    f = common.as_generator_cm(project, project.fn(P + ".PyramidIO.update_image"))
    ev = sym.make_evaluator(project, P, [], no_inline=("tile_path", "read_image", "write_image", "update_image"))
    ev.self_class = P + ".PyramidIO"
    r = ev.run(f.node)
    pos = ("sym", f.params()[1])
    is_lock = lambda e: e.kind == "call" and show(e.term[1]).split(".")[-1] in LOCK_CLASSES | NOT_INTERPROCESS
    locks = [e for e in r.events if is_lock(e)]
    if locks and locks[0].term[2]:
        return locks[0].term[2][0], pos, locks[0]
    withs, _names = _lock_exprs(f, project)
    for w, ce in withs:
        g = _lock_provider(project, f, ce) if isinstance(ce, ast.Call) else None
        if g is None:
            continue
        evg = sym.make_evaluator(project, g.module.name, [], no_inline=("tile_path", "read_image", "write_image", "update_image"))
        evg.self_class = ev.self_class
        rg = evg.run(g.node)
        gl = [e for e in rg.events if is_lock(e)]
        cterm = [e for e in r.events if e.kind == "call" and e.node is ce]
        if gl and gl[0].term[2] and cterm:
            gp = [p_ for p_ in g.params() if p_ not in ("self", "cls")]
            m = {}
            for p_, a_ in zip(gp, cterm[0].term[2]):
                m[("sym", p_)] = a_
            for k_, v_ in cterm[0].term[3]:
                m[("sym", k_)] = v_
            return _subst(gl[0].term[2][0], m), pos, gl[0]
    return None, pos, None


def _subst(t, m):
    if t in m:
        return m[t]
    if isinstance(t, tuple):
        return tuple(_subst(x, m) if isinstance(x, tuple) else x for x in t)
    return t


def _r4(run, f, r):
    reads = [e for e in r.events if e.kind == "call" and e.term[1][0] == "attr" and e.term[1][2] == "read_image"]
    writes = [e for e in r.events if e.kind == "call" and e.term[1][0] == "attr" and e.term[1][2] == "write_image"]
    if len(reads) != 1 or len(writes) != 1:
        run.undecided("C10.R4", f, None, "expected one read_image and one write_image", kind="rw-count")
        return
    rd, wr = reads[0], writes[0]
    pos = ("sym", f.params()[1])
    rf = dict(rd.term[3]).get("format", sym.NONE)
    wf = dict(wr.term[3]).get("format", sym.NONE)
    dflt = ("attr", ("sym", "self"), "_default_format")

    def base(fm):
        # read_image / write_image / tile_path all apply `format or self._default_format`: compare modulo that defaulting
        if fm == sym.NONE or fm == dflt:
            return sym.NONE
        if fm[0] == "op" and fm[1] == "or" and len(fm[2]) == 2 and fm[2][1] == dflt:
            return base(fm[2][0])
        return fm
    rf, wf = base(rf), base(wf)
    problems = []
    if not rd.term[2] or rd.term[2][0] != pos or not wr.term[2] or wr.term[2][0] != pos:
        problems.append(("rw-position", "the tile read is %s and the tile written is %s; both must be the position being updated" % (
            show(rd.term[2][0]) if rd.term[2] else "?", show(wr.term[2][0]) if wr.term[2] else "?")))
    if rf != wf:
        problems.append(("rw-format", "the tile is read in format %s but written in format %s: the update lands in a different file" % (show(rf)[:60], show(wf)[:60])))
    if rd.term[1][1] != wr.term[1][1]:
        problems.append(("rw-pyramid", "read and write go through different pyramids"))
    ys = r.yields
    if len(ys) != 1 or ys[0][1] != rd.term or len(wr.term[2]) < 2 or wr.term[2][1] != rd.term:
        problems.append(("rw-image", "the image written back is not the image that was read and yielded to the caller"))
    if problems:
        for kind, msg in problems:
            run.violated("C10.R4", f, wr.node, msg, kind=kind)
    else:
        run.holds("C10.R4", f, wr.node, "read_image(pos, format=F) -> yield -> write_image(pos, same image, format=F)", format=show(rf)[:80])


def _worker_reachable(project):
    """Functions that can run concurrently in several worker processes: worker functions of all
    stages, plus callbacks handed to walk / visit_leaves / transforms (bound methods named *callback*,
    do_one functions), transitively (depth 3) within the package."""
    roots = set()
    for st in common.discover_stages(project):
        if st.worker is not None:
            roots.add(st.worker.qual)
    for f in project.py_funcs():
        if f.name.endswith("_callback") or f.name.endswith("_do_one"):
            roots.add(f.qual)
        # serial siblings run the same bodies (multi-process runs of the CLI on one pyramid are also supported)
        if f.name in ("_tile_serial",):
            roots.add(f.qual)
    out = set(roots)
    frontier = list(roots)
    for _ in range(3):
        nxt = []
        for q in frontier:
            f = project.funcs[q]
            for c in own_calls(f.node):
                t = common.resolve_callee(project, f, c)
                if t is not None and t.qual not in out and t.module.kind == "py":
                    out.add(t.qual)
                    nxt.append(t.qual)
        frontier = nxt
    return out


def _r5(run):
    project = run.project
    reach = _worker_reachable(project)
    n_upd = 0
    for q in sorted(reach):
        f = project.funcs[q]
        if f.cls is not None and f.cls.name == "PyramidIO":
            continue
        has = any(callee_attr(c) in ("update_image", "write_image", "read_image") for c in own_calls(f.node))
        if not has:
            continue
        run.note_func(f)
        ev = sym.make_evaluator(project, f.module.name, ["toasty.pyramid.pos_children"])
        r = ev.run(f.node)
        ups = [e for e in r.events if e.kind == "call" and e.term[1][0] == "attr" and e.term[1][2] == "update_image"]
        wrs = [e for e in r.events if e.kind == "call" and e.term[1][0] == "attr" and e.term[1][2] == "write_image"]
        rds = [e for e in r.events if e.kind == "call" and e.term[1][0] == "attr" and e.term[1][2] == "read_image"]
        n_upd += len(ups)
        for u in ups:
            run.call_sites += 1
            upos = u.term[2][0] if u.term[2] else None
            ucond = [c for c in u.pc if c[0] != "loop"]
            for w in wrs:
                if not w.term[2] or w.term[2][0] != upos:
                    continue
                wcond = [c for c in w.pc if c[0] != "loop"]
                # only *mode* conditions (configuration: no call, i.e. no inspection of run-time / file-system state)
                # separate the unlocked write from the updating mode; a test such as os.path.exists(...) is a check-then-act
                contradict = any((c, not p) in ucond and not any(a[0] == "call" for a in atoms_of(c)) for c, p in wcond)
                if not contradict:
                    run.violated("C10.R5", f, w.node, "%s updates tile %s through the locked update_image but also writes the same tile with a plain "
                                 "write_image under %s, a condition compatible with the updating mode: two processes taking that path (e.g. both "
                                 "seeing the tile as not yet existing) overwrite each other" % (
                                     f.short, show(upos)[:40], [("" if p else "not ") + show(c)[:60] for c, p in wcond] or "no condition"),
                                 kind="unlocked-write-in-update-mode")
            run.holds("C10.R5", f, u.node, "shared tile goes through the locked read-modify-write", function=f.short) if not any(
                o.func is f and o.rule == "C10.R5" and o.verdict == "VIOLATED" for o in run.obs) else None
        # read-modify-write of the same file outside update_image
        for rd in rds:
            for w in wrs:
                if rd.term[2] and w.term[2] and rd.term[2][0] == w.term[2][0] and rd.term[1][1] == w.term[1][1]:
                    rf = dict(rd.term[3]).get("format", sym.NONE)
                    wf = dict(w.term[3]).get("format", sym.NONE)
                    if rf == wf:
                        run.violated("C10.R5", f, w.node, "%s reads tile %s and writes the same file back without the update lock (read-modify-write "
                                     "outside update_image)" % (f.short, show(rd.term[2][0])[:40]), kind="rmw-outside-update-image")
    # vacuity guard only: three tilers (TOAST sampling, multi-TAN, multi-WCS) update tiles from workers; how many call sites that
    # makes depends on how much of their code is shared
    if n_upd < 3:
        run.undecided("C10.R5", None, None, "only %d update_image call sites found in worker-reachable code (three tilers update tiles from workers)" % n_upd,
                      kind="floor", construct="<update_image sites>", file="toasty/")


def _r6(run):
    project = run.project
    # (a) only clean_lockfiles removes *.lock paths
    offenders = []
    for f in project.py_funcs():
        if f.qual == P + ".PyramidIO.clean_lockfiles":
            continue
        calls = [c for c in own_calls(f.node) if (dotted(c.func) or "") in ("os.unlink", "os.remove") or callee_attr(c) == "unlink"]
        if not calls:
            continue
        ev = sym.make_evaluator(project, f.module.name, [])
        try:
            r = ev.run(f.node)
        except RecursionError:
            continue
        for e in r.events:
            if e.kind == "call" and any(e.node is c for c in calls):
                args = list(e.term[2]) + [e.term[1]]
                if any(a == ("const", ".lock") or (a[0] == "const" and isinstance(a[1], str) and a[1].endswith(".lock")) for x in args for a in atoms_of(x)):
                    offenders.append((f, e))
    if offenders:
        for f, e in offenders:
            run.violated("C10.R6", f, e.node, "%s removes a lock file itself (%s): a lock held by another, live updater can be deleted, after which a "
                         "third updater acquires it concurrently" % (f.short, show(e.term)[:100]), kind="lockfile-removed")
    else:
        run.holds("C10.R6", project.fn(P + ".PyramidIO.clean_lockfiles"), None, "lock files are removed only by clean_lockfiles")
    # (b) clean_lockfiles is called only after the stage that uses the locks has returned
    n = 0
    for f in project.py_funcs():
        for c in own_calls(f.node):
            if callee_attr(c) == "clean_lockfiles":
                n += 1
                run.note_func(f)
                live = common.live_worker_withs(project, f, c)
                if live:
                    run.violated("C10.R6", f, c, "lock files are cleaned up inside `with %s`: the workers are still alive there (they are flushed and joined when the block "
                                 "is left), so a lock a worker holds can be deleted under it and a second updater of that tile gets in" % live[0][1], kind="cleanup-too-early")
                    continue
                # the caller is itself a parallel stage: between the start of its workers and their join the locks are live
                stage = _stages_by_func(project).get(f.qual)
                if stage is not None:
                    from . import C03 as _c03
                    scfg = stage.cfg
                    snode = scfg.node_containing(c) if any(x is c for n_ in scfg.nodes for x in scfg.calls_at(n_)) else None
                    starts = [n_ for n_, c_ in common.method_calls_on(scfg, stage.proc_vars, "start")]
                    joins = _c03._join_nodes(stage, project)
                    if snode is not None and starts and joins:
                        live_ = set()
                        for s_ in starts:
                            live_ |= scfg.reachable(s_.id, avoid=joins, skip_labels=("exc",))
                        if snode.id in live_:
                            run.violated("C10.R6", f, c, "lock files are cleaned up after the workers of %s were started and before they are joined: a worker "
                                         "that is still inside update_image loses its lock file and a second updater of that tile gets in" % f.short, kind="cleanup-too-early")
                            continue
                cfg = CFG(f.node)
                cn = cfg.node_containing(c)
                starters = common.worker_starters(project)

                def is_stage_call(cc):
                    if callee_attr(cc) in ("_tile_parallel", "_tile_serial", "visit_leaves", "walk"):
                        return True
                    g = common.resolve_callee(project, f, cc)
                    return g is not None and g.qual in starters
                par = [x for x in cfg.nodes for cc in cfg.calls_at(x) if is_stage_call(cc)]
                # every parallel/serial stage call dominates the cleanup: cleanup not reachable avoiding them
                if par and cn is not None:
                    early = cn.id in cfg.reachable(cfg.entry.id, avoid={x.id for x in par}, skip_labels=("exc",))
                    inloop = any(isinstance(s, (ast.For, ast.While)) for s, b in enclosing_stmts(f.node, cn.ast))
                    if early or inloop:
                        run.violated("C10.R6", f, c, "lock files are cleaned up before/while the tiling stage runs: live locks may be deleted", kind="cleanup-too-early")
                    else:
                        run.holds("C10.R6", f, c, "lock cleanup runs after the tiling stage (and its joins) returned")
                else:
                    run.holds("C10.R6", f, c, "lock cleanup call site", function=f.short)
    if n == 0:
        run.holds("C10.R6", project.fn(P + ".PyramidIO.clean_lockfiles"), None, "clean_lockfiles has no caller")


def _stages_by_func(project):
    cache = getattr(project, "_c10_stage_cache", None)
    if cache is None:
        cache = {}
        try:
            for st in common.discover_stages(project):
                cache[st.func.qual] = st
        except Exception:
            pass
        project._c10_stage_cache = cache
    return cache
