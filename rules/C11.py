"""C11 - Plate-carree samplers return the source pixel containing each sky point.

For every sampler closure of toasty/samplers.py whose result is a subscript of the captured map:
R1 bounds: each index is round -> astype(int) -> clamped to [0, n-1] with n the length of *its*
   axis; the map is subscripted [iy, ix]
R2 periodicity: longitude enters the index only through a reduction modulo exactly 2*pi
   (a true modulo: result has the sign of the divisor)
R3 cell consistency: ix = d * M * nx/(2 pi) + (-1/2 if d > 0 else nx - 1/2), M = (lon + shift) mod 2 pi;
   iy = -lat * ny/pi + (ny/2 - 1/2)
R4 documented layout: (shift, direction) per sampler = position of longitude 0 and sense of increase
R5 Galactic / ecliptic variants index with the rotated coordinates of the frame transform
"""
import ast

from sa import sym
from sa.sym import show, num, num_value, atoms_of, PI, coeffs
from sa.model import dotted, own_nodes

S = "toasty.samplers"

# documented layouts: name -> (shift / pi, direction d, frame attr names or None, description)
LAYOUT = {
    "plate_carree_sampler": (1, -1, None, "longitude 0 at the image centre, increasing to the left"),
    "plate_carree_galactic_sampler": (1, -1, ("l", "b"), "Galactic longitude 0 at the centre, increasing to the left, after ICRS->Galactic"),
    "plate_carree_ecliptic_sampler": (None, -1, ("lon", "lat"), "ecliptic coordinates (origin not documented: R1-R3 and direction only)"),
    "plate_carree_planet_sampler": (1, +1, None, "longitude 0 at the image centre, increasing to the right"),
    "plate_carree_planet_zeroleft_sampler": (0, +1, None, "longitude 0 at the left edge, increasing to the right"),
    "plate_carree_zeroright_sampler": (0, -1, None, "longitude 0 at the right edge, increasing to the left"),
}

EXPLANATION = (
    "Each sampler factory and its closure are evaluated abstractly; the closure's result must be map[iy, ix]. The index "
    "terms are Laurent polynomials in the atoms M = (lon + shift) mod 2*pi and lat with coefficients in nx, ny and pi, so "
    "the rule reads off direction, scale and offset exactly: with ix = d*M*nx/(2 pi) + c0 the cell of pixel k is the set of "
    "longitudes that round to k iff c0 = -1/2 (d = +1) or nx - 1/2 (d = -1); the position of longitude 0 follows from the "
    "normalisation shift and is compared with the documented layout. Rounding at cell boundaries is allowed by the property. "
    "Clamp bounds, subscript order, the modulus and the frame rotation are read off the same terms."
)

MANIFEST = {
    "technique": "static analysis: affine/Laurent-polynomial abstract interpretation of the sampler closures; coefficients compared with the documented layout table; clamp and modulus extraction; callable objects followed by the evaluator (constructor state = captured variables, __call__ = closure body); flattened lookup position built from per-axis unclamped indices is definite; the target of the frame transform is a frame instance (sibling agreement; API contract of astropy)",
    "text": "Decides for all six plate-carree closures the exact affine map from (lon, lat) to pixel indices (direction, scale, half-pixel offset, 2*pi periodicity, clamping, axis order) against the documented layouts; a one-pixel shift, wrong wrap, missing clamp or transposed subscript is a coefficient/structure difference.",
    "note": "Trusted: numpy round/astype/clip/mod element-wise semantics; astropy frame transforms. Not decided: ties exactly on cell boundaries (allowed by the property).",
}


def run(run):
    run.explanation = EXPLANATION
    run.assumptions += ["numpy `%` / np.mod return results with the sign of the divisor; np.round/astype(int)/np.clip are element-wise",
                        "astropy ICRS->Galactic / ecliptic transforms are correct"]
    run.undecided_clauses += ["which of two adjacent cells a point within rounding tolerance of their boundary resolves to"]
    project = run.project
    closures = _discover(project)
    for r, n in (("C11.R1", 6), ("C11.R2", 6), ("C11.R3", 12), ("C11.R4", 5), ("C11.R5", 2)):
        run.floor(r, n)
    found = {outer.name for f, outer in closures}
    for name in LAYOUT:
        if name not in found:
            o = project.funcs.get(S + "." + name)
            if o is None:
                run.undecided("C11.R1", None, None, "documented sampler %s no longer exists" % name, kind="sampler-missing", construct=name, file="toasty/samplers.py")
            else:
                run.undecided("C11.R1", o, None, "%s no longer returns a closure that subscripts the captured map (e.g. it delegates to another sampler on "
                              "transformed data): the index algebra of this idiom is not decided" % name, kind="sampler-shape")
    for f, outer in closures:
        _check_closure(run, f, outer)


def _discover(project):
    """The callable each documented sampler factory hands back: a nested function (closure) of the factory, or the __call__ of
    a project class whose instance the factory returns (the closure's captured variables are then the object's fields)."""
    out = []
    for name in LAYOUT:
        outer = project.funcs.get(S + "." + name)
        if outer is None:
            continue
        ev = sym.make_evaluator(project, S, [], inline_local=True)
        ev.model_objects = True
        try:
            ro = ev.run(outer.node)
        except Exception:
            continue
        if len(ro.returns) != 1:
            continue
        R = ro.returns[0][1]
        if R[0] == "sym" and R[1].startswith("<closure ") and R[1][9:-1] in ro.nested:
            f = project.funcs.get("%s.%s.%s" % (S, name, R[1][9:-1]))
            if f is not None:
                out.append((f, outer))
        elif R in ro.objects:
            f = project.funcs.get(ro.objects[R][0] + ".__call__")
            if f is not None and len(f.params()) == 3:
                out.append((f, outer))
    return out


def _clamps(t):
    """Peel clamp operations off an index term: returns (inner, lower, upper)."""
    lo = hi = None
    while True:
        if t[0] == "call" and show(t[1]) == "np.clip" and len(t[2]) == 3 and not t[3]:
            lo = t[2][1] if lo is None else lo
            hi = t[2][2] if hi is None else hi
            t = t[2][0]
            continue
        if t[0] == "call" and show(t[1]) == "np.clip" and t[2]:
            kw = dict(t[3])
            a = list(t[2]) + [None, None]
            l_ = a[1] if a[1] is not None else kw.get("a_min")
            h_ = a[2] if a[2] is not None else kw.get("a_max")
            lo = l_ if lo is None else lo
            hi = h_ if hi is None else hi
            t = t[2][0]
            continue
        if t[0] == "call" and show(t[1]) in ("np.minimum", "min") and len(t[2]) == 2:
            a, b = t[2]
            arr, c = (a, b) if _is_indexish(a) else (b, a)
            hi = c if hi is None else hi
            t = arr
            continue
        if t[0] == "call" and show(t[1]) in ("np.maximum", "max") and len(t[2]) == 2:
            a, b = t[2]
            arr, c = (a, b) if _is_indexish(a) else (b, a)
            lo = c if lo is None else lo
            t = arr
            continue
        return t, lo, hi


def _is_indexish(t):
    s = show(t)
    return "round" in s or "astype" in s or "clip" in s or "minimum" in s or "maximum" in s


def _unround(t):
    """round(...).astype(int) / int-cast peeling: returns (inner, rounded?, cast?)."""
    rounded = cast = False
    while True:
        if t[0] == "call" and t[1][0] == "attr" and t[1][2] == "astype" and t[2] and show(t[2][0]) in ("int", "np.int64", "np.intp", "np.int32"):
            cast = True
            t = t[1][1]
            continue
        if t[0] == "call" and show(t[1]) in ("np.round", "np.rint", "np.around") and t[2]:
            rounded = True
            t = t[2][0]
            continue
        return t, rounded, cast


def _check_closure(run, f, outer):
    project = run.project
    name = outer.name
    shift_pi, d_want, frame, desc = LAYOUT[name]
    run.note_func(f, outer)
    ev = sym.make_evaluator(project, S, [], inline_local=True)
    ev.model_objects = True           # a lookup object built by the factory (fields = what a closure would capture) is followed
    ev.inline_resolved = True         # ... also when it is built by a classmethod / used through its methods
    ro = ev.run(outer.node)
    R = ro.returns[0][1] if len(ro.returns) == 1 else None
    if f.cls is not None and R in ro.objects:
        # the factory returns an object: its __call__ evaluated with the fields the constructor left
        fields = dict(ro.objects[R][1])
        fenv = dict(ro.env or {})
        fenv.update(fields)
        r = ev.run(f.node, env=fenv, args={f.params()[0]: R})
        call_params = f.params()[1:]
    elif f.name in ro.nested:
        fn, env = ro.nested[f.name]
        r = ev.run(fn, env=env)
        call_params = f.params()
    else:
        run.undecided("C11.R1", f, None, "closure not reachable in its factory", kind="closure")
        return
    if len(r.returns) != 1:
        run.undecided("C11.R1", f, None, "%s: closure has %d return statements" % (name, len(r.returns)), kind="returns")
        return
    ret = r.returns[0][1]
    node = r.returns[0][2]
    data_p = ("sym", outer.params()[0])
    if ret[0] != "sub" or ret[2][0] != "tuple" or len(ret[2][1]) != 2:
        # another lookup form.  One thing is definite whatever the form: a *flattened* position built arithmetically from a row
        # index and a column index that were not clamped per axis (iy * nx + ix) - clamping the flat position afterwards
        # (np.take(..., mode="clip")) is not clamping each axis: ix == nx (a point on the seam) lands in column 0 of the next row
        lon_q, lat_q = ("sym", call_params[0]), ("sym", call_params[1])

        def loose_index(a):
            inner_, lo_, hi_ = _clamps(a)
            if lo_ is not None or hi_ is not None:
                return None
            core_, rounded_, cast_ = _unround(inner_)
            if not (rounded_ or cast_):
                return None
            at_ = atoms_of(core_)
            dep_lon = lon_q in at_ or any(x_[0] == "attr" and x_[2] in ("l", "lon") for x_ in _subterms_all(core_))
            dep_lat = lat_q in at_ or any(x_[0] == "attr" and x_[2] in ("b", "lat") for x_ in _subterms_all(core_))
            return "x" if dep_lon and not dep_lat else "y" if dep_lat and not dep_lon else None
        for x_ in _subterms_all(ret):
            if x_[0] == "poly":
                axes = {loose_index(a) for m_, _c in x_[1] for a, _p in m_} - {None}
                if axes == {"x", "y"}:
                    run.violated("C11.R1", f, node, "%s: the map is read at a flattened position (%s) computed from a row index and a column index that are not clamped "
                                 "to [0, n-1] per axis: a column index equal to nx (a point on the seam) lands in the first column of the next row, a row index equal "
                                 "to ny (the pole) in an arbitrary pixel" % (name, show(x_)[:80]), kind="flat-index-unclamped", sampler=name)
                    return
        run.undecided("C11.R1", f, node, "%s: result %s is not map[iy, ix]" % (name, show(ret)[:100]), kind="result-shape")
        return
    # a project helper / constructor inside the result that the evaluator did not follow: its fields are unknown quantities, and a
    # comparison of such a quantity with nx / ny says nothing
    from . import common as _common
    pnames = _common.project_names(project)
    opaque = [x for x in _subterms_all(ret) if x[0] == "call" and ((x[1][0] == "sym" and x[1][1] in pnames) or (x[1][0] == "attr" and x[1][2] in pnames and
              x[1][2] not in ("get", "shape", "copy") and x[1][1] not in (("sym", "np"), ("sym", "numpy"), ("sym", "math"), ("sym", "u"))))]
    if opaque:
        run.undecided("C11.R1", f, node, "%s: the result goes through %s, which is not followed: the index algebra of this form is not decided" % (name, show(opaque[0])[:80]),
                      kind="result-opaque")
        return
    mapt = ret[1]
    shp = ("sub", ("attr", mapt, "shape"), ("slice", sym.NONE, num(2), sym.NONE))
    ny, nx = ("item", shp, 0), ("item", shp, 1)
    ny2, nx2 = ("item", ("attr", mapt, "shape"), 0), ("item", ("attr", mapt, "shape"), 1)
    lon_p, lat_p = ("sym", call_params[0]), ("sym", call_params[1])
    idx_y, idx_x = ret[2][1]
    # ---- which index is which: by the coordinate it depends on
    def coord_of(t):
        at = atoms_of(t)
        has_lon = lon_p in at or any(a[0] == "attr" and a[2] in ("l", "lon") and a[1][0] == "attr" for a in at)
        return at
    facts = dict(sampler=name)
    results = {}
    for axis, t, n_want, n_alt in (("y", idx_y, ny, ny2), ("x", idx_x, nx, nx2)):
        inner, lo, hi = _clamps(t)
        core, rounded, cast = _unround(inner)
        results[axis] = core
        problems = []
        n_here = n_want if (hi is not None and n_want in atoms_of(hi)) else n_alt
        if lo is None:
            problems.append(("no-lower-clamp", "index i%s has no lower clamp at 0: a value that rounds to -1 (e.g. -0.5000000000000001 at the edge) "
                             "silently wraps to the opposite edge of the map" % axis))
        elif num_value(lo) != 0:
            problems.append(("lower-clamp", "index i%s is clamped below at %s, not 0" % (axis, show(lo))))
        if hi is None:
            problems.append(("no-upper-clamp", "index i%s has no upper clamp: it can exceed the last %s" % (axis, "row" if axis == "y" else "column")))
        elif hi != sym.sub(n_want, num(1)) and hi != sym.sub(n_alt, num(1)):
            other = nx if axis == "y" else ny
            if hi == sym.sub(other, num(1)):
                problems.append(("clamp-wrong-axis", "index i%s is clamped with the length of the other axis (%s)" % (axis, show(hi)[:60])))
            else:
                problems.append(("upper-clamp", "index i%s is clamped above at %s, expected n%s - 1" % (axis, show(hi)[:60], axis)))
        if not rounded:
            problems.append(("not-rounded", "index i%s is not rounded to the nearest pixel before the integer cast (truncation shifts every cell by half a pixel)" % axis))
        if not cast:
            problems.append(("not-cast", "index i%s is not cast to an integer type" % axis))
        if problems:
            for kind, msg in problems:
                run.violated("C11.R1", f, node, "%s: %s" % (name, msg), kind=kind, axis=axis, **facts)
        else:
            run.holds("C11.R1", f, node, "%s: i%s = clip(round(.).astype(int), 0, n%s - 1)" % (name, axis, axis), axis=axis, **facts)
    # subscript order: first index must be the latitude one
    y_core, x_core = results["y"], results["x"]
    y_atoms, x_atoms = atoms_of(y_core), atoms_of(x_core)
    mods_x = [a for a in x_atoms if a[0] == "op" and a[1] == "mod"]
    mods_y = [a for a in y_atoms if a[0] == "op" and a[1] == "mod"]
    if mods_y and not mods_x:
        run.violated("C11.R1", f, node, "%s: the map is subscripted [ix, iy]: the first (row) index is the longitude index" % name, kind="subscript-order", **facts)
        return
    # ---- R2 periodicity
    fm = [a for a in x_atoms if a[0] == "call" and show(a[1]) in ("np.fmod", "math.fmod", "np.remainder_") ]
    if fm:
        run.violated("C11.R2", f, node, "%s: longitude is reduced with %s, whose result has the sign of the dividend: for longitudes below the range the "
                     "index goes negative (and is clamped to column 0) -- 2*pi periodicity is lost" % (name, show(fm[0][1])), kind="fmod", **facts)
        return
    if len(mods_x) != 1:
        run.violated("C11.R2", f, node, "%s: the longitude index depends on %d modulo reductions; longitude must enter through exactly one reduction "
                     "modulo 2*pi" % (name, len(mods_x)), kind="no-wrap" if not mods_x else "multiple-wraps", **facts)
        return
    M = mods_x[0]
    arg, modulus = M[2]
    two_pi = sym.mul(num(2), PI)
    if modulus != two_pi:
        run.violated("C11.R2", f, node, "%s: longitude is reduced modulo %s instead of 2*pi" % (name, show(modulus)), kind="modulus", **facts)
        return
    # the argument: lon_source + shift
    lon_src = None
    cands = [lon_p]
    if frame:
        cands = [a for a in atoms_of(arg) if a[0] == "attr" and a[2] == "rad" and a[1][0] == "attr" and a[1][2] == frame[0]]
    shift = None
    for c in cands:
        cs = coeffs(arg, c)
        if cs is not None and cs[0] == num(1) and not (atoms_of(cs[1]) - {cs[1], PI} - {a for a in atoms_of(cs[1]) if a[0] == "poly"}):
            lon_src, shift = c, cs[1]
    if lon_src is None:
        run.violated("C11.R2", f, node, "%s: the reduced quantity %s is not `longitude + constant`%s" % (
            name, show(arg)[:80], " of the rotated frame" if frame else ""), kind="wrap-argument", **facts)
        return
    # any other use of the longitude outside M?
    rest = coeffs(x_core, M)
    if rest is None or lon_src in atoms_of(rest[1]) or lon_p in atoms_of(rest[1]):
        run.violated("C11.R2", f, node, "%s: the longitude also enters the index outside the modulo reduction" % name, kind="unwrapped-use", **facts)
        return
    run.holds("C11.R2", f, node, "%s: longitude enters only through (lon + %s) mod 2*pi" % (name, show(shift)), **facts)
    # ---- R3 cell consistency (x)
    c1, c0 = rest
    nx_t = nx if nx in atoms_of(c1) else nx2
    scale = sym.div(nx_t, two_pi)
    if c1 == scale:
        d = +1
    elif c1 == sym.neg(scale):
        d = -1
    else:
        run.violated("C11.R3", f, node, "%s: d(ix)/d(lon) is %s, expected +-nx/(2*pi)" % (name, show(c1)[:80]), kind="x-scale", **facts)
        return
    want_c0 = num(sym.Fr(-1, 2)) if d > 0 else sym.sub(nx_t, num(sym.Fr(1, 2)))
    if c0 == want_c0:
        run.holds("C11.R3", f, node, "%s: ix = %s*M*nx/(2pi) + %s: pixel k's cell is exactly the longitudes rounding to k" % (name, "+" if d > 0 else "-", show(want_c0)), **facts)
    else:
        delta = sym.sub(c0, want_c0)
        run.violated("C11.R3", f, node, "%s: ix = %s*M*nx/(2pi) + %s; the constant must be %s (pixel centres at half-integers): the map is shifted by %s pixel(s)" % (
            name, "+" if d > 0 else "-", show(c0)[:60], show(want_c0), show(delta)[:40]), kind="x-offset", **facts)
    # ---- R3 (y)
    lat_src = lat_p
    if frame:
        la = [a for a in y_atoms if a[0] == "attr" and a[2] == "rad" and a[1][0] == "attr" and a[1][2] == frame[1]]
        lat_src = la[0] if la else None
    cy = coeffs(y_core, lat_src) if lat_src is not None else None
    ny_t = ny if ny in y_atoms else ny2
    if cy is None:
        run.violated("C11.R3", f, node, "%s: the row index does not depend linearly on the %slatitude" % (name, "rotated " if frame else ""), kind="y-form", **facts)
    else:
        want1 = sym.neg(sym.div(ny_t, PI))
        want0 = sym.sub(sym.div(ny_t, num(2)), num(sym.Fr(1, 2)))
        if cy[0] == want1 and cy[1] == want0:
            run.holds("C11.R3", f, node, "%s: iy = -lat*ny/pi + ny/2 - 1/2 (latitude +90 at the top row)" % name, **facts)
        elif cy[0] == sym.neg(want1):
            run.violated("C11.R3", f, node, "%s: the row index increases with latitude: the map is read upside down" % name, kind="y-direction", **facts)
        elif cy[0] != want1:
            run.violated("C11.R3", f, node, "%s: d(iy)/d(lat) is %s, expected -ny/pi" % (name, show(cy[0])[:60]), kind="y-scale", **facts)
        else:
            run.violated("C11.R3", f, node, "%s: iy = -lat*ny/pi + %s; the constant must be ny/2 - 1/2: rows shifted by %s" % (
                name, show(cy[1])[:60], show(sym.sub(cy[1], want0))[:40]), kind="y-offset", **facts)
    # ---- R4 layout
    if d != d_want:
        run.violated("C11.R4", f, node, "%s: longitude increases to the %s; documented: %s" % (name, "right" if d > 0 else "left", desc), kind="direction", **facts)
    elif shift_pi is None:
        run.holds("C11.R4", f, node, "%s: direction matches; origin not documented" % name, **facts) if False else None
    else:
        want_shift = sym.mul(num(shift_pi), PI)
        # shifts are equivalent modulo 2*pi
        diff = sym.sub(shift, want_shift)
        k = None
        cs = coeffs(diff, PI)
        if cs is not None and sym.is_num(cs[0]) and cs[1] == num(0):
            k = sym.num_value(cs[0])
        if k is not None and k % 2 == 0:
            where = {(1, -1): "centre", (1, 1): "centre", (0, 1): "left edge", (0, -1): "right edge"}[(shift_pi, d)]
            run.holds("C11.R4", f, node, "%s: longitude 0 at the %s, increasing to the %s (documented layout)" % (name, where, "right" if d > 0 else "left"), **facts)
        else:
            run.violated("C11.R4", f, node, "%s: longitudes are normalised as (lon + %s) mod 2*pi, which puts longitude 0 elsewhere than documented (%s)" % (
                name, show(shift), desc), kind="origin", **facts)
    # ---- R5 frame rotation
    if frame:
        tr = [a for a in atoms_of(lon_src) if a[0] == "call" and a[1][0] == "attr" and a[1][2] == "transform_to"]
        ok = False
        if tr:
            src = tr[0][1][1]
            ok = src[0] == "call" and show(src[1]) == "ICRS" and len(src[2]) == 2 and lon_p in atoms_of(src[2][0]) and lat_p in atoms_of(src[2][1]) \
                and lat_p not in atoms_of(src[2][0]) and lon_p not in atoms_of(src[2][1])
            tgt = show(tr[0][2][0]) if tr[0][2] else ""
            want_tgt = "Galactic" if frame[0] == "l" else "Ecliptic"
            ok = ok and want_tgt in tgt
            same = lat_src is not None and tr[0] in atoms_of(lat_src)
            ok = ok and same
            # astropy's transform_to takes a frame *object*; handed the frame class it refuses every call
            # (ConvertError), so the sampler returns no pixel at all (F14).  Siblings must agree on this.
            tgt_t = tr[0][2][0] if tr[0][2] else None
            if ok and tgt_t is not None:
                if tgt_t[0] == "call":
                    run.holds("C11.R5", f, node, "%s: transform_to is handed a frame instance (%s)" % (name, tgt[:40]), **facts)
                elif show(tgt_t) == want_tgt or show(tgt_t).endswith("." + want_tgt):
                    run.violated("C11.R5", f, node, "%s: transform_to is handed the frame class %s itself, not an instance: astropy refuses the conversion "
                                 "(ConvertError) on every call, no sky point gets a pixel" % (name, show(tgt_t)), kind="frame-class-not-instance", **facts)
                else:
                    run.undecided("C11.R5", f, node, "%s: cannot tell whether transform_to's argument %s is a frame instance" % (name, tgt[:60]), **facts)
        if ok:
            run.holds("C11.R5", f, node, "%s: indices use the %s coordinates of ICRS(lon, lat).transform_to(...)" % (name, frame), **facts)
        else:
            run.violated("C11.R5", f, node, "%s: the indexed coordinates are not the (%s, %s) of ICRS(lon*rad, lat*rad) transformed to the map's frame" % (
                name, frame[0], frame[1]), kind="frame-rotation", **facts)


def _subterms_all(t):
    if isinstance(t, tuple):
        if t and isinstance(t[0], str):
            yield t
        for x in t:
            if isinstance(x, tuple):
                for y in _subterms_all(x):
                    yield y
