"""C09 - Tiling images on a common TAN grid equals tiling the assembled mosaic.

R1 serial == worker: the per-image body of _tile_serial and of _mp_tile_worker produce the same
   canonical facts (flip decision, placement slices, locked update)
R2 parity reconciliation per image; bottom-up placement uses the reflections N_image - HI and 256 - HI
R3 shared tiles only through the locked read-modify-write with default='masked' and the image's mode
R4 lock cleanup on every normal return of tile(), after the stage, at the tiling's level, with the
   same path template as the lock; covering every position of that level
R5 global pixelisation: sub-image origin/size = (imin, jmin, imax+1-imin, jmax+1-jmin); extrema by
   min/max per axis; the global CRPIX does not depend on which input came last
R6 parity decisions derive from the written format (shared parity rule)
"""
import ast

from sa import sym, boolalg, termdiff
from sa.sym import show, num, num_value, atoms_of
from sa.cfg import CFG, enclosing_stmts
from sa.model import dotted, own_calls, own_nodes, callee_attr
from . import common, parity

MT = "toasty.multi_tan"
MW = "toasty.multi_wcs"
P = "toasty.pyramid"

EXPLANATION = (
    "The per-image bodies of the serial tiling loop and of the worker are evaluated abstractly and reduced to a signature "
    "of canonical terms over the symbols IMG (the current image), DESC (its descriptor) and the elements of "
    "generate_populated_positions: the flip decision, the four placement slices (with the bottom-up reflections), and "
    "the arguments of the locked update. The signatures must equal each other and the specification. The flip "
    "decision must be a function of the current image (no loop-carried state). A must-pass-through query on tile() "
    "decides that lock files are cleaned after the stage on every normal path, at the level tiles were written; the "
    "cleanup's path term equals the lock's. compute_global_pixelization is evaluated with last-iteration relations so "
    "that the reference pixel is shown independent of the last input. Pixel equality with the pasted mosaic is not decided."
)

MANIFEST = {
    "technique": "static analysis: clone agreement on canonical-term signatures of the per-image body (serial vs worker vs specification, local helpers inlined), loop-carried dependence check of the flip decision, must-pass-through of lock cleanup, polynomial cancellation for the global reference pixel, flip algebra premises shared with C16; lock premises shared with C10, input-flow premise shared with C20; positional pairing: the descriptor list zipped with collection.images() is built one entry per description and never re-ordered / filtered (who-may-mutate); per-mode update convention and the range cards of re-saved shared tiles (shared with C15 / C14); one image per input in step with the descriptions (shared with C20)",
    "text": "Decides the structural premises of 'tiling the pieces equals tiling the mosaic, for both input parities, any worker count, with no lock files left': placement algebra, per-image parity reconciliation, locked merging, cleanup, global pixelisation algebra.",
    "note": "Trusted: C08 (sub-image tiling), C10 (locked update), C15 (mask-aware update), C16 (flip_parity). Not decided: pixel equality with the pasted mosaic and order independence for overlapping inputs (runtime data).",
}


def run(run):
    run.explanation = EXPLANATION
    run.undecided_clauses += ["pixel equality with the pasted mosaic; independence of input order for overlapping inputs"]
    for r, n in (("C09.R1", 1), ("C09.R2", 4), ("C09.R3", 2), ("C09.R4", 3), ("C09.R5", 4), ("C09.R6", 2), ("C09.R7", 4), ("C09.R8", 2)):
        run.floor(r, n)
    sigs = _signatures(run)
    # the locked read-modify-write itself (C10.R1) is a premise of "undefined pixels never overwrite defined ones
    # for any worker count": apply it here under C09.R3
    from sa import report
    from . import C10
    sub = report.Run("C10", run.project, run.tier)
    upd = common.as_generator_cm(run.project, run.project.fn(P + ".PyramidIO.update_image"))
    run.note_func(upd)
    C10._r1(sub, upd)
    for o in sub.obs:
        o.rule = "C09.R3"
        o.kind = (o.kind or "") and ("update-image:" + o.kind)
        run.obs.append(o)
    # ... with a lock that really excludes other processes, keyed by the tile, and never removed while tiling is under way
    # (C10.R2 / R3 / R6), or two workers sharing a deepest-level tile lose one input's pixels
    def locks(sub2):
        ev10 = sym.make_evaluator(sub2.project, P, [], no_inline=("tile_path", "read_image", "write_image", "update_image"))
        ev10.self_class = P + ".PyramidIO"
        C10._r2_r3(sub2, upd, ev10.run(upd.node), ev10)
        C10._r6(sub2)
    common.delegate(run, "C09.R3", "C10", locks, only_rules={"C10.R2", "C10.R3", "C10.R6"}, note="premise: shared tiles are merged under a real per-tile lock")
    # every input reaches the processor: the loader hands the collection the paths and per-file options it was given
    # (C20.R4); a dropped input is a hole in the mosaic
    from . import C20 as c20
    common.delegate(run, "C09.R7", "C20", c20._r4, only_rules={"C20.R4"}, note="premise: the tiled collection is the list of inputs the user gave")
    _r4_cleanup(run)
    _r5_pixelization(run)
    _r8_pairing(run)
    # R8's other half: collection.images() itself hands out one image per input, in step with descriptions() (C20.R6)
    common.delegate(run, "C09.R8", "C20", lambda sub: c20._r6_one_item_per_input(sub), only_rules={"C20.R6"},
                    note="premise: images() and the descriptor list stay in step")
    # an input is merged into a shared tile through update_into_maskable_buffer: exactly its defined pixels are copied, per
    # mode (C15's convention rule) - a defined pixel the merge skips is missing from the tile but present in the pasted mosaic
    from . import C15 as c15

    def conv(sub):
        members = c15._enum_members(sub.project)
        if len(members) >= 8:
            chains = c15._r1_chains(sub, members)
            c15._r2_conventions(sub, members, chains)
    common.delegate(run, "C09.R3", "C15", conv, only_rules={"C15.R2"}, note="premise: merging an input copies exactly its defined pixels")
    # ... and the tile re-saved after the merge records the range of the pixels it now holds, not the range remembered from
    # the first input that reached it (C14.R3): "equals tiling the mosaic" includes the DATAMIN / DATAMAX cards
    from . import C14 as c14
    common.delegate(run, "C09.R2", "C14", c14._r3_leaves, only_rules={"C14.R3"}, note="premise: a re-saved shared tile records the range of its merged pixels")
    # (F15, the reducer that lets an infinite pixel suppress the card, is the same on the mosaic route: not a difference between the two)
    run.obs[:] = [o for o in run.obs if not (o.rule == "C09.R2" and (o.kind or "").endswith("range-ignores-infinities"))]
    parity.check(run, "C09.R6", skip_classes=("ToastSampler", "TileMerger", "StudyTiling"))
    # flipping an input (image or description) to the tile parity must be the exact reflection decided by C16
    from . import C16 as c16
    from sa import sym as _sym

    def flips(sub):
        ev16 = _sym.make_evaluator(sub.project, "toasty.image", [], inline_local=True)
        ev16.unroll = True          # as in C16 itself: loops over literal keyword tuples are evaluated keyword by keyword
        c16._r1(sub, ev16)
        c16._r2(sub)
    common.delegate(run, "C09.R2", "C16", flips, only_rules={"C16.R1", "C16.R2"}, note="premise: a flipped input keeps its sky position")


IMG, DESC = ("sym", "IMG"), ("sym", "DESC")


def _subst(t, m):
    if t in m:
        return m[t]
    if isinstance(t, tuple):
        return tuple(_subst(x, m) if isinstance(x, tuple) else x for x in t)
    return t


def _signature(project, f, kind):
    ev = sym.make_evaluator(project, MT, [], inline_local=True)
    r = ev.run(f.node)
    # identify the current image / descriptor
    if kind == "serial":
        loops = [(k, it, n) for k, it, n in r.loops if it[0] == "call" and it[1] == ("sym", "zip")]
        if not loops:
            return None, "no `for image, desc in zip(...)` loop", r
        k, it, lnode = loops[0]
        el0 = ev._iter_elem(it)
        if el0[0] == "tuple" and len(el0[1]) == 2:
            img, desc = el0[1]
        else:
            img, desc = ("item", ("elem", it), 0), ("item", ("elem", it), 1)
        source = it
    else:
        # the received item: the call whose result is unpacked into (image, descriptor) -- queue.get(...) itself or a
        # receive helper wrapped around it
        firsts = [e.term[1][1][1] for e in r.events if e.kind == "assign" and e.term[1][1][0] == "item" and e.term[1][1][2] == 0 and e.term[1][1][1][0] == "call"]
        seconds = {e.term[1][1][1] for e in r.events if e.kind == "assign" and e.term[1][1][0] == "item" and e.term[1][1][2] == 1}
        recv = [g_ for g_ in firsts if g_ in seconds]
        if not recv:
            # the item may have passed through a local first (`segment = next_item(..); image, desc = segment`, with the
            # polling helper inlined as the loop it wraps): whatever is unpacked into two names is the received item
            anyfirst = [e.term[1][1][1] for e in r.events if e.kind == "assign" and e.term[1][1][0] == "item" and e.term[1][1][2] == 0]
            recv = [g_ for g_ in anyfirst if g_ in seconds and g_[0] == "sym"]
        gets = [e for e in r.events if e.kind == "call" and e.term[1][0] == "attr" and e.term[1][2] == "get"]
        if not recv and not gets:
            return None, "worker never receives", r
        src_t = recv[0] if recv else gets[0].term
        img, desc = ("item", src_t, 0), ("item", src_t, 1)
        source = src_t
    m = {img: IMG, desc: DESC}
    gens = [(k, it, n) for k, it, n in r.loops if it[0] == "call" and it[1][0] == "attr" and it[1][2] == "generate_populated_positions"]
    if not gens:
        return None, "no loop over generate_populated_positions", r
    gk, git, gnode = gens[-1]
    gen_n = _subst(git, m)
    el = ("elem", gen_n)
    sig = {"generator": gen_n, "source": source}
    flips = [e for e in r.events if e.kind == "call" and e.term[1][0] == "attr" and e.term[1][2] == "flip_parity"]
    def per_image(pc):
        # conditions of the per-image body; the receive protocol ("did we get an item at all?") is not part of it
        out = []
        for c in pc:
            if c[0] == "loop":
                continue
            t = _subst(c[0], m)
            if source in atoms_of(t):
                continue
            if _is_protocol(t):
                continue
            out.append((t, c[1]))
        return tuple(out)
    sig["flip"] = [(_subst(e.term[1][1], m), per_image(e.pc)) for e in flips]
    ups = [e for e in r.events if e.kind == "call" and e.term[1][0] == "attr" and e.term[1][2] == "update_image"]
    sig["update_image"] = [(_subst(e.term, m), per_image(e.pc)) for e in ups]
    uis = [e for e in r.events if e.kind == "call" and e.term[1][0] == "attr" and e.term[1][2] == "update_into_maskable_buffer"]
    sig["update_into"] = [(_subst(e.term[1][1], m), tuple(_subst(a, m) for a in e.term[2])) for e in uis]
    sig["writes"] = [e for e in r.events if e.kind == "call" and e.term[1][0] == "attr" and e.term[1][2] == "write_image"]
    sig["nodes"] = {"flip": flips, "update_image": ups, "update_into": uis}
    return sig, None, r


def _is_protocol(t):
    """A condition about receiving at all -- built only from exception markers of the receive and tests of the done flag."""
    if not isinstance(t, tuple) or not t:
        return False
    if t[0] == "op" and t[1] == "except":
        return True
    if t[0] == "call" and t[1][0] == "attr" and t[1][2] == "is_set":
        return True
    if t[0] == "op" and t[1] in ("and", "or", "not"):
        return all(_is_protocol(x) for x in t[2])
    return False


def _signatures(run):
    project = run.project
    atomic = ("update_image", "update_into_maskable_buffer", "flip_parity", "get_parity_sign", "generate_populated_positions", "read_image", "write_image",
              "progress_bar", "images", "get_default_vertical_parity_sign")
    fs = common.flatten(project, project.fn(MT + ".MultiTanProcessor._tile_serial"), keep=atomic)
    fw = common.flatten(project, project.fn(MT + "._mp_tile_worker"), keep=atomic)
    run.note_func(fs, fw)
    ss, err_s, rs = _signature(project, fs, "serial")
    sw, err_w, rw = _signature(project, fw, "worker")
    if ss is None or sw is None:
        run.undecided("C09.R1", fs if ss is None else fw, None, err_s or err_w, kind="signature")
        return
    # ---- R2 specification of the per-image body
    ev = sym.make_evaluator(project, MT, [])
    pio = ("sym", "pio")
    tsign = ("call", ("attr", pio, "get_default_vertical_parity_sign"), (), ())
    for label, f, sg in (("serial", fs, ss), ("worker", fw, sw)):
        el = ("elem", sg["generator"])
        pos, width, height, image_x, image_y, tile_x, tile_y = (("item", el, i) for i in range(7))
        # (a) flip decision
        want_flip_cond = sym.cmp("NotEq", ("call", ("attr", IMG, "get_parity_sign"), (), ()), tsign)
        if len(sg["flip"]) != 1:
            run.violated("C09.R2", f, None, "%s: expected exactly one conditional image.flip_parity() per image, found %d: inputs whose vertical parity "
                         "differs from the tile format would be pasted upside down (or flipped twice)" % (label, len(sg["flip"])), kind="flip-count")
        else:
            recv, conds = sg["flip"][0]
            carried = [a for c, p in conds for a in atoms_of(c) if a[0] == "sym" and "@L" in a[1]]
            if recv != IMG:
                run.violated("C09.R2", f, sg["nodes"]["flip"][0].node, "%s: flip_parity is applied to %s, not to the current image" % (label, show(recv)[:60]), kind="flip-receiver")
            elif boolalg.equiv(boolalg.conj(conds), want_flip_cond) is True:
                run.holds("C09.R2", f, sg["nodes"]["flip"][0].node, "%s: image flipped exactly when its parity differs from the tile format's" % label)
            elif carried:
                run.violated("C09.R2", f, sg["nodes"]["flip"][0].node, "%s: the decision to flip the current image depends on state carried over from previous "
                             "images (%s): in a collection mixing bottom-up and top-down inputs every input that differs from the first one is "
                             "pasted vertically mirrored" % (label, ", ".join(sorted({a[1].split('@')[0] for a in carried}))), kind="flip-decision-loop-carried")
            elif not any(IMG in atoms_of(c) for c, p in conds):
                run.violated("C09.R2", f, sg["nodes"]["flip"][0].node, "%s: the flip decision %s does not depend on the current image" % (
                    label, [show(c)[:80] for c, p in conds]), kind="flip-decision-not-per-image")
            else:
                eqv = [c for c, p in conds]
                run.violated("C09.R2", f, sg["nodes"]["flip"][0].node, "%s: image is flipped under %s; expected image.get_parity_sign() != tile parity sign" % (
                    label, [("" if p else "not ") + show(c)[:100] for c, p in conds]), kind="flip-condition")
        # (b) placement slices
        e2 = lambda src, **k: ev.expr(src, k)
        up = sym.cmp("Eq", tsign, num(1))
        k = dict(ix=image_x, iy=image_y, tx=tile_x, ty=tile_y, w=width, h=height, H=("attr", IMG, "height"))
        iy_up, ty_up = e2("H - (iy + h)", **k), e2("256 - (ty + h)", **k)
        want = {
            "iy": ("ite", up, e2("slice(a, a + h)", a=iy_up, h=height), e2("slice(iy, iy + h)", **k)),
            "ix": e2("slice(ix, ix + w)", **k),
            "by": ("ite", up, e2("slice(a, a + h)", a=ty_up, h=height), e2("slice(ty, ty + h)", **k)),
            "bx": e2("slice(tx, tx + w)", **k),
        }
        if len(sg["update_into"]) != 1 or len(sg["update_into"][0][1]) != 5:
            run.undecided("C09.R2", f, None, "%s: expected one update_into_maskable_buffer(basis, iy, ix, by, bx)" % label, kind="update-into-shape")
            continue
        recv, a = sg["update_into"][0]
        node = sg["nodes"]["update_into"][0].node
        for i, nm in enumerate(("iy", "ix", "by", "bx")):
            got = termdiff.lift(a[i + 1])
            w_ = termdiff.lift(want[nm])
            d = termdiff.diff(got, w_)
            if d[0] == "equal":
                run.holds("C09.R2", f, node, "%s: %s_idx equals the specification (reflection N - HI for bottom-up tiles)" % (label, nm), arg=nm, side=label)
            elif d[0] == "definite":
                run.violated("C09.R2", f, node, "%s: %s_idx: %s" % (label, nm, termdiff.describe(d)), kind="placement-" + nm, arg=nm, side=label)
            else:
                run.undecided("C09.R2", f, node, "%s: %s_idx: %s" % (label, nm, termdiff.describe(d)), kind="placement-structure-" + nm, arg=nm, side=label)
        # (c) locked update
        if len(sg["update_image"]) != 1:
            run.violated("C09.R3", f, None, "%s: expected one pio.update_image(...) per populated position" % label, kind="update-image-count")
        else:
            t, conds = sg["update_image"][0]
            kw = dict(t[3])
            ok = t[1] == ("attr", pio, "update_image") and t[2] and t[2][0] == pos and kw.get("default") == ("const", "masked") \
                and kw.get("masked_mode") == ("attr", IMG, "mode") and not conds
            basis_ok = a[0] == ("op", "enter", (_unsub(t),)) or a[0][0] == "op" and a[0][1] == "enter"
            if ok and recv == IMG and basis_ok and not sg["writes"]:
                run.holds("C09.R3", f, sg["nodes"]["update_image"][0].node, "%s: image.update_into_maskable_buffer(basis, ...) inside pio.update_image(pos, "
                          "masked_mode=image.mode, default='masked')" % label)
            elif sg["writes"]:
                run.violated("C09.R3", f, sg["writes"][0].node, "%s: a shared deepest-level tile is written with a plain write_image (inputs sharing a tile "
                             "overwrite each other / undefined pixels overwrite defined ones)" % label, kind="direct-write")
            else:
                run.violated("C09.R3", f, sg["nodes"]["update_image"][0].node, "%s: shared tiles are not merged as update_image(pos, masked_mode=image.mode, "
                             "default='masked') + image.update_into_maskable_buffer(basis, ...): got %s" % (label, show(t)[:160]), kind="update-image-args")
    # ---- R1 serial == worker
    keys = ("generator", "flip", "update_image", "update_into")
    diff = [k for k in keys if ss[k] != sw[k]]
    if diff:
        k = diff[0]
        run.violated("C09.R1", fw, None, "the worker's per-image body differs from the serial one in `%s`: serial %s / worker %s" % (
            k, _short(ss[k]), _short(sw[k])), kind="serial-worker-differ", aspect=k)
    else:
        run.holds("C09.R1", fw, None, "worker body == serial body on generator, flip decision, locked update and placement slices")
    # item source: what the stage puts equals what the serial loop iterates
    return ss, sw


def _unsub(t):
    return t


def _short(x):
    try:
        return show(x)[:160]
    except Exception:
        return str(x)[:160]


def _push_ite(t):
    """slice(ite(c,a,b), ite(c,a2,b2)) -> ite(c, slice(a,a2), slice(b,b2)) so that joins compare."""
    if t[0] == "call" and t[1] == ("sym", "slice") and any(x[0] == "ite" for x in t[2]):
        conds = {x[1] for x in t[2] if x[0] == "ite"}
        if len(conds) == 1:
            c = conds.pop()
            a = tuple(x[2] if x[0] == "ite" else x for x in t[2])
            b = tuple(x[3] if x[0] == "ite" else x for x in t[2])
            return ("ite", c, ("call", t[1], a, t[3]), ("call", t[1], b, t[3]))
    return t


def _r4_cleanup(run):
    project = run.project
    for q in (MT + ".MultiTanProcessor.tile", "toasty.multi_wcs.MultiWcsProcessor.tile"):
        f = project.fn(q)
        run.note_func(f)
        cfg = CFG(f.node)
        cleans = [(n, c) for n in cfg.nodes for c in cfg.calls_at(n) if callee_attr(c) == "clean_lockfiles"]
        stages = [n for n in cfg.nodes for c in cfg.calls_at(n) if callee_attr(c) in ("_tile_parallel", "_tile_serial")]
        if not stages:
            run.undecided("C09.R4", f, None, "tile() does not call _tile_serial/_tile_parallel", kind="no-stage-call")
            continue
        if not cleans:
            run.violated("C09.R4", f, None, "tile() never calls clean_lockfiles: the *.lock files created by update_image remain in the pyramid", kind="no-cleanup")
            continue
        cids = {n.id for n, c in cleans}
        if cfg.exit.id in cfg.reachable(cfg.entry.id, avoid=cids, skip_labels=("exc",)):
            # which stage path escapes?
            esc = [s for s in stages if cfg.exit.id in cfg.reachable(s.id, avoid=cids, skip_labels=("exc",))]
            which = ", ".join(sorted({callee_attr(c) for s in esc for c in cfg.calls_at(s) if callee_attr(c) in ("_tile_parallel", "_tile_serial")}))
            run.violated("C09.R4", f, cleans[0][1], "tile() can return without cleaning the lock files (after %s): whether lock files remain then depends on the "
                         "worker count" % (which or "some path"), kind="cleanup-not-on-all-paths")
            continue
        early = any(n.id in cfg.reachable(cfg.entry.id, avoid={s.id for s in stages}, skip_labels=("exc",)) for n, c in cleans)
        ev = sym.make_evaluator(project, f.module.name, [])
        r = ev.run(f.node)
        ce = [e for e in r.events if e.kind == "call" and e.term[1][0] == "attr" and e.term[1][2] == "clean_lockfiles"]
        lvl = ce[0].term[2][0] if ce and ce[0].term[2] else None
        want = ("attr", ("attr", ("sym", "self"), "_tiling"), "_tile_levels")
        if early:
            run.violated("C09.R4", f, cleans[0][1], "lock files are cleaned before the tiling stage ran", kind="cleanup-before-stage")
        elif lvl != want:
            run.violated("C09.R4", f, cleans[0][1], "lock files are cleaned at level %s, but the tiles (and their locks) are written at self._tiling._tile_levels" % show(lvl)[:60],
                         kind="cleanup-level")
        else:
            run.holds("C09.R4", f, cleans[0][1], "clean_lockfiles(self._tiling._tile_levels) after the stage on every normal path")
    # cleanup path == lock path; covers the whole level
    cl = project.fn(P + ".PyramidIO.clean_lockfiles")
    up = common.as_generator_cm(project, project.fn(P + ".PyramidIO.update_image"))
    run.note_func(cl, up)
    from . import C10 as c10
    ev = sym.make_evaluator(project, P, [], no_inline=("tile_path", "read_image", "write_image", "update_image"))
    ev.self_class = P + ".PyramidIO"
    rc = ev.run(cl.node)
    unl = [e for e in rc.events if e.kind == "call" and show(e.term[1]) in ("os.unlink", "os.remove")]
    pl, _pos, _lock_ev = c10.lock_key_term(project)
    if not unl or pl is None or not unl[0].term[2]:
        run.undecided("C09.R4", cl, None, "cannot extract lock / cleanup paths", kind="lock-paths")
        return
    pc = unl[0].term[2][0]

    def template(t, posterm):
        # tile_path(pos, ...) with the makedirs flag ignored
        def norm(x):
            if isinstance(x, tuple):
                if x and x[0] == "call" and x[1][0] == "attr" and x[1][2] == "tile_path":
                    dflt = ("attr", x[1][1], "_default_format")
                    def default_format(v):
                        # format=None, format=self._default_format and format=(None or self._default_format) all name the default
                        # format (tile_path itself falls back to it)
                        while v[0] == "op" and v[1] == "or" and len(v[2]) == 2 and v[2][0] == sym.NONE:
                            v = v[2][1]
                        return v in (sym.NONE, dflt)
                    return ("call", x[1], tuple(("sym", "POS") if a == posterm else norm(a) for a in x[2]),
                            tuple((k, norm(v)) for k, v in x[3] if k != "makedirs" and not (k == "format" and default_format(v))))
                if x == posterm:
                    return ("sym", "POS")
                if x and x[0] == "attr" and x[1] == posterm and posterm[0] == "nt" and x[2] in ("n", "x", "y"):
                    return ("attr", ("sym", "POS"), x[2])
                if x and x[0] == "op" and x[1] == "or" and len(x[2]) == 2 and x[2][0] == sym.NONE:
                    return norm(x[2][1])                      # (None or X) is X
                return tuple(norm(y) if isinstance(y, tuple) else y for y in x)
            return x
        return norm(t)
    level = ("sym", cl.params()[1])
    loops = [(k, it, n) for k, it, n in rc.loops]
    posc = None
    for a in atoms_of(pc):
        if a[0] == "nt" and a[1] == "Pos":
            posc = a
    if posc is None:
        run.undecided("C09.R4", cl, None, "clean_lockfiles does not build a Pos", kind="cleanup-pos")
        return
    tl = template(pl, ("sym", up.params()[1]))
    tc = template(pc, posc)
    rng = ("call", ("sym", "range"), (("op", "pow", (num(2), level)),), ())
    want_pos = ("nt", "Pos", (level, ("elem", rng), ("elem", rng)))
    from . import common as _common
    if tl != tc and (_common.unfollowed_project_calls(project, tl) or _common.unfollowed_project_calls(project, tc)) and not \
            (show(tl).count("tile_path") and show(tc).count("tile_path") and not [u for u in _common.unfollowed_project_calls(project, tl) + _common.unfollowed_project_calls(project, tc)
                                                                                 if show(u[1]).split(".")[-1] != "tile_path"]):
        run.undecided("C09.R4", cl, unl[0].node, "clean_lockfiles removes %s, update_image locks %s: the paths go through helpers / records that are not followed" % (
            show(tc)[:80], show(tl)[:80]), kind="cleanup-path-opaque")
    elif tl != tc:
        run.violated("C09.R4", cl, unl[0].node, "clean_lockfiles removes %s but update_image locks %s: the lock files are not the ones cleaned" % (show(tc)[:100], show(tl)[:100]),
                     kind="cleanup-path-template")
    elif posc != want_pos:
        run.violated("C09.R4", cl, unl[0].node, "clean_lockfiles visits %s; it must cover every position (level, x, y) with 0 <= x, y < 2**level" % show(posc)[:120],
                     kind="cleanup-coverage")
    else:
        run.holds("C09.R4", cl, unl[0].node, "cleanup removes tile_path(Pos(level, x, y)) + '.lock' for all 0 <= x, y < 2**level: the same template as the lock")
    # with FileLock the lock file is not removed on release: cleanup then is the only removal (decided above)


def _r5_pixelization(run):
    project = run.project
    f = project.fn(MT + ".MultiTanProcessor.compute_global_pixelization")
    run.note_func(f)
    # (per-input placement may be split into helpers of the processor / the descriptor class)
    ev = sym.make_evaluator(project, MT, [], inline_local=True)
    ev.self_class = MT + ".MultiTanProcessor"
    ev.inline_resolved = True
    ev.no_inline = ("compute_for_subimage", "count_populated_positions", "generate_populated_positions", "StudyTiling", "images", "descriptions",
                    "get_parity_sign", "flip_parity", "to_header", "update_image", "read_image", "write_image")
    r = ev.run(f.node)
    # (a) sub-image geometry handed to compute_for_subimage
    cfs = [e for e in r.events if e.kind == "call" and e.term[1][0] == "attr" and e.term[1][2] == "compute_for_subimage"]
    if len(cfs) != 1 or len(cfs[0].term[2]) != 4:
        run.undecided("C09.R5", f, None, "expected one compute_for_subimage(ix, iy, w, h) call", kind="subimage-call")
    else:
        a = cfs[0].term[2]
        sv = {}
        for e in r.events:
            if e.kind == "store" and e.term[1][0][0] == "attr" and e.term[1][0][2] in ("imin", "imax", "jmin", "jmax"):
                sv[e.term[1][0][2]] = e.term[1][1]
        if len(sv) != 4:
            run.undecided("C09.R5", f, cfs[0].node, "desc.imin/imax/jmin/jmax are not all set before the sub-tiling is computed", kind="subimage-args")
        else:
            want = (sv["imin"], sv["jmin"], sym.sub(sym.add(sv["imax"], num(1)), sv["imin"]), sym.sub(sym.add(sv["jmax"], num(1)), sv["jmin"]))
            names = ["origin x", "origin y", "width", "height"]
            bad = [(names[i], a[i], want[i]) for i in range(4) if a[i] != want[i]]
            if bad:
                nm, got, w_ = bad[0]
                run.violated("C09.R5", f, cfs[0].node, "sub-image %s handed to the tiling is %s, expected %s (inclusive pixel range imin..imax, jmin..jmax)" % (
                    nm, show(got)[:80], show(w_)[:80]), kind="subimage-geometry")
            else:
                run.holds("C09.R5", f, cfs[0].node, "compute_for_subimage(imin, jmin, imax+1-imin, jmax+1-jmin)")
    # the global extremum of one per-input field, in either spelling:
    #   running   g = x if g is None else min(g, x)   (value right after the loop)
    #   aggregate g = min(d.<field> for d in <the list the descriptors are appended to>)
    stores = {}
    for e in r.events:
        if e.kind == "store" and e.term[1][0][0] == "attr" and e.term[1][0][2] in ("imin", "imax", "jmin", "jmax", "crxmin", "crxmax", "crymin", "crymax"):
            stores.setdefault(e.term[1][0][2], []).append((e.term[1][0][1], e.term[1][1], e))
    appended = [e for e in r.events if e.kind == "call" and e.term[1][0] == "attr" and e.term[1][2] == "append" and [c for c in e.pc if c[0] == "loop"]]
    containers = {e.term[1][1] for e in appended}

    def global_extremum(red, fld):
        """(term, None) or (None, (verdict, node, message))"""
        # aggregate spelling
        for e in r.events:
            if e.kind != "assign" or [c for c in e.pc if c[0] == "loop"]:
                continue
            v = e.term[1][1]
            if v[0] == "call" and v[1] == ("sym", red) and len(v[2]) == 1 and v[2][0][0] == "op" and v[2][0][1] == "comp" and len(v[2][0][2]) == 4:
                kind, elt, it, cond = v[2][0][2]
                if elt == ("attr", ("elem", it), fld) and cond == sym.TRUE:
                    if it in containers or not containers:
                        return v, None
                    return None, ("violated", e.node, "%s of %s is taken over %s, not over the descriptors collected by this function" % (red, fld, show(it)[:60]))
            if v[0] == "call" and v[1] == ("sym", {"min": "max", "max": "min"}[red]) and len(v[2]) == 1 and v[2][0][0] == "op" and v[2][0][1] == "comp" \
                    and len(v[2][0][2]) == 4 and v[2][0][2][1] == ("attr", ("elem", v[2][0][2][2]), fld):
                return None, ("violated", e.node, "the global extremum of %s is computed with %s; expected %s" % (fld, v[1][1], red))
        # running spelling: a local updated in the loop as red(local, <stored field value>)
        sval = [v for obj, v, e in stores.get(fld, []) if [c for c in e.pc if c[0] == "loop"]]
        for e in r.events:
            if e.kind != "assign" or not [c for c in e.pc if c[0] == "loop"]:
                continue
            name = e.term[1][0][1]
            t = e.term[1][1]
            if t[0] == "call" and t[1][0] == "sym" and t[1][1] in ("min", "max") and len(t[2]) == 2 and sval and sval[0] in t[2]:
                carried = [a for a in t[2] if a[0] == "sym" and a[1].startswith(name + "@L")]
                if t[1][1] != red or len(carried) != 1:
                    return None, ("violated", e.node, "%s is updated as %s; expected %s(%s, mtdesc.%s)" % (name, show(t)[:100], red, name, fld))
                return _after_loop_value(r, name), None
        return None, ("undecided", None, "no global %s of %s found (neither a running update nor %s(d.%s for d in ...))" % (red, fld, red, fld))

    G = {}
    glob_ok = True
    for red, fld in (("min", "crxmin"), ("max", "crxmax"), ("min", "crymin"), ("max", "crymax")):
        t, err = global_extremum(red, fld)
        if t is None:
            glob_ok = False
            verdict, node, msg = err
            (run.violated if verdict == "violated" else run.undecided)("C09.R5", f, node, msg, kind="global-extrema" if verdict == "violated" else "global-extrema-shape")
        G[(red, fld)] = t
    if glob_ok:
        run.holds("C09.R5", f, None, "global extrema: min of minima / max of maxima per axis")
    # (b) imin/imax/jmin/jmax from the matching axis extrema
    okb = True
    for fld, fn_, src, gkey in (("imin", "floor", "crxmin", ("min", "crxmin")), ("imax", "ceil", "crxmax", ("min", "crxmin")),
                                ("jmin", "floor", "crymin", ("min", "crymin")), ("jmax", "ceil", "crymax", ("min", "crymin"))):
        if fld not in stores:
            okb = False
            run.undecided("C09.R5", f, None, "desc.%s is never set" % fld, kind="extent-missing")
            continue
        if G.get(gkey) is None:
            okb = False
            continue
        obj, val, e = stores[fld][-1]
        s_ = show(val)
        inner = val
        while inner[0] == "call" and show(inner[1]) in ("int", "np.floor", "np.ceil", "math.floor", "math.ceil") and inner[2]:
            inner = inner[2][0]
        want_inner = sym.sub(("attr", obj, src), G[gkey])
        uses_fn = ("np." + fn_) in s_ and s_.startswith("int(")
        if inner != want_inner or not uses_fn:
            okb = False
            run.violated("C09.R5", f, e.node, "desc.%s = %s; expected int(np.%s(desc.%s - global minimum of %s))" % (fld, s_[:100], fn_, src, gkey[1]), kind="extent-" + fld)
    if okb:
        run.holds("C09.R5", f, None, "imin/jmin = floor(crmin - global min), imax/jmax = ceil(crmax - global min), axis by axis")
    # (d) global reference pixel independent of the last input: CRPIX = 1 - global min
    for key, gkey in (("CRPIX1", ("min", "crxmin")), ("CRPIX2", ("min", "crymin"))):
        st = [e for e in r.events if e.kind == "store" and e.term[1][0][0] == "sub" and e.term[1][0][2] == ("const", key)
              and not [c for c in e.pc if c[0] == "loop"]]
        if not st:
            run.undecided("C09.R5", f, None, "ref_headers[%r] is not set after the loop" % key, kind="crpix-missing")
            continue
        g = G.get(gkey)
        if g is None:
            continue
        val = st[-1].term[1][1]
        d = dict(val[1]) if val[0] == "poly" else {}
        rest = {m: c for m, c in d.items() if m != ()}
        if val == sym.sub(num(1), g):
            run.holds("C09.R5", f, st[-1].node, "global %s = 1 - global minimum of %s: the last input's own reference pixel cancels out" % (key, gkey[1]))
        else:
            lead = [a for m in rest for a, p in m if a != g]
            run.violated("C09.R5", f, st[-1].node, "global %s is %s, expected 1 - (global minimum of %s)%s" % (key, show(val)[:140], gkey[1],
                         ("; it still depends on the last input through %s" % show(lead[0])[:60]) if lead else ""), kind="crpix-value")


def _after_loop_value(r, name):
    """The value a loop-updated local has right after the first loop of the function."""
    if not r.after_loop:
        return ("sym", name)
    k = min(r.after_loop)
    return r.after_loop[k].get(name, ("sym", name))


# ---------------------------------------------------------------------------------------------------------------------
# R8: images and their descriptors are paired by position


_REORDER = {"sort", "reverse", "pop", "remove", "insert", "clear"}


def _r8_pairing(run):
    """The tilers pair `collection.images()` with a list of per-image descriptors *by position* (zip).  The descriptor list
    must therefore be, and stay, in the collection's order: it is built with one entry per element of
    `collection.descriptions()` (a comprehension without condition, or an unconditional append in a loop over it), and
    nobody re-orders, filters or shortens it afterwards."""
    project = run.project
    n_sites = 0
    for mod in (MT, MW):
        for cls in sorted({f.cls.name for f in project.functions_in(mod) if f.cls is not None}):
            methods = [f for f in project.functions_in(mod) if f.cls is not None and f.cls.name == cls and f.module.kind == "py"]
            # the paired list: whatever attribute of self is zipped with <x>.images()
            paired = {}
            for f in methods:
                for c in own_calls(f.node):
                    if isinstance(c.func, ast.Name) and c.func.id == "zip" and len(c.args) == 2:
                        imgs = [a for a in c.args if isinstance(a, ast.Call) and isinstance(a.func, ast.Attribute) and a.func.attr == "images"]
                        attrs = [a for a in c.args if isinstance(a, ast.Attribute) and isinstance(a.value, ast.Name) and a.value.id == "self"]
                        if len(imgs) == 1 and len(attrs) == 1:
                            paired.setdefault(attrs[0].attr, []).append((f, c))
            for attr, sites in paired.items():
                n_sites += len(sites)
                bad = []
                unknown = []
                builds = 0
                for f in methods:
                    run.note_func(f)
                    aliases = {None}
                    for st in own_nodes(f.node):
                        if isinstance(st, ast.Assign) and len(st.targets) == 1 and isinstance(st.targets[0], ast.Name) and _is_self_attr(st.value, attr):
                            aliases.add(st.targets[0].id)

                    def is_list(x):
                        return _is_self_attr(x, attr) or (isinstance(x, ast.Name) and x.id in aliases)
                    parents = {}
                    for p_ in ast.walk(f.node):
                        for ch in ast.iter_child_nodes(p_):
                            parents[ch] = p_
                    for st in own_nodes(f.node):
                        if isinstance(st, (ast.Assign, ast.AnnAssign)):
                            tgts = st.targets if isinstance(st, ast.Assign) else [st.target]
                            for tg in tgts:
                                if _is_self_attr(tg, attr):
                                    v = st.value
                                    if isinstance(v, ast.List) and not v.elts or (isinstance(v, ast.Call) and isinstance(v.func, ast.Name) and v.func.id == "list" and not v.args):
                                        continue
                                    if isinstance(v, ast.ListComp) and len(v.generators) == 1 and not v.generators[0].ifs and _over_descriptions(v.generators[0].iter):
                                        builds += 1
                                        continue
                                    if isinstance(v, ast.Call) and isinstance(v.func, ast.Name) and v.func.id == "list" and len(v.args) == 1 and (
                                            _over_descriptions(v.args[0]) or (isinstance(v.args[0], ast.Call) and isinstance(v.args[0].func, ast.Name)
                                                                              and v.args[0].func.id == "map" and len(v.args[0].args) == 2 and _over_descriptions(v.args[0].args[1]))):
                                        builds += 1
                                        continue
                                    # a copy of the list itself keeps its order: list(self.L) / tuple(..) / self.L[:] / self.L.copy()
                                    if (isinstance(v, ast.Call) and isinstance(v.func, ast.Name) and v.func.id in ("list", "tuple") and len(v.args) == 1 and is_list(v.args[0])) \
                                            or (isinstance(v, ast.Subscript) and is_list(v.value) and isinstance(v.slice, ast.Slice) and v.slice.lower is None
                                                and v.slice.upper is None and v.slice.step is None) \
                                            or (isinstance(v, ast.Call) and isinstance(v.func, ast.Attribute) and v.func.attr == "copy" and is_list(v.func.value)):
                                        continue
                                    names = {x.func.id for x in ast.walk(v) if isinstance(x, ast.Call) and isinstance(x.func, ast.Name)}
                                    if names & {"sorted", "reversed", "set", "filter"} or (isinstance(v, ast.ListComp) and any(g.ifs for g in v.generators)):
                                        bad.append((f, st, "is rebuilt re-ordered or filtered (%s)" % ast.unparse(v)[:60]))
                                    else:
                                        unknown.append((f, st, "assigned %s" % ast.unparse(v)[:60]))
                                elif isinstance(tg, ast.Subscript) and is_list(tg.value) and isinstance(tg.slice, ast.Slice):
                                    bad.append((f, st, "has a slice of it replaced"))
                        elif isinstance(st, ast.Delete):
                            for tg in st.targets:
                                if isinstance(tg, ast.Subscript) and is_list(tg.value):
                                    bad.append((f, st, "has entries deleted"))
                        elif isinstance(st, ast.Call) and isinstance(st.func, ast.Attribute) and is_list(st.func.value):
                            m = st.func.attr
                            if m in _REORDER:
                                bad.append((f, st, "is changed in place by .%s(...)" % m))
                            elif m in ("append", "extend"):
                                # one unconditional append per element of collection.descriptions()
                                loop = None
                                cond = False
                                x = st
                                while x in parents and x is not f.node:
                                    x = parents[x]
                                    if isinstance(x, (ast.If, ast.Try, ast.While)) and loop is None:
                                        cond = True
                                    if isinstance(x, ast.For) and loop is None:
                                        loop = x
                                if m == "append" and loop is not None and _over_descriptions(loop.iter) and not cond:
                                    skips = _own_loop_exits(loop)
                                    if skips:
                                        bad.append((f, st, "is filled by an append that `continue` / `break` can skip for some inputs"))
                                    else:
                                        builds += 1
                                elif m == "append" and loop is not None and _over_descriptions(loop.iter):
                                    bad.append((f, st, "is filled by a conditional append (some inputs get no entry)"))
                                else:
                                    unknown.append((f, st, ".%s outside a loop over collection.descriptions()" % m))
                site_f, site_c = sites[0]
                for f, st, why in bad:
                    run.violated("C09.R8", f, st, "%s.%s is paired by position with collection.images() (zip in %s), but in %s it %s: images are pasted with "
                                 "another input's placement" % (cls, attr, site_f.short, f.short, why), kind="pairing-reordered", construct="%s.%s" % (cls, attr))
                for f, st, why in unknown:
                    run.undecided("C09.R8", f, st, "%s.%s is paired by position with collection.images(); cannot tell whether it stays in collection order (%s)"
                                  % (cls, attr, why), kind="pairing-shape", construct="%s.%s" % (cls, attr))
                if not bad and not unknown:
                    if builds >= 1:
                        run.holds("C09.R8", site_f, site_c, "%s.%s has one entry per element of collection.descriptions(), in order, and is never re-ordered; "
                                  "%d zip site(s) pair it with collection.images()" % (cls, attr, len(sites)), construct="%s.%s" % (cls, attr))
                    else:
                        run.undecided("C09.R8", site_f, site_c, "no construction of %s.%s from collection.descriptions() found" % (cls, attr), kind="pairing-build",
                                      construct="%s.%s" % (cls, attr))
    return n_sites


def _is_self_attr(x, attr):
    return isinstance(x, ast.Attribute) and x.attr == attr and isinstance(x.value, ast.Name) and x.value.id == "self"


def _over_descriptions(it):
    """`<something>.descriptions()`, possibly wrapped in enumerate / list / tuple."""
    while isinstance(it, ast.Call) and isinstance(it.func, ast.Name) and it.func.id in ("enumerate", "list", "tuple", "iter") and it.args:
        it = it.args[0]
    return isinstance(it, ast.Call) and isinstance(it.func, ast.Attribute) and it.func.attr == "descriptions"


def _own_loop_exits(loop):
    """continue / break statements that belong to *loop* itself (not to a loop nested in its body)."""
    out = []

    def visit(stmts):
        for st in stmts:
            if isinstance(st, (ast.Continue, ast.Break)):
                out.append(st)
            elif isinstance(st, (ast.For, ast.While)):
                visit(st.orelse)            # the else clause of an inner loop runs in the outer loop's context
            elif isinstance(st, (ast.FunctionDef, ast.AsyncFunctionDef, ast.ClassDef)):
                continue
            else:
                for field in ("body", "orelse", "finalbody"):
                    visit(getattr(st, field, []) or [])
                for h in getattr(st, "handlers", []) or []:
                    visit(h.body)
    visit(loop.body)
    return out
