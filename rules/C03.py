"""C03 - Parallel stages hand every work item to exactly one worker and terminate.

Rules (DESIGN.md section 4, C03): R1 shutdown handshake order, R2/R3 producer
completeness and agreement with the serial sibling, R4 worker exit condition,
R5 flag sampled before the receive (check-then-act), R6 workers joined.
"""
import ast

from sa import sym, boolalg
from sa.cfg import CFG, enclosing_stmts
from sa.model import callee_attr, dotted, own_calls, own_nodes
from . import common

EXPLANATION = (
    "Every function constructing multiprocessing.Process(target=...) is discovered as a parallel stage and bound "
    "to its worker function through target=/args=. On the stage's statement CFG the shutdown handshake "
    "close < join_thread < set < join is decided with path queries (a step is VIOLATED when a later step is "
    "reachable from the entry avoiding it); producer loops are compared with the serial sibling by canonical terms "
    "of the iterable and the guard (abstract interpretation over terms); on the worker's CFG the loop exits, the "
    "timeout of the receive and the position of the done-flag read relative to the receive are decided. With the "
    "documented multiprocessing.Queue contract these premises imply that every item is delivered exactly once "
    "and the stage returns after all workers exited, for every interleaving."
)


def run(run):
    project = run.project
    run.explanation = EXPLANATION
    run.assumptions += [
        "multiprocessing.Queue: close()+join_thread() returns after the feeder flushed all buffered items; "
        "get(True, timeout) raises Empty only if nothing could be received within the timeout; each item is "
        "received by exactly one consumer",
        "Event.set()/is_set() are sequentially consistent across processes",
    ]
    run.undecided_clauses += ["OS-level timing of queue feeder threads beyond the documented contract"]
    stages = common.discover_stages(project)
    run.floor("C03.R1", 5)
    run.floor("C03.R4", 5)
    run.floor("C03.R5", 5)
    run.floor("C03.R6", 5)
    run.floor("C03.R2", 5)
    for st in stages:
        run.note_func(st.func)
        if st.worker is None:
            run.undecided("C03.R4", st.func, st.proc_call, "cannot resolve worker function of Process(target=...)",
                          kind="unresolved-worker")
            continue
        run.note_func(st.worker)
        work_queues = _work_queues(st, project)
        _r1_handshake(run, st, work_queues)
        _r6_join(run, st)
        _r2_r3_producer(run, st, work_queues)
        _worker_rules(run, st, work_queues)
    # the multi-image stages build their work items as zip(collection.images(), descriptors): the loader hands out one item per
    # input in both views (C20.R6), or every later item is paired with the wrong descriptor and the last one is never dispatched
    from . import C20 as c20
    common.delegate(run, "C03.R2", "C20", lambda sub: c20._r6_one_item_per_input(sub), only_rules={"C20.R6"},
                    note="premise: the item source yields one item per input")
    # the dispatch loops run inside the package's generator context managers (progress bars): one that catches an exception of the
    # with-body abandons the loop at that item and lets the stage shut down normally - the remaining items are never handed out
    from . import C19 as c19
    common.delegate(run, "C03.R2", "C19", lambda sub: c19._r4_context_managers(sub, stages), only_rules={"C19.R4"},
                    note="premise: the dispatch loop is not abandoned silently by the context manager around it")


def _work_queues(st, project=None):
    """Queues the stage puts into (directly or through a helper) and hands to the workers."""
    handed = set(st.queue_params().values())
    put_into = {c.func.value.id for n, c in common.method_calls_on(st.cfg, set(st.queues), "put")}
    put_into |= {c.func.value.id for n, c in common.method_calls_on(st.cfg, set(st.queues), "put_nowait")}
    if project is not None:
        for q in handed:
            if common.effect_sites(project, st.func, st.cfg, {q}, "put"):
                put_into.add(q)
    return handed & put_into


def _event_vars(st):
    return set(st.event_params().values())


def _r1_handshake(run, st, work_queues):
    cfg = st.cfg
    f = st.func
    run.call_sites += len(own_calls(f.node))
    starts = [n for n, c in common.method_calls_on(cfg, st.proc_vars, "start")]
    if not starts:
        run.undecided("C03.R1", f, st.proc_call, "no <process>.start() found for the constructed workers",
                      kind="no-start")
        return
    if not work_queues:
        run.undecided("C03.R1", f, st.proc_call, "no work queue (put by the stage and handed to workers) identified",
                      kind="no-work-queue")
        return
    project = run.project
    closes = {n.id for n, c, h in common.effect_sites(project, f, cfg, work_queues, "close")}
    flushes = {n.id for n, c, h in common.effect_sites(project, f, cfg, work_queues, "join_thread")}
    sets = {n.id for n, c, h in common.effect_sites(project, f, cfg, _event_vars(st), "set")}
    joins = _join_nodes(st, project)
    puts = {n.id for n, c, h in common.effect_sites(project, f, cfg, work_queues, "put")} | \
           {n.id for n, c, h in common.effect_sites(project, f, cfg, work_queues, "put_nowait")}
    skip = ("exc",)
    start_ids = {n.id for n in starts}
    # paths that start workers and then return normally
    after_start = set()
    for s in start_ids:
        after_start |= cfg.reachable(s, skip_labels=skip)
    facts = dict(stage=st.name, worker=st.worker.short, queue=sorted(work_queues),
                 lines={"close": _lines(cfg, closes), "join_thread": _lines(cfg, flushes),
                        "set": _lines(cfg, sets), "join": _lines(cfg, joins)})
    bad = []

    def must_pass(label, nodes, kind):
        # exit reachable from a start node avoiding every node of the step?
        for s in start_ids:
            if cfg.exit.id in cfg.reachable(s, avoid=nodes, skip_labels=skip):
                bad.append((kind, "after the workers are started the stage can return without %s" % label))
                return False
        return True

    # the feeder join is only a flush if nobody cancelled it: queue.cancel_join_thread() turns join_thread() into a no-op
    # (documented: "data in the queue may be lost"), whenever it is called
    cancels = [(n, c) for n, c in common.method_calls_on(cfg, set(work_queues), "cancel_join_thread")]
    if cancels:
        run.violated("C03.R1", f, cancels[0][1], "%s calls %s.cancel_join_thread(): the later join_thread() no longer waits for the feeder thread, so the done flag can be "
                     "raised while items are still in the feeder's buffer; idle workers then leave and those items are never processed"
                     % (st.name, sorted(work_queues)[0]), kind="flush-cancelled", **facts)
        return
    ok_c = must_pass("closing the work queue", closes, "no-close")
    ok_f = must_pass("joining the queue feeder thread (join_thread)", flushes, "no-join-thread")
    ok_s = must_pass("setting the done flag", sets, "no-set")

    def before(first, first_label, then, then_label, kind):
        # some node of `then` reachable from a start avoiding all `first` nodes?
        for s in start_ids:
            r = cfg.reachable(s, avoid=first, skip_labels=skip)
            hit = sorted(r & then)
            if hit:
                bad.append((kind, "%s at line %d is reachable before %s" % (
                    then_label, cfg.nodes[hit[0]].line, first_label)))
                return False
        return True

    if ok_c and ok_f:
        before(closes, "queue.close()", flushes, "join_thread()", "flush-before-close")
    if ok_f and ok_s:
        before(flushes, "the feeder thread was joined (join_thread)", sets, "done flag set()", "set-before-flush")
    if ok_c and ok_s:
        before(closes, "queue.close()", sets, "done flag set()", "set-before-close")
    if ok_s and joins:
        before(sets, "the done flag is set", joins, "worker join()", "join-before-set")
    # nothing is enqueued after close / after the flag is set
    for label, nodes, kind in (("queue.close()", closes, "put-after-close"), ("done flag set()", sets, "put-after-set")):
        for c in nodes:
            r = cfg.reachable(c, skip_labels=skip)
            hit = sorted(r & puts)
            if hit:
                bad.append((kind, "put() at line %d is reachable after %s" % (cfg.nodes[hit[0]].line, label)))
                break
    # the flag must not be raised inside the producing loop
    for sid in sets:
        if any(sid in cfg.reachable(p, skip_labels=skip) and p in cfg.reachable(sid, skip_labels=skip) for p in puts):
            bad.append(("set-in-loop", "done flag set() lies on a cycle with put()"))
    if bad:
        for kind, msg in bad:
            run.violated("C03.R1", f, cfg.nodes[min(sets)].ast if sets else st.proc_call, msg, kind=kind, **facts)
    else:
        run.holds("C03.R1", f, st.proc_call, "close < join_thread < set < join on every normal path", **facts)


def _lines(cfg, ids):
    return sorted(cfg.nodes[i].line for i in ids)


def _join_nodes(st, project=None):
    """CFG nodes that join worker processes: ``w.join()`` for a process var or
    for the loop variable of ``for x in <workers list>``, or a project helper
    that joins every element of the list it is given."""
    cfg = st.cfg
    out = set()
    if project is not None:
        for n, c, h in common.effect_sites(project, st.func, cfg, st.worker_lists, "each:join"):
            out.add(n.id)
    for n in cfg.nodes:
        for c in cfg.calls_at(n):
            if callee_attr(c) != "join" or not isinstance(c.func, ast.Attribute) or not isinstance(c.func.value, ast.Name):
                continue
            v = c.func.value.id
            in_list_loop = False
            for s, blk in enclosing_stmts(st.func.node, n.ast):
                if isinstance(s, ast.For) and isinstance(s.target, ast.Name) and s.target.id == v \
                        and isinstance(s.iter, ast.Name) and s.iter.id in st.worker_lists:
                    # the loop over the list of started workers is the join step (its body runs
                    # once per started worker; the list is non-empty whenever a worker was started)
                    out.add(cfg.node_of_stmt(s).id)
                    in_list_loop = True
            if not in_list_loop and v in st.proc_vars and not _in_start_loop(st, n):
                out.add(n.id)
    return out


def _in_start_loop(st, node):
    for s, blk in enclosing_stmts(st.func.node, node.ast):
        if isinstance(s, (ast.For, ast.While)):
            for c in ast.walk(s):
                if c is st.proc_call:
                    return True
    return False


def _r6_join(run, st):
    cfg = st.cfg
    f = st.func
    joins = _join_nodes(st, run.project)
    starts = [n for n, c in common.method_calls_on(cfg, st.proc_vars, "start")]
    if not starts:
        return
    # started workers must be remembered (appended) and joined on every normal path
    appended = bool(st.worker_lists)
    escaped = any(cfg.exit.id in cfg.reachable(s.id, avoid=joins, skip_labels=("exc",)) for s in starts)
    join_all = False
    for j in joins:
        n = cfg.nodes[j]
        if isinstance(n.ast, ast.For) and isinstance(n.ast.iter, ast.Name) and n.ast.iter.id in st.worker_lists:
            join_all = True
        if any(x.id == j for x, c, h in common.effect_sites(run.project, f, cfg, st.worker_lists, "each:join")):
            join_all = True
    # loop count of started workers: range(<parallel>) directly
    n_ok = _started_count_ok(st)
    if escaped or not joins:
        # the list of started workers may have reached this function through a helper's return value under another name:
        # a helper that joins every element of *some* list of the stage, on every normal path, is the join step
        names_ = {x.id for x in ast.walk(f.node) if isinstance(x, ast.Name)}
        any_join = {x.id for x, c, h in common.effect_sites(run.project, f, cfg, names_, "each:join")}
        if any_join and not any(cfg.exit.id in cfg.reachable(s.id, avoid=any_join, skip_labels=("exc",)) for s in starts):
            run.undecided("C03.R6", f, st.proc_call, "the workers are joined by a helper, but the list it is given cannot be traced back to the processes started here",
                          kind="join-list-untraced", stage=st.name)
            return
        run.violated("C03.R6", f, st.proc_call, "the stage can return without joining its workers",
                     kind="no-join", stage=st.name)
    elif appended and not join_all:
        run.violated("C03.R6", f, st.proc_call, "workers are joined, but not by iterating the whole list of started workers",
                     kind="partial-join", stage=st.name)
    elif n_ok is False:
        run.violated("C03.R6", f, st.proc_call, "number of workers started differs from the requested parallelism",
                     kind="worker-count", stage=st.name)
    else:
        run.holds("C03.R6", f, st.proc_call, "every started worker is joined before the normal return",
                  stage=st.name, join_lines=_lines(cfg, joins))


def _started_count_ok(st):
    for s, blk in enclosing_stmts(st.func.node, _stmt_containing(st.func.node, st.proc_call)):
        if isinstance(s, ast.For) and isinstance(s.iter, ast.Call) and dotted(s.iter.func) == "range":
            a = s.iter.args
            if len(a) == 1 and isinstance(a[0], ast.Name):
                nm = a[0].id
                for _hop in range(3):       # through plain aliases (`count = parallel` of a spliced-in helper)
                    if nm in st.func.params():
                        return True
                    defs = [n for n in own_nodes(st.func.node) if isinstance(n, ast.Assign) and len(n.targets) == 1 and isinstance(n.targets[0], ast.Name)
                            and n.targets[0].id == nm]
                    if len(defs) == 1 and isinstance(defs[0].value, ast.Name):
                        nm = defs[0].value.id
                    else:
                        break
                return nm in st.func.params()
            return None
    return None


def _stmt_containing(fnode, sub):
    from sa.cfg import stmt_of
    return stmt_of(fnode, sub)


# ---------------------------------------------------------------------------
# R2 / R3 : producer loop

def _dispatcher_and_serial(project, st):
    """The function choosing between this stage and its serial sibling, and
    the serial arm: returns (caller Func, If node, arm statements of the
    serial side, stage-call arm label)."""
    for caller, call in common.callers_of(project, st.func):
        # the innermost two-armed `if` around the call decides between the stage and its sibling (an enclosing
        # `if nothing_to_do: return` / `else:` is not the choice)
        cands = []
        for n in own_nodes(caller.node):
            if isinstance(n, ast.If):
                in_body = any(c is call for s in n.body for c in ast.walk(s))
                in_else = any(c is call for s in n.orelse for c in ast.walk(s))
                if in_body and n.orelse:
                    cands.append((sum(1 for _ in ast.walk(n)), n, n.orelse))
                if in_else and n.body:
                    cands.append((sum(1 for _ in ast.walk(n)), n, n.body))
        if cands:
            _size, n, arm = min(cands, key=lambda c: c[0])
            return caller, n, arm
        # `if parallel > 1: <the stage>; return` followed by the serial code: the rest of the block is the other arm
        for owner in [caller.node] + [x for x in own_nodes(caller.node) if isinstance(x, (ast.If, ast.For, ast.While, ast.With, ast.Try))]:
            for fld in ("body", "orelse", "finalbody"):
                blk = getattr(owner, fld, None)
                if not isinstance(blk, list):
                    continue
                for i, n in enumerate(blk):
                    if isinstance(n, ast.If) and not n.orelse and any(c is call for s in n.body for c in ast.walk(s)) \
                            and n.body and isinstance(n.body[-1], ast.Return) and blk[i + 1:]:
                        return caller, n, blk[i + 1:]
    return None, None, None


def _producer_facts(project, func, stmts_filter=None):
    """Loops of *func* with the calls made in their bodies, as canonical terms."""
    ev = sym.make_evaluator(project, func.module.name, [])
    res = ev.run(func.node)
    return res


def _loop_index_of(pc):
    ks = [c[1] for c in pc if c[0] == "loop"]
    return ks[-1] if ks else None


def _guard_of(pc, k=None):
    """Conditions under which an event happens; with *k*, only those tested
    inside loop k (after entering it)."""
    if k is not None and ("loop", k) in pc:
        pc = pc[pc.index(("loop", k)) + 1:]
    return tuple(c for c in pc if c[0] != "loop")


def _r2_r3_producer(run, st, work_queues):
    project = run.project
    f = st.func
    res = _producer_facts(project, f)
    puts = _put_events(project, f, res, work_queues)
    if not puts:
        run.undecided("C03.R2", f, st.proc_call, "no put() on the work queue found by the term evaluator", kind="no-put")
        return
    loops = {k: (it, node) for k, it, node in res.loops}
    caller, ifnode, serial_arm = _dispatcher_and_serial(project, st)
    if caller is None:
        run.undecided("C03.R2", f, st.proc_call, "cannot find the dispatcher choosing between this stage and a serial sibling",
                      kind="no-dispatcher")
        return
    run.note_func(caller)
    # serial side: either a call to a sibling function or inline statements
    serial_func = None
    inline_serial = any(isinstance(n, (ast.For, ast.While)) for s in serial_arm for n in ast.walk(s))
    serial_call = None
    for s in ([] if inline_serial else serial_arm):
        # the serial sibling is what the arm *calls as a statement*; calls inside its arguments (an iterable handed to a shared body
        # function) are item sources, not siblings
        outer = [x.value for x in ast.walk(s) if isinstance(x, (ast.Expr, ast.Assign, ast.Return)) and isinstance(getattr(x, "value", None), ast.Call)]
        outer = [c for c in outer if (lambda t: t is not None and t.module.name.startswith("toasty") and _has_loop(t.node))(common.resolve_callee(project, caller, c))] or \
            [c for c in ast.walk(s) if isinstance(c, ast.Call)]
        for c in outer:
            tgt = common.resolve_callee(project, caller, c)
            if tgt is not None and tgt.qual != st.func.qual and tgt.module.name.startswith("toasty") \
                    and _has_loop(tgt.node):
                serial_func = common.splice(project, tgt)      # (a loop over a generator helper is that helper's loop)
                serial_call = c
    if serial_func is not None:
        run.note_func(serial_func)
        # a shared body function that loops over one of its parameters: the item source is the argument the arm passes
        bind = {}
        if serial_call is not None:
            sp = serial_func.params()
            if serial_func.cls is not None and sp and sp[0] in ("self", "cls"):
                sp = sp[1:]
            cev = sym.make_evaluator(project, caller.module.name, [])
            for p_, a_ in list(zip(sp, serial_call.args)) + [(k_.arg, k_.value) for k_ in serial_call.keywords if k_.arg]:
                if isinstance(a_, (ast.Call, ast.Name, ast.Attribute)) and not isinstance(a_, ast.Starred):
                    try:
                        bind[p_] = cev.expr(a_, {})
                    except Exception:
                        pass
        sev = sym.make_evaluator(project, serial_func.module.name, [])
        sres = sev.run(serial_func.node, args={k_: v_ for k_, v_ in bind.items() if v_[0] == "call"})
        s_loops = [(k, it, node) for k, it, node in sres.loops]
    else:
        sres = _producer_facts(project, caller)
        arm_loops = {id(n) for s in serial_arm for n in ast.walk(s) if isinstance(n, (ast.For, ast.While))}
        s_loops = [(k, it, node) for k, it, node in sres.loops if id(node) in arm_loops]
    s_iters = {}
    for k, it, node in s_loops:
        s_iters.setdefault(_strip(it), []).append((k, node))
    # the walk stage is a dispatcher with a completion channel: its producer is the seeding
    # loop plus the dispatch loop; item-set agreement with serial is C01's business.
    is_dispatcher = bool(common.method_calls_on(st.cfg, set(st.queues) - work_queues, "get")) or \
        bool(list(common.effect_sites(project, f, st.cfg, set(st.queues) - work_queues, "get")))      # (also when the wait sits in a helper)
    for e in puts:
        k = _loop_index_of(e.pc)
        if k is None:
            run.undecided("C03.R2", f, e.node, "put() outside any loop", kind="put-outside-loop")
            continue
        it, lnode = loops[k]
        guard = _guard_of(e.pc, k)
        if is_dispatcher:
            run.holds("C03.R2", f, e.node, "dispatcher-style stage: released items are decided by C01.R2/R3",
                      stage=st.name, loop_line=lnode.lineno)
            continue
        key = _strip(it)
        if key not in s_iters and not s_iters:
            # nothing to compare with: the serial arm does not loop in any place the rule follows (the loop sits in a shared helper
            # fed by either iterable, a generator, an object)
            run.undecided("C03.R2", f, lnode, "parallel producer iterates %s; the serial sibling %s has no loop of its own that the rule follows: the two item sources are "
                          "not compared" % (sym.show(it)[:80], (serial_func or caller).short), kind="item-source-not-followed", stage=st.name)
            continue
        if key not in s_iters:
            run.violated("C03.R2", f, lnode,
                         "parallel producer iterates %s but the serial sibling %s iterates %s" % (
                             sym.show(it), (serial_func or caller).short,
                             ", ".join(sorted(sym.show(x) for x in s_iters)) or "nothing"),
                         kind="item-source-differs", stage=st.name)
            continue
        # guard agreement: the serial processing call under the same conditions
        sk = s_iters[key][0][0]
        s_calls = [x for x in sres.events if x.kind == "call" and _loop_index_of(x.pc) == sk
                   and not _is_progress(x.term)]
        s_guards = {_norm_guard(_guard_of(x.pc, sk), sk) for x in s_calls}
        g = _norm_guard(guard, k)
        # the put must not be nested in an inner loop-free conditional the serial side lacks
        if g not in s_guards:
            run.violated("C03.R2", f, e.node,
                         "put() is guarded by %s; the serial sibling processes items under %s" % (
                             _show_guard(g), " / ".join(sorted(_show_guard(x) for x in s_guards)) or "no guard"),
                         kind="guard-differs", stage=st.name)
            continue
        # every iteration satisfying the guard performs exactly one put: no second put in the loop
        same_loop_puts = [x for x in puts if _loop_index_of(x.pc) == k]
        if len(same_loop_puts) != 1:
            run.violated("C03.R2", f, e.node, "%d put() calls in one producer loop" % len(same_loop_puts),
                         kind="multiple-puts", stage=st.name)
            continue
        # loop body has no break/continue/return that could skip the put
        # (a `continue` before the put is part of its path condition, i.e. of the guard compared above)
        skips = [n for n in ast.walk(lnode) if isinstance(n, ast.Return) or (isinstance(n, ast.Break) and _innermost_loop(f.node, n) is lnode)]
        if skips:
            run.violated("C03.R2", f, skips[0], "producer loop can skip items (break/continue/return at line %d)" % skips[0].lineno,
                         kind="producer-skip", stage=st.name)
            continue
        # a put whose failure (queue.Full / any exception) is swallowed skips the item
        swallow_msg = _swallowed_put(st, e.node, lnode)
        if swallow_msg:
            run.violated("C03.R2", f, e.node, swallow_msg, kind="put-failure-swallowed", stage=st.name)
            continue
        hs = _helper_swallows(project, f, e)
        if hs:
            run.violated("C03.R2", f, e.node, hs, kind="put-helper-swallows", stage=st.name)
            continue
        # item arity: the tuple put equals what the worker unpacks
        arity_msg = _arity_check(st, e)
        if arity_msg:
            run.violated("C03.R2", f, e.node, arity_msg, kind="item-arity", stage=st.name)
            continue
        run.holds("C03.R2", f, e.node, "producer iterates the same source under the same guard as the serial sibling",
                  stage=st.name, source=sym.show(it)[:120], guard=_show_guard(g),
                  serial=(serial_func or caller).short)
        _r3_processing(run, st, e, k, it, caller, serial_func, sres, sk)


def _call_args_of(project, caller, callee_func):
    """{param name of callee_func: term of the argument in caller's namespace} for the (unique) call."""
    ev = sym.make_evaluator(project, caller.module.name, [])
    r = ev.run(caller.node)
    for e in r.events:
        tgt_ = common.resolve_callee(project, caller, e.node) if e.kind == "call" else None
        if tgt_ is not None and (tgt_ is callee_func or tgt_.qual == callee_func.qual):
            params = callee_func.params()
            if callee_func.cls is not None and params and params[0] in ("self", "cls"):
                params = params[1:]
            out = {p: a for p, a in zip(params, e.term[2])}
            out.update({k: v for k, v in e.term[3]})
            return out
    return None


def _subst_terms(t, m):
    if t in m:
        return m[t]
    if isinstance(t, tuple):
        t2 = tuple(_subst_terms(x, m) if isinstance(x, tuple) else x for x in t)
        # flatten *(<tuple>) inside call argument lists
        if len(t2) == 4 and t2[0] == "call":
            args = []
            for a in t2[2]:
                if a[0] == "star" and a[1][0] in ("tuple", "list"):
                    args.extend(a[1][1])
                else:
                    args.append(a)
            t2 = ("call", t2[1], tuple(args), t2[3])
        # the k-th item of a literal tuple is its k-th element
        if len(t2) == 3 and t2[0] == "item" and isinstance(t2[1], tuple) and t2[1] and t2[1][0] in ("tuple", "list") \
                and isinstance(t2[2], int) and 0 <= t2[2] < len(t2[1][1]) and not any(x[0] == "star" for x in t2[1][1]):
            return t2[1][1][t2[2]]
        return t2
    return t


def _r3_processing(run, st, put, k, it, caller, serial_func, sres, sk):
    """R3: what a worker does with a received item equals what the serial sibling does with the same
    item: same callee, same arguments, compared in the namespace of the dispatcher that calls both."""
    project = run.project
    f, w = st.func, st.worker
    EL = ("sym", "<ITEM-SOURCE-ELEMENT>")
    # ---- worker side
    wev = sym.make_evaluator(project, w.module.name, [])
    wr = wev.run(w.node)
    qparam = [p for p, v in st.queue_params().items() if v == put.qvar]
    if not qparam:
        return
    gets = [e for e in wr.events if e.kind == "call" and e.term[1][0] == "attr" and e.term[1][1] == ("sym", qparam[0]) and e.term[1][2] in ("get", "get_nowait")]
    if not gets:
        return
    G = gets[0].term
    stage_args = _call_args_of(project, caller, f) if caller is not f else {}
    if stage_args is None:
        return
    m = {}
    # received value -> the item that was put (in the stage's namespace), element -> EL
    item = put.item
    m[G] = item
    # worker params -> stage expressions -> caller namespace
    sev = sym.make_evaluator(project, f.module.name, [])
    for p_, expr in st.binding.items():
        if isinstance(expr, ast.Name):
            m[("sym", p_)] = ("sym", expr.id)
        elif isinstance(expr, ast.Attribute):
            m[("sym", p_)] = sev.expr(expr)
    to_caller = {("sym", p_): v for p_, v in stage_args.items()}
    to_caller[("elem", it)] = EL
    # ---- serial side
    s_to_caller = {}
    if serial_func is not None:
        sa = _call_args_of(project, caller, serial_func)
        if sa is None:
            return
        s_to_caller = {("sym", p_): v for p_, v in sa.items()}
    s_it = [it_ for k_, it_, n_ in sres.loops if k_ == sk]
    if not s_it:
        return
    s_to_caller[("elem", s_it[0])] = EL
    s_calls = [x for x in sres.events if x.kind == "call" and _loop_index_of(x.pc) == sk and not _is_progress(x.term)
               and x.term[1][0] == "sym" and x.term[1][1] not in ("print",)]
    # only stages whose serial side is "call a function per item" (inline bodies are compared by C09.R1)
    proc = [x for x in s_calls if any(a[0] in ("item", "elem") or a == ("elem", s_it[0]) for a in atoms_of_args(x.term))]
    if len(proc) != 1:
        return
    S = _subst_terms(proc[0].term, s_to_caller)
    # the per-item function is either handed to the worker (a parameter, e.g. the callback) or a module-level function both sides call
    w_calls = [x for x in wr.events if x.kind == "call" and x.term[1][0] == "sym" and (x.term[1][1] in {p_ for p_ in w.params()} or x.term[1] == proc[0].term[1])]
    cands = []
    for x in w_calls:
        t1 = _subst_terms(x.term, m)
        t2 = _subst_terms(t1, to_caller)
        cands.append((x, t2))
    same_callee = [(x, t) for x, t in cands if t[1] == S[1]]
    if not same_callee:
        run.violated("C03.R2", w, gets[0].node, "the serial path processes each item with %s, but the worker of %s never calls the corresponding function on a "
                     "received item" % (sym.show(S[1]), st.name), kind="worker-processing-missing", stage=st.name)
        return
    x, t = same_callee[0]

    def without_progress(c):
        # a progress reporter handed along (serial mode only: the parent of a parallel run reports progress itself) is not part of the work
        if c[0] != "call":
            return c
        return ("call", c[1], tuple(a for a in c[2] if "progress" not in sym.show(a)), tuple((k_, v_) for k_, v_ in c[3] if "progress" not in k_ and "progress" not in sym.show(v_)))
    if t != S and without_progress(t) == without_progress(S):
        t = S

    def without_extra_callbacks(c, other):
        # an optional callback (a lambda / local closure handed by keyword) that only one of the two callers passes - the serial
        # path reporting progress per item through `on_item_done=lambda: progress.update(1)` - is not part of the work either
        if c[0] != "call" or other[0] != "call":
            return c
        other_kw = {k_ for k_, _v in other[3]}
        return ("call", c[1], c[2], tuple((k_, v_) for k_, v_ in c[3] if not (k_ not in other_kw and (v_[0] == "lambda" or (v_[0] == "sym" and str(v_[1]).startswith("<closure"))))))
    if t != S and without_extra_callbacks(without_progress(t), S) == without_extra_callbacks(without_progress(S), t):
        t = S
    if t == S:
        run.holds("C03.R2", w, x.node, "worker processes a received item exactly as the serial sibling does: %s" % sym.show(S)[:120], stage=st.name)
    else:
        run.violated("C03.R2", w, x.node, "a received item is processed as %s in the worker but as %s in serial mode (compared in the namespace of %s): the two "
                     "modes do not perform the same work on the same item" % (sym.show(t)[:140], sym.show(S)[:140], caller.short), kind="worker-vs-serial-processing", stage=st.name)


def atoms_of_args(term):
    out = set()
    for a in term[2]:
        out |= sym.atoms_of(a)
    return out


def _swallowed_put(st, put_call, loop_stmt):
    """If the put sits in a ``try`` whose handler can reach the next iteration of
    the producer loop (or the loop exit) without raising and without retrying
    the put, the item is silently dropped."""
    cfg = st.cfg
    pn = cfg.node_containing(put_call)
    if pn is None:
        return None
    lh = cfg.node_of_stmt(loop_stmt)
    for s, blk in enclosing_stmts(st.func.node, pn.ast):
        if isinstance(s, ast.Try) and blk == "body" and any(x is s for x in ast.walk(loop_stmt)):
            for h in s.handlers:
                hn = None
                for n in cfg.nodes:
                    if n.kind == "except" and n.ast is h:
                        hn = n
                if hn is None:
                    continue
                reach = cfg.reachable(hn.id, avoid={pn.id})
                if lh.id in reach or cfg.exit.id in reach:
                    return ("a failing put() (handler at line %d) is swallowed: the producer continues with the next "
                            "item without retrying or raising" % h.lineno)
    return None


def _helper_swallows(project, f, put):
    """A put through a project helper: inside the helper, a handler around the
    put must lead back to the put (retry) or raise -- not to a normal return."""
    if put.term[1][0] == "attr" and put.term[1][2] in ("put", "put_nowait") and put.term[1][1][0] == "new":
        return None
    tgt = common.resolve_callee(project, f, put.node)
    if tgt is None:
        return None
    cfg = CFG(tgt.node)
    summ = common.summarize(project, tgt)
    qparams = [p for p in tgt.params() if "put" in summ.get(p, ())]
    pnodes = [n for n, c in common.method_calls_on(cfg, qparams, "put")] + \
             [n for n, c in common.method_calls_on(cfg, qparams, "put_nowait")]
    if not pnodes:
        return None   # nested deeper: not analysed
    pids = {n.id for n in pnodes}
    # the helper must not return normally without having executed a put (branches on constant-valued local flags,
    # e.g. `delivered = False; while not delivered:`, are followed as they can actually go)
    if cfg.exit.id in cfg.explore_const([(cfg.entry.id, {})], avoid=pids):
        return "helper %s can return normally without putting the item (line %d)" % (tgt.short, tgt.node.lineno)
    all_states = cfg.explore_const([(cfg.entry.id, {})])
    for pn in pnodes:
        for s_, blk in enclosing_stmts(tgt.node, pn.ast):
            if isinstance(s_, ast.Try) and blk == "body":
                for n in cfg.nodes:
                    if n.kind == "except" and any(n.ast is h for h in s_.handlers):
                        starts = [(n.id, dict(fs)) for fs in all_states.get(n.id, {frozenset()})]
                        if cfg.exit.id in cfg.explore_const(starts, avoid=pids):
                            return ("helper %s swallows a failed put (handler at line %d returns normally without retry)"
                                    % (tgt.short, n.line))
    return None


class _Put:
    """A put of an item onto a work queue, direct or through a project helper."""
    def __init__(self, ev, qvar, item):
        self.ev, self.qvar, self.item = ev, qvar, item
        self.pc, self.node, self.term = ev.pc, ev.node, ev.term


def _put_events(project, f, res, work_queues):
    out = []
    for e in res.events:
        if e.kind != "call":
            continue
        fn = e.term[1]
        if fn[0] == "attr" and fn[2] in ("put", "put_nowait") and fn[1][0] == "new" and fn[1][1] in work_queues:
            p = _Put(e, fn[1][1], e.term[2][0] if e.term[2] else None)
            k = _loop_index_of(e.pc)
            loops = {kk: node for kk, it, node in res.loops}
            if k is not None and isinstance(loops.get(k), ast.While) and _is_retry_loop(f, loops[k], e.node):
                # `while True: try: q.put(x, timeout=..); break; except Full: <check>`: one delivery of x per activation
                p.pc = e.pc[:e.pc.index(("loop", k))]
            out.append(p)
            continue
        if fn[0] in ("sym", "attr"):
            tgt = common.resolve_callee(project, f, e.node)
            if tgt is None:
                continue
            summ = common.summarize(project, tgt)
            tp = tgt.params()
            q = item = None
            for i, a in enumerate(e.term[2]):
                if i < len(tp) and a[0] == "new" and a[1] in work_queues and "put" in summ.get(tp[i], ()):
                    q = a[1]
            if q is None:
                continue
            for i, a in enumerate(e.term[2]):
                if i < len(tp) and "is-put-item" in summ.get(tp[i], ()):
                    item = a
            out.append(_Put(e, q, item))
    return out


def _is_retry_loop(f, loop, put_call):
    """The while-loop only repeats a failed put: after a successful put control leaves the loop without coming
    back to its head, the put is the only one in the loop, and the loop is left only that way (or by raising)."""
    cfg = CFG(f.node)
    try:
        lh = cfg.node_of_stmt(loop)
        pn = cfg.node_containing(put_call)
    except Exception:
        return False
    if lh is None or pn is None:
        return False
    inside = {cfg.node_of_stmt(s).id for s in ast.walk(loop) if isinstance(s, ast.stmt) and cfg.node_of_stmt(s) is not None}
    other_puts = [c for c in ast.walk(loop) if isinstance(c, ast.Call) and isinstance(c.func, ast.Attribute)
                  and c.func.attr in ("put", "put_nowait") and c is not put_call]
    if other_puts:
        return False
    # after success: never back at the head
    for j, lab in cfg.succ[pn.id]:
        if lab == "exc":
            continue
        if lh.id in (cfg.reachable(j, avoid=set()) & {lh.id}) and _reaches_within(cfg, j, lh.id, inside):
            return False
    # leaving the loop normally requires passing the put
    exits = set()
    for i in inside:
        for j, lab in cfg.succ[i]:
            if j not in inside and lab != "exc":
                exits.add(j)
    for x in exits:
        if x in cfg.reachable(lh.id, avoid={pn.id}, skip_labels=("exc",)):
            # reachable without executing the put at all?  only acceptable if via the put's own exception edge
            if _reaches_within(cfg, lh.id, x, inside | {x}, avoid={pn.id}):
                return False
    return True


def _reaches_within(cfg, src, dst, allowed, avoid=()):
    seen, todo = set(), [src]
    while todo:
        i = todo.pop()
        if i == dst:
            return True
        if i in seen or i in avoid or (i not in allowed and i != src):
            continue
        seen.add(i)
        for j, lab in cfg.succ[i]:
            todo.append(j)
    return False


def _has_loop(fnode):
    return any(isinstance(n, (ast.For, ast.While)) for n in own_nodes(fnode))


def _strip(t):
    return t


def _is_progress(term):
    s = sym.show(term[1])
    return "progress" in s or s.startswith("print")


def _norm_guard(guard, k):
    """Rename loop-k havoc symbols so guards of different functions compare."""
    return _rename(guard, "@L%d" % k)


def _rename(t, tag):
    if isinstance(t, tuple):
        if len(t) == 2 and t[0] == "sym" and isinstance(t[1], str) and t[1].endswith(tag):
            return ("sym", t[1][: -len(tag)] + "@L")
        return tuple(_rename(x, tag) for x in t)
    return t


def _show_guard(g):
    if not g:
        return "(unconditional)"
    return " and ".join(("" if pol else "not ") + sym.show(c) for c, pol in g)


def _arity_check(st, put_event):
    """Item put on the queue vs what the worker unpacks from get()."""
    arg = put_event.item
    if arg is None:
        return "put() without an item"
    n_put = len(arg[1]) if arg[0] == "tuple" else None
    qparams = [p for p, v in st.queue_params().items() if v == put_event.qvar]
    if not qparams:
        return None
    qp = qparams[0]
    for n in own_nodes(st.worker.node):
        if isinstance(n, ast.Assign) and isinstance(n.value, ast.Call) and callee_attr(n.value) in ("get", "get_nowait") \
                and isinstance(n.value.func, ast.Attribute) and isinstance(n.value.func.value, ast.Name) \
                and n.value.func.value.id == qp:
            t = n.targets[0]
            if isinstance(t, (ast.Tuple, ast.List)):
                if n_put is not None and len(t.elts) != n_put:
                    return "stage puts a %d-tuple but the worker unpacks %d values" % (n_put, len(t.elts))
            return None
    return None


# ---------------------------------------------------------------------------
# worker rules R4 / R5

def _gets_on(cfg, qparams):
    gets = []
    for n in cfg.nodes:
        for c in cfg.calls_at(n):
            if callee_attr(c) in ("get", "get_nowait") and isinstance(c.func, ast.Attribute) \
                    and isinstance(c.func.value, ast.Name) and c.func.value.id in qparams:
                gets.append((n, c))
    return gets


def _receive_helper(project, w, qparams, eparams):
    """A project function the worker hands its work queue (and done flag) to and that receives from it:
    (helper Func, its queue params, its event params, the call nodes in the worker)."""
    for c in own_calls(w.node):
        g = common.resolve_callee(project, w, c)
        if g is None or g is w:
            continue
        gp = g.params()
        bound = {}
        for i, a in enumerate(c.args):
            if isinstance(a, ast.Name) and i < len(gp):
                bound[gp[i]] = a.id
        for k in c.keywords:
            if k.arg and isinstance(k.value, ast.Name):
                bound[k.arg] = k.value.id
        gq = [p for p, v in bound.items() if v in qparams]
        ge = [p for p, v in bound.items() if v in eparams]
        if gq and _gets_on(CFG(g.node), gq):
            calls = [c2 for c2 in own_calls(w.node) if common.resolve_callee(project, w, c2) is g]
            return g, gq, ge, calls
    return None


def _worker_rules(run, st, work_queues):
    w = st.worker
    cfg = CFG(w.node)
    qparams = [p for p, v in st.queue_params().items() if v in work_queues]
    eparams = list(st.event_params())
    gets = _gets_on(cfg, qparams)
    if not gets:
        helper = _receive_helper(run.project, w, qparams, eparams)
        if helper is None:
            run.undecided("C03.R4", w, None, "worker never receives from its work queue", kind="no-get", stage=st.name)
            return
        g, gq, ge, calls = helper
        run.note_func(g)
        # (1) the helper is the receiver: its "stop" exits obey R4/R5
        _receiver_rules(run, st, g, CFG(g.node), _gets_on(CFG(g.node), gq), ge, helper_mode=True)
        # (2) the worker's own loop stops only when the helper reports exhaustion (it returns None)
        stops = [n for n in own_nodes(g.node) if isinstance(n, ast.Return) and not _returns_received(g, n, gq)]
        if any(n.value is not None and not (isinstance(n.value, ast.Constant) and n.value.value is None) for n in stops):
            run.undecided("C03.R4", g, stops[0], "receive helper reports exhaustion with a value other than None", kind="helper-stop-value", stage=st.name)
            return
        wev = sym.make_evaluator(run.project, w.module.name, [])
        wres = wev.run(w.node)
        hcalls = [e for e in wres.events if e.kind == "call" and any(e.node is c for c in calls)]
        if not hcalls:
            run.undecided("C03.R4", w, None, "call of the receive helper not found by the evaluator", kind="helper-call", stage=st.name)
            return
        hc = hcalls[0]
        loop = _innermost_loop(w.node, hc.node)
        if loop is None and any(isinstance(n_, (ast.Yield, ast.YieldFrom)) for n_ in own_nodes(g.node)):
            # the receive helper is a generator over the queue: its own loop is the receive loop (checked above); the worker consumes
            # it with `for item in helper(..)` -- directly or through a name / a parameter of a shared body function
            names = {t_.id for a_ in own_nodes(w.node) if isinstance(a_, ast.Assign) and a_.value is hc.node for t_ in a_.targets if isinstance(t_, ast.Name)}
            fors = [n_ for n_ in own_nodes(w.node) if isinstance(n_, ast.For) and (n_.iter is hc.node or (isinstance(n_.iter, ast.Name) and n_.iter.id in names))]
            if fors:
                run.holds("C03.R4", w, fors[0], "worker consumes the receive generator %s in a for loop: it stops exactly when the generator does" % g.short, stage=st.name)
            else:
                run.undecided("C03.R4", w, hc.node, "the receive generator %s is handed on to something the rule does not follow" % g.short, kind="helper-generator", stage=st.name)
            return
        if loop is None:
            # the whole receive loop may live in the helper, which hands each item to a handler it is given (serve(queue, flag, handle))
            gcfg = CFG(g.node)
            g_gets = _gets_on(gcfg, gq)
            in_loop = [gn for gn, gc_ in g_gets if [s_ for s_, b_ in enclosing_stmts(g.node, gn.ast) if isinstance(s_, (ast.While, ast.For))]]
            handler_params = [p_ for p_ in g.params() if any(isinstance(c_.func, ast.Name) and c_.func.id == p_ for c_ in own_calls(g.node))]
            if in_loop and handler_params:
                run.holds("C03.R4", w, hc.node, "the receive loop lives in %s, which hands every item to the handler `%s` it is given; its exits are checked there" % (
                    g.short, handler_params[0]), stage=st.name)
                return
        if loop is None:
            run.violated("C03.R4", w, hc.node, "receive is not inside a loop: the worker handles at most one item", kind="no-loop", stage=st.name)
            return
        bad = False
        exhausted = sym.cmp("Is", hc.term, sym.NONE)
        for e in wres.events:
            if e.kind in ("break", "return") and _contains(loop, e.node) and (e.kind == "return" or _innermost_loop(w.node, e.node) is loop):
                if boolalg.implies(boolalg.conj(e.pc), exhausted) is not True:
                    run.violated("C03.R4", w, e.node, "worker loop exit at line %d does not depend on the receive helper %s reporting that the queue is "
                                 "exhausted: the worker may stop while items remain" % (e.line, g.short), kind="exit-outside-empty-handler", stage=st.name)
                    bad = True
        if isinstance(loop, ast.While) and not (isinstance(loop.test, ast.Constant) and loop.test.value is True):
            run.undecided("C03.R4", w, loop, "worker loop condition `%s` with a receive helper" % ast.unparse(loop.test), kind="helper-loop-cond", stage=st.name)
            bad = True
        if not bad:
            run.holds("C03.R4", w, hc.node, "worker loop stops only when %s returns None" % g.short, stage=st.name)
        return
    _receiver_rules(run, st, w, cfg, gets, eparams, helper_mode=False)


def _returns_received(f, ret, qparams):
    """The return statement hands back what was received from the queue (a delivery, not a stop)."""
    if ret.value is None:
        return False
    names = set()
    for n in own_nodes(f.node):
        if isinstance(n, ast.Assign) and isinstance(n.value, ast.Call) and callee_attr(n.value) in ("get", "get_nowait") \
                and isinstance(n.value.func, ast.Attribute) and isinstance(n.value.func.value, ast.Name) and n.value.func.value.id in qparams:
            for t in n.targets:
                names |= {x.id for x in ast.walk(t) if isinstance(x, ast.Name)}
    for x in ast.walk(ret.value):
        if isinstance(x, ast.Call) and callee_attr(x) in ("get", "get_nowait") and isinstance(x.func, ast.Attribute) \
                and isinstance(x.func.value, ast.Name) and x.func.value.id in qparams:
            return True
        if isinstance(x, ast.Name) and x.id in names:
            return True
    return False


def _receiver_rules(run, st, w, cfg, gets, eparams, helper_mode):
    run.call_sites += len(own_calls(w.node))
    wev = sym.make_evaluator(run.project, w.module.name, [])
    wev.volatile = {"is_set"}
    wres = wev.run(w.node)
    for gnode, gcall in gets:
        loops = [s for s, blk in enclosing_stmts(w.node, gnode.ast) if isinstance(s, (ast.While, ast.For))]
        if not loops:
            run.violated("C03.R4", w, gcall, "receive is not inside a loop: the worker handles at most one item",
                         kind="no-loop", stage=st.name)
            continue
        loop = loops[-1]
        kind = common.get_call_info(gcall)
        tries = [s for s, blk in enclosing_stmts(w.node, gnode.ast) if isinstance(s, ast.Try) and blk == "body"]
        handlers = [h for t in tries for h in t.handlers if common.handler_catches(h, "Empty")]
        # flag reads
        def is_flag_read(c):
            return callee_attr(c) == "is_set" and isinstance(c.func, ast.Attribute) \
                and isinstance(c.func.value, ast.Name) and c.func.value.id in eparams
        exits = [n for n in ast.walk(loop) if isinstance(n, (ast.Break, ast.Return))
                 and _innermost_loop(w.node, n) is loop]
        if helper_mode:
            qps = {gc.func.value.id for gn, gc in gets}
            exits = [n for n in exits if not (isinstance(n, ast.Return) and _returns_received(w, n, qps))]
        if isinstance(loop, ast.While) and not (isinstance(loop.test, ast.Constant) and loop.test.value is True):
            exits.append(loop)  # loop condition is an exit too
        facts = dict(stage=st.name, worker=w.short, get_line=gcall.lineno, get_kind=kind,
                     exit_lines=[getattr(x, "lineno", 0) for x in exits])
        if kind == "blocking":
            run.violated("C03.R4", w, gcall, "blocking get() without timeout: the worker can never observe the done flag "
                         "once the queue is empty", kind="get-without-timeout", **facts)
            continue
        if not handlers:
            run.violated("C03.R4", w, gcall, "no handler for queue.Empty around the receive", kind="no-empty-handler", **facts)
            continue
        if not exits:
            run.violated("C03.R4", w, loop, "worker loop has no exit: the stage can never join its workers",
                         kind="no-exit", **facts)
            continue
        bad = False
        for x in exits:
            if x is loop:
                # while <cond>: cond must be the done flag ... and then items may remain: treat via R5
                flag_in_test = any(is_flag_read(c) for c in ast.walk(loop.test) if isinstance(c, ast.Call))
                if flag_in_test:
                    run.violated("C03.R4", w, loop, "loop condition tests the done flag: the worker leaves as soon as the "
                                 "flag is set, even if items are still queued", kind="exit-on-flag-only", **facts)
                    bad = True
                continue
            in_handler = any(_contains(h, x) for h in handlers)
            flag_guard = bool(_flag_sites_guarding(wres, x, eparams))
            if not in_handler:
                run.violated("C03.R4", w, x, "worker loop exit at line %d is not inside the Empty handler of the receive: "
                             "the worker may stop while items remain" % x.lineno, kind="exit-outside-empty-handler", **facts)
                bad = True
            elif not flag_guard:
                run.violated("C03.R4", w, x, "worker leaves its loop on the first empty timeout without testing the done flag",
                             kind="exit-without-flag", **facts)
                bad = True
        # item processed on fall-through: the received value is used before the next iteration
        if not bad:
            run.holds("C03.R4", w, gcall, "only exit: Empty handler of a timed get, under the done flag", **facts)
        # ---- R5
        _r5(run, st, w, cfg, gnode, gcall, loop, handlers, exits, is_flag_read, facts, wres, eparams)


def _flag_sites_guarding(wres, exit_node, eparams):
    """Sites (line, col) of the done-flag reads whose value being true is implied by the path condition of a loop exit."""
    out = []
    for e in wres.events:
        if e.node is not exit_node or e.kind not in ("break", "return"):
            continue
        cond = boolalg.conj(e.pc)
        for a in sym.atoms_of(cond):
            if a[0] == "vol" and a[1][1][0] == "attr" and a[1][1][2] == "is_set" and a[1][1][1][0] == "sym" and a[1][1][1][1] in eparams:
                if boolalg.implies(cond, a) is True:
                    out.append((a[2], a[3]))
    return out


def _r5(run, st, w, cfg, gnode, gcall, loop, handlers, exits, is_flag_read, facts, wres=None, eparams=()):
    # exemption: completion channel -- the stage sets the flag only after a loop whose only
    # exit is the receipt of a final completion message from the workers
    if _has_completion_channel(st):
        run.holds("C03.R5", w, gcall, "stage has a completion channel: the flag is set only after the last completion "
                  "was received, so no item is in flight (exempt)", **facts)
        return
    flag_reads = []
    for n in cfg.nodes:
        for c in cfg.calls_at(n):
            if is_flag_read(c):
                flag_reads.append((n, c))
    if not flag_reads:
        run.undecided("C03.R5", w, gcall, "worker never reads the done flag", kind="no-flag-read", **facts)
        return
    # the read deciding the exit must happen before the receive of the same iteration
    # (dominates the get within the loop body), or a second non-blocking receive must follow it.
    loop_node = cfg.node_of_stmt(loop)
    dom = cfg.dominators(skip_labels=("back",))
    pre = [n for n, c in flag_reads if n.id in dom.get(gnode.id, set()) and _contains(loop, n.ast)]
    post = [n for n, c in flag_reads if any(_contains(h, n.ast) or n.ast is h for h in handlers)]
    # drain idiom: inside the handler, after the flag read, another receive attempt before the exit
    drain = False
    for h in handlers:
        for c in ast.walk(h):
            if isinstance(c, ast.Call) and callee_attr(c) in ("get", "get_nowait") and c is not gcall:
                drain = True
    # which flag value guards the exit?  a fresh read inside the handler, or the value sampled before the receive
    pre_locals = set()
    for n, c in flag_reads:
        if n in pre and isinstance(n.ast, ast.Assign):
            pre_locals |= {t.id for t in n.ast.targets if isinstance(t, ast.Name)}
    exit_uses_fresh = False
    exit_uses_pre = False
    pre_sites = {(c.lineno, c.col_offset) for n, c in flag_reads if n in pre}
    for x in exits:
        if x is loop:
            continue
        for site in _flag_sites_guarding(wres, x, eparams):
            if site in pre_sites:
                exit_uses_pre = True
            else:
                exit_uses_fresh = True
    if pre and exit_uses_fresh and not exit_uses_pre and not drain:
        n = post[0] if post else pre[0]
        run.violated("C03.R5", w, n.ast,
                     "the flag is sampled before the receive, but the loop exit is guarded by a fresh read at line %d, after the get at "
                     "line %d timed out: items enqueued and flushed in that window are lost when every worker is in it (check-then-act)"
                     % (n.line, gcall.lineno), kind="flag-read-after-get", **facts)
        return
    if post and not pre and not drain:
        n = post[0]
        run.violated("C03.R5", w, n.ast,
                     "done flag is read at line %d, after the get at line %d timed out; no read of the flag precedes the "
                     "receive and no second receive precedes the exit: items enqueued and flushed in that window are lost "
                     "when every worker is in it (check-then-act)" % (n.line, gcall.lineno),
                     kind="flag-read-after-get", **facts)
    elif pre or drain:
        # the exit must use the pre-read value: the guard of the break names the local
        run.holds("C03.R5", w, gcall, "flag sampled before the receive (or drained after it)", **facts)
    else:
        run.undecided("C03.R5", w, gcall, "cannot relate the done-flag read to the receive", kind="flag-unrelated", **facts)


def st_project(st):
    return getattr(st, "project", None)


def _has_completion_channel(st):
    """Stage receives from a second queue (completion reports) in a loop that
    dominates the flag set(), leaving only via break under a comparison."""
    cfg = st.cfg
    other = set(st.queues) - _work_queues(st)
    gets = common.method_calls_on(cfg, other, "get")
    if not gets:
        # the wait for a completion report may sit in a helper that is handed the completion queue
        gets = [(n_, c_) for n_, c_, h_ in common.effect_sites(st_project(st), st.func, cfg, other, "get") if h_ is not None]
    if not gets:
        return False
    sets = common.method_calls_on(cfg, _event_vars(st), "set")
    if not sets:
        # the flag may be raised inside a shutdown helper that is handed the event
        sets = [(n_, c_) for n_, c_, h_ in common.effect_sites(st_project(st), st.func, cfg, _event_vars(st), "set") if h_ is not None]
    if not sets:
        return False
    for gn, gc in gets:
        loops = [s for s, blk in enclosing_stmts(st.func.node, gn.ast) if isinstance(s, ast.While)]
        if not loops:
            continue
        loop = loops[0]
        if not (isinstance(loop.test, ast.Constant) and loop.test.value is True):
            continue
        # the set is after the loop: every path entry->set passes the loop head
        lh = cfg.node_of_stmt(loop)
        ok = all(sn.id not in cfg.reachable(cfg.entry.id, avoid={lh.id}, skip_labels=("exc",)) for sn, _ in sets)
        if ok:
            return True
    return False


def _contains(outer, inner):
    return any(c is inner for c in ast.walk(outer))


def _innermost_loop(fnode, target):
    loops = [s for s, blk in enclosing_stmts(fnode, _enclosing_stmt(fnode, target)) if isinstance(s, (ast.While, ast.For))]
    if isinstance(target, (ast.While, ast.For)):
        return target
    return loops[-1] if loops else None


def _enclosing_stmt(fnode, target):
    if isinstance(target, ast.stmt):
        return target
    from sa.cfg import stmt_of
    return stmt_of(fnode, target) or target


def _conditions_of(fnode, target):
    out = []
    for s, blk in enclosing_stmts(fnode, target):
        if isinstance(s, ast.If):
            out.append((s.test, blk == "body"))
    return out


def _negated(test):
    return isinstance(test, ast.UnaryOp) and isinstance(test.op, ast.Not)


def _flag_locals(fnode, is_flag_read):
    out = set()
    for n in own_nodes(fnode):
        if isinstance(n, ast.Assign) and isinstance(n.value, ast.Call) and is_flag_read(n.value):
            for t in n.targets:
                if isinstance(t, ast.Name):
                    out.add(t.id)
    return out

MANIFEST = {
    "technique": "static analysis: parallel-stage discovery, CFG path queries with constant propagation of local flags (handshake ordering, swallowed failures), truth-table implication on loop-exit path conditions, term-level sibling agreement of serial and parallel guards, receive-helper recognition; worker-pool objects, generator context managers, serving helpers and local closures taken apart at source level before the stage analysis (scalar replacement of local helper objects); who-may-call rule: the feeder join of a work queue is never cancelled (cancel_join_thread); generator context managers around the dispatch loops cannot swallow an exception of the loop (shared with C19); the item source yields one item per input (shared with C20)",
    "text": "Decides structural premises R1-R6 of the queue hand-off protocol on every path of every discovered parallel stage and its worker; with the documented multiprocessing.Queue/Event contract these imply exactly-once delivery and termination for all interleavings (DESIGN.md C03 lemma). Not a behavioural exploration: no schedule is executed.",
    "note": "Trusted: CPython/multiprocessing Queue+Event contracts (close/join_thread flush, get timeout semantics, exactly-once receipt). Not decided: OS-level timing beyond that contract.",
}
