"""C01 - Cascade walk: each live parent exactly once, only after all its live children.

R1 child-index agreement (2*iy+ix) between pos_children, pos_parent, the reduction
   slots, the pre-readied bits and the dispatcher bit
R2 release mask: the parent is enqueued exactly when its flags equal 0b1111, the
   flags are read from / written to the readiness entry keyed by the parent itself
R3 seeding and pre-readying follow the filter's liveness
R4 termination: the dispatcher leaves only on the apex (and the early total==0 return)
R5 worker: get -> callback(pos) -> done_queue.put(pos), once each, in that order
R6 serial post-order enumeration and serial callback condition
R7 the same callback object reaches both modes and the worker
R8 sub-pyramid restriction
"""
import ast

from sa import sym, boolalg
from sa.teval import teval, UNKNOWN
from sa.sym import show, atoms_of, num, num_value
from sa.cfg import CFG, enclosing_stmts
from sa.model import callee_attr, dotted, own_calls, own_nodes
from . import common

EXPLANATION = (
    "The walk protocol is decided from canonical terms: pos_parent/pos_children are evaluated abstractly and inlined, so "
    "the bit set by the dispatcher, the reduction slot written by set_data and the pre-readied bits are compared as "
    "polynomials in (x mod 2, y mod 2) with the documented child order (2*dy+dx); the release condition is the path "
    "condition of the only ready_queue.put in the dispatch loop (must be equality of the updated flags with 15, key = the "
    "parent position itself); seeding/termination/worker-order premises are path conditions and CFG path queries. "
    "By the induction of DESIGN.md (C01 lemma) the premises imply: each live non-leaf tile is released exactly once, "
    "after all its live children completed, for every filter, apex, worker count and interleaving."
)

MANIFEST = {
    "technique": "static analysis: abstract interpretation over canonical terms (child-index algebra; release, seeding and early-return conditions as path conditions compared by truth table); exhaustive evaluation of extracted terms over small finite domains (16 child-liveness patterns, readiness-key collision search over levels 0-4, (depth, apex) grid for closed-form seeding); CFG path queries on dispatcher/worker loops; state-escape (stateless walk) check; class-level containers filled through self (shared by all instances); sub-pyramid offset map compared slot by slot (shared with C13)",
    "text": "Decides the structural premises R1-R9 of the ready/done queue protocol and of the serial post-order reduction; with the written induction they give exactly-once, children-before-parent and termination for all schedules and filters.",
    "note": "Trusted: multiprocessing.Queue FIFO/exactly-once contract; Python int/bit semantics. Not decided: the reduction iterator's level bookkeeping (_ensure_levels/pop) for arbitrary filter shapes (guarded by its own asserts).",
}

PYR = "toasty.pyramid"


def _reducer_slots(t):
    """Protocol knowledge: the 4th item handed out by the reduction iterator is the list of the four child slots."""
    if t[0] == "item" and t[2] == 3 and t[1][0] == "elem" and "_make_iter_reducer" in show(t[1][1]):
        return 4
    return None


def _ev(project):
    ev = sym.make_evaluator(project, PYR, [PYR + ".pos_parent", PYR + ".pos_children"], inline_local=True)   # per-tile "step" helpers included
    ev.static_len = _reducer_slots
    ev.unroll = True
    ev.self_class = PYR + ".Pyramid"      # private helpers of the walk (e.g. a preparation pass moved into a method) are part of it
    ev.inline_resolved = True             # ... and so are the methods of a small bookkeeping object the walk creates for itself
    ev.no_inline |= {"_make_iter_reducer", "count_operations", "count_leaf_tiles", "count_live_tiles", "_walk_serial", "_walk_parallel",
                     "_visit_leaves_serial", "_visit_leaves_parallel", "_generator", "walk", "visit_leaves", "subpyramid", "_make_position_filter",
                     "generate_pos", "_postfix_pos", "is_subtile", "tiles_at_depth", "depth2tiles", "next_highest_power_of_2"}
    return ev


def _about(pc, el):
    """The literals of a path condition that speak about the loop element *el* (guards that precede the loop are assumptions)."""
    return [(c, pol) for c, pol in pc if c != "loop" and el in atoms_of(c)]


def run(run):
    project = run.project
    run.explanation = EXPLANATION
    run.assumptions += ["multiprocessing.Queue delivers each item to exactly one getter",
                        "Python integer bit operations"]
    run.undecided_clauses += ["level bookkeeping of PyramidReductionIterator for arbitrary filter shapes (runtime state)"]
    for r, n in (("C01.R1", 5), ("C01.R2", 1), ("C01.R3", 2), ("C01.R4", 1), ("C01.R5", 1), ("C01.R6", 3), ("C01.R7", 2), ("C01.R8", 2), ("C01.R9", 1)):
        run.floor(r, n)
    ev = _ev(project)
    _r1_algebra(run, ev)
    _dispatcher(run, ev)
    _r5_worker(run)
    _r6_serial(run, ev)
    _r7_callback(run)
    _r8_subpyramid(run, ev)
    # ... and a generic sub-pyramid enumerates exactly the positions below its apex (offset map of the generator, then the apex's
    # ancestors): decided by C13's generator rule, a premise of "the sub-pyramid walk is the part of the full walk below the apex"
    from . import C13 as c13
    common.delegate(run, "C01.R8", "C13", lambda sub: c13._r3_subpyramid(sub, None), only_rules={"C13.R3"}, note="premise: sub-pyramid enumeration")
    _r9_stateless(run)
    from . import memo
    memo.check_module(run, "C01.R9", PYR)   # tables / class-level containers of the dispatcher's module that outlive one walk


# ---------------------------------------------------------------------------

def _spec(ev, src, **env):
    return ev.expr(src, env)


def _r1_algebra(run, ev):
    project = run.project
    # pos_children: list of 4, index 2*dy+dx -> (n+1, 2x+dx, 2y+dy)
    f = project.fn(PYR + ".pos_children")
    run.note_func(f)
    r = ev.run(f.node)
    ok = False
    if len(r.returns) == 1:
        t = r.returns[0][1]
        pos = ("sym", f.params()[0])
        want = []
        for k in range(4):
            dx, dy = k % 2, k // 2
            want.append(("nt", "Pos", (_spec(ev, "p.n + 1", p=pos), _spec(ev, "2*p.x + %d" % dx, p=pos),
                                        _spec(ev, "2*p.y + %d" % dy, p=pos))))
        ok = t[0] == "list" and tuple(t[1]) == tuple(want)
        if not ok and t[0] in ("list", "tuple") and len(t[1]) == 4 and all(x[0] == "nt" for x in t[1]):
            got = [show(x) for x in t[1]]
            run.violated("C01.R1", f, r.returns[0][2], "pos_children does not return [TL, TR, BL, BR] = index 2*dy+dx -> "
                         "(n+1, 2x+dx, 2y+dy): got %s" % got, kind="child-order", got=got)
        elif not ok:
            run.undecided("C01.R1", f, None, "cannot evaluate pos_children to a list of four positions", kind="children-shape")
    else:
        run.undecided("C01.R1", f, None, "pos_children has %d returns" % len(r.returns), kind="children-shape")
    if ok:
        run.holds("C01.R1", f, None, "pos_children[2*dy+dx] = (n+1, 2x+dx, 2y+dy)")
    # pos_parent
    f = project.fn(PYR + ".pos_parent")
    run.note_func(f)
    r = ev.run(f.node)
    pos = ("sym", f.params()[0])
    want = ("tuple", (("nt", "Pos", (_spec(ev, "p.n - 1", p=pos), _spec(ev, "p.x // 2", p=pos), _spec(ev, "p.y // 2", p=pos))),
                      _spec(ev, "p.x % 2", p=pos), _spec(ev, "p.y % 2", p=pos)))
    rets = [t for pc, t, n in r.returns]
    if len(rets) == 1 and rets[0] == want:
        run.holds("C01.R1", f, None, "pos_parent = ((n-1, x//2, y//2), x%2, y%2)")
    elif len(rets) == 1 and rets[0][0] == "tuple" and len(rets[0][1]) == 3:
        run.violated("C01.R1", f, r.returns[0][2], "pos_parent returns %s, expected ((n-1, x//2, y//2), x%%2, y%%2)" % show(rets[0]),
                     kind="parent-algebra", got=show(rets[0]))
    else:
        run.undecided("C01.R1", f, None, "cannot evaluate pos_parent", kind="parent-shape")
    # reduction slot in set_data: _levels[ppos.n][2 + 2*iy + ix]
    f = project.fn(PYR + ".PyramidReductionIterator.set_data")
    run.note_func(f)
    r = ev.run(f.node)
    stores = [e for e in r.events if e.kind == "store" and e.term[1][0][0] == "sub"]
    mrp = ("attr", ("sym", "self"), "_most_recent_pos")
    want_idx = _spec(ev, "2 + 2*(p.y % 2) + (p.x % 2)", p=mrp)
    slot = [e for e in stores if "_levels" in show(e.term[1][0])]
    if not slot:
        run.undecided("C01.R1", f, None, "no store into self._levels found in set_data", kind="no-slot-store")
    else:
        e = slot[0]
        lv, val = e.term[1]
        idx = lv[2]
        level = lv[1]
        want_level = ("sub", ("attr", ("sym", "self"), "_levels"), _spec(ev, "p.n - 1", p=mrp))
        if idx == want_idx and level == want_level and val == ("sym", f.params()[1]):
            run.holds("C01.R1", f, e.node, "set_data stores the value in slot 2 + 2*iy + ix of the parent's level")
        elif level != want_level and idx == want_idx:
            run.violated("C01.R1", f, e.node, "set_data stores into %s, expected the parent's level %s" % (show(level), show(want_level)),
                         kind="slot-level")
        else:
            run.violated("C01.R1", f, e.node, "reduction slot index is %s, expected %s (children order 2*iy+ix after the two "
                         "coordinate slots)" % (show(idx), show(want_idx)), kind="slot-index", got=show(idx))
    # __next__ hands out the slots in order: child_data = _levels.pop()[2:]
    f = project.fn(PYR + ".PyramidReductionIterator.__next__")
    run.note_func(f)
    r = ev.run(f.node)
    good = False
    last = r.returns[-1][1] if r.returns else None
    if last is not None and last[0] == "tuple" and len(last[1]) == 4:
        cd = last[1][3]
        s = show(cd)
        good = cd[0] == "sub" and cd[2][0] == "slice" and num_value(cd[2][1]) == 2 and cd[2][2] == sym.NONE and cd[2][3] == sym.NONE \
            and "_levels" in s and "pop" in s
        if good:
            run.holds("C01.R1", f, r.returns[-1][2], "iteration yields (pos, info, is_leaf, slots[2:]) in slot order")
        else:
            run.violated("C01.R1", f, r.returns[-1][2], "child data handed to the reduction is %s, expected self._levels.pop()[2:]" % s,
                         kind="child-data-slots")
    else:
        run.undecided("C01.R1", f, None, "cannot evaluate the tuple returned by __next__", kind="next-shape")


def _key_kind(key, pos):
    """'identity' if the table key is the position term itself, 'fields' if it is a
    tuple holding the position's n, x and y, else None (injectivity unknown)."""
    if key == pos:
        return "identity"
    if key[0] in ("tuple", "nt"):
        items = key[1] if key[0] == "tuple" else key[2]
        fields = {("attr", pos, a) for a in ("n", "x", "y")}
        if pos[0] == "nt":
            fields = set(pos[2])
        if fields <= set(items):
            return "fields"
    return None


def _analytic_seeding(run, f, e, r):
    """A seeding put outside the reduction loop (closed-form seeding, e.g. for unfiltered pyramids): on a grid of
    (depth, apex) every position it enqueues must lie at level depth-1 inside the sub-pyramid's block, and the block must
    be covered (count).  A counterexample is a violation; a form that cannot be evaluated is UNDECIDED."""
    arg = e.term[2][0] if e.term[2] else None
    if arg is None or arg[0] != "nt" or arg[1] != "Pos":
        run.undecided("C01.R3", f, e.node, "closed-form seeding enqueues %s, not a position built in place" % (show(arg)[:80] if arg else "nothing"), kind="seed-analytic-shape")
        return
    loops = {kk: it for kk, it, n in r.loops}
    ks = [c[1] for c in e.pc if c[0] == "loop"]
    rngs = [loops[kk] for kk in ks if loops.get(kk, ("",))[0] == "call" and loops[kk][1] == ("sym", "range") and len(loops[kk][2]) == 1]
    if len(rngs) != len(ks) or not 1 <= len(rngs) <= 2:
        run.undecided("C01.R3", f, e.node, "closed-form seeding is not a loop nest over range(...)", kind="seed-analytic-shape")
        return
    slf = ("sym", "self")
    apex = ("attr", slf, "_apex")
    n_t, x_t, y_t = arg[2]
    for d in range(1, 6):
        for na in range(0, d):
            for ax, ay in ((0, 0), (2 ** na - 1, 0), (2 ** na - 1, 2 ** na - 1), (1 if na else 0, 0)):
                env = {("attr", slf, "depth"): d, ("attr", apex, "n"): na, ("attr", apex, "x"): ax, ("attr", apex, "y"): ay}
                B = 2 ** (d - 1 - na)
                sizes = [teval(rg[2][0], env) for rg in rngs]
                if any(s_ is UNKNOWN for s_ in sizes):
                    run.undecided("C01.R3", f, e.node, "cannot evaluate the extent of the closed-form seeding loops", kind="seed-analytic-shape")
                    return
                if any(s_ != B for s_ in sizes):
                    run.violated("C01.R3", f, e.node, "closed-form seeding: for depth %d and apex level %d the loops run over %s positions per axis, but the sub-pyramid "
                                 "is %d tiles wide at level depth-1: tiles are never seeded (their parents are never released) or foreign tiles are" % (d, na, sizes, B),
                                 kind="seed-analytic")
                    return
                for i in sorted({0, B - 1}):
                    env2 = dict(env)
                    for rg in rngs:
                        env2[("elem", rg)] = i
                    vals = [teval(t, env2) for t in (n_t, x_t, y_t)]
                    if any(v is UNKNOWN for v in vals):
                        run.undecided("C01.R3", f, e.node, "cannot evaluate the closed-form seed position %s" % show(arg)[:100], kind="seed-analytic-shape")
                        return
                    n_v, x_v, y_v = vals
                    if n_v != d - 1 or not (ax * B <= x_v < (ax + 1) * B) or not (ay * B <= y_v < (ay + 1) * B):
                        run.violated("C01.R3", f, e.node, "closed-form seeding: for depth %d and apex Pos(%d,%d,%d) it enqueues Pos(%s,%s,%s), which is not a tile of "
                                     "level depth-1 inside the sub-pyramid (x in %d..%d, y in %d..%d): callbacks run for foreign tiles while the real ones are "
                                     "never seeded" % (d, na, ax, ay, n_v, x_v, y_v, ax * B, (ax + 1) * B - 1, ay * B, (ay + 1) * B - 1), kind="seed-analytic")
                        return
    run.undecided("C01.R3", f, e.node, "closed-form seeding agrees with the sub-pyramid block on the sampled (depth, apex) grid; its equivalence with the reduction "
                  "loop's liveness-based seeding for every pyramid is not established", kind="seed-analytic-unproven")


def _key_collision(project, ev, key, parent, got):
    """Two distinct parent positions (levels 0..4) that a derived readiness key maps to the same value, or None.
    A collision is a definite counterexample; finding none proves nothing."""
    k = key
    # a key computed by a project helper: evaluate the helper on the argument
    if k[0] == "call":
        g, binding = ev.bound_args(k)
        if g is not None and binding is not None:
            ev2 = sym.make_evaluator(project, g.module.name, [])
            r2 = ev2.run(g.node, args=binding)
            folded = boolalg.fold_returns(r2.returns)
            if folded is not None:
                k = folded
    seen = {}
    for n in range(1, 6):
        for x in range(2 ** n):
            for y in range(2 ** n):
                env = {("attr", got, "n"): n, ("attr", got, "x"): x, ("attr", got, "y"): y}
                v = teval(k, env)
                if v is UNKNOWN:
                    return None
                par = (n - 1, x // 2, y // 2)
                try:
                    hash(v)
                except TypeError:
                    return None
                if v in seen and seen[v] != par:
                    return "Pos%s" % (seen[v],), "Pos%s" % (par,), v
                seen[v] = par
    return None


def _is_get_on(t, qname):
    return t[0] == "call" and t[1][0] == "attr" and t[1][2] in ("get", "get_nowait") and t[1][1][0] == "new" and t[1][1][1] == qname


def _dispatcher(run, ev):
    project = run.project
    f = project.fn(PYR + ".Pyramid._walk_parallel")
    run.note_func(f)
    # a polling helper ("get the next completion report, checking on the workers while waiting") is part of the dispatch loop:
    # it is spliced into the dispatcher, its `return <received>` becoming `pos = <received>; break` out of its polling loop
    from sa.model import inline_helpers as _inline_helpers

    def _receivers(owner, call):
        g = common.resolve_callee(project, owner, call)
        if g is None or g.qual == f.qual:
            return None
        eff = common.summarize(project, g)
        return g if any("get" in es for p_, es in eff.items() if p_ != "<fn>") else None
    try:
        f_flat = _inline_helpers(project, f, _receivers)
    except Exception:
        f_flat = f
    if f_flat is not f:
        f = f_flat
    r = ev.run(f.node)
    stages = [s for s in common.discover_stages(project) if s.func.qual == f.qual]
    if not stages:
        run.undecided("C01.R2", f, None, "_walk_parallel is not a parallel stage any more", kind="no-stage")
        return
    st = stages[0]
    qparams = st.queue_params()         # worker param -> stage var
    # the work queue is the one the stage puts into; the completion queue the one it gets from
    put_events = [e for e in r.events if e.kind == "call" and e.term[1][0] == "attr" and e.term[1][2] == "put"
                  and e.term[1][1][0] == "new"]
    get_events = [e for e in r.events if e.kind == "call" and e.term[1][0] == "attr" and e.term[1][2] in ("get", "get_nowait")
                  and e.term[1][1][0] == "new"]
    if not put_events or not get_events:
        run.undecided("C01.R2", f, None, "no ready-queue put / done-queue get found in the dispatcher", kind="no-protocol")
        return
    own_ids = {id(n_) for n_ in own_nodes(f.node)}
    if id(get_events[0].node) not in own_ids:
        # the wait for a finished tile sits in a helper with a loop of its own: the dispatcher's loop structure as the evaluator sees it
        # (loops of inlined helpers included) is not the statement structure the release / termination rules speak about
        run.undecided("C01.R2", f, None, "the dispatcher receives completions through a helper (%s): release and termination cannot be related to one "
                      "dispatch loop" % ast.unparse(get_events[0].node)[:60], kind="dispatch-receive-delegated")
        return
    done_q = get_events[0].term[1][1][1]
    got = get_events[0].term            # the received position, as a term
    get_loops = [c[1] for c in get_events[0].pc if c[0] == "loop"]
    get_loop = get_loops[-1]
    # `pos = q.get(..); break` inside a spliced polling loop: after that loop `pos` *is* the received item
    inner_k = get_loops[-1]
    names_ = [e_.term[1][0][1] for e_ in r.events if e_.kind == "assign" and e_.term[1][1] == got and e_.term[1][0][0] == "sym"]
    if names_ and len(get_loops) > 1:
        alias = ("sym", "%s@A%d" % (names_[0].split("@")[0], inner_k))

        def _sub(t):
            if t == alias:
                return got
            if isinstance(t, tuple):
                return tuple(_sub(x) if isinstance(x, tuple) else x for x in t)
            return t
        for e_ in r.events:
            e_.term = _sub(e_.term)
            e_.pc = tuple(_sub(c_) if isinstance(c_, tuple) else c_ for c_ in e_.pc)
            if e_.extra is not None and isinstance(e_.extra, tuple):
                e_.extra = _sub(e_.extra)
    # the dispatch loop is the innermost loop around the receive that also releases tiles; a polling loop spliced in from a
    # receive helper (try: get; break / except Empty: check) sits inside it
    for k_ in reversed(get_loops):
        if any(("loop", k_) in e_.pc for e_ in put_events):
            get_loop = k_
            break
    disp_puts = [e for e in put_events if ("loop", get_loop) in e.pc]
    seed_puts = [e for e in put_events if ("loop", get_loop) not in e.pc]
    parent = ("nt", "Pos", (_spec(ev, "p.n - 1", p=got), _spec(ev, "p.x // 2", p=got), _spec(ev, "p.y // 2", p=got)))
    bit = _spec(ev, "2*(p.y % 2) + (p.x % 2)", p=got)

    # ---- R2
    if len(disp_puts) != 1:
        run.violated("C01.R2", f, (disp_puts[0].node if disp_puts else None), "%d puts on the ready queue in the dispatch loop "
                     "(expected exactly one release site)" % len(disp_puts), kind="release-sites")
    else:
        e = disp_puts[0]
        conds = [c for c in e.pc if c[0] != "loop"]
        arg = e.term[2][0] if e.term[2] else None
        rel = None
        for c, pol in conds:
            if c[0] == "op" and c[1].startswith("cmp:"):
                rel = (c, pol)
        verdict = None
        def _wg(t):
            if t == got:
                return ("sym", "RECEIVED")
            if isinstance(t, tuple):
                return tuple(_wg(x) if isinstance(x, tuple) else x for x in t)
            return t
        if arg != parent and (arg is None or common.unfollowed_project_calls(project, _wg(arg)) or any(common.unfollowed_project_calls(project, _wg(c_)) for c_, p_ in conds)):
            run.undecided("C01.R2", f, e.node, "the tile released is %s: it comes out of project code that is not followed (a bookkeeping object)" % show(arg)[:100],
                          kind="released-tile-opaque")
        elif arg != parent:
            run.violated("C01.R2", f, e.node, "the tile released is %s, expected the parent of the finished tile %s" % (show(arg), show(parent)),
                         kind="released-tile")
            verdict = "bad"
        if rel is None:
            run.violated("C01.R2", f, e.node, "the release of the parent is not conditional on a comparison of its flags",
                         kind="release-unconditional")
            verdict = "bad"
        else:
            (c, pol) = rel
            op = c[1][4:]
            a, b = c[2]
            # normalise so that the constant is on the right
            if num_value(a) is not None and num_value(b) is None:
                a, b = b, a
                op = {"Lt": "Gt", "Gt": "Lt", "LtE": "GtE", "GtE": "LtE"}.get(op, op)
            k = num_value(b)
            # accepted spellings of "flags == 0b1111": flags == 15 ; flags & 15 == 15 ; flags >= 15
            flags = a
            masked = False
            if flags[0] == "op" and flags[1] == "bitand":
                others = [x for x in flags[2] if num_value(x) is None]
                consts = [num_value(x) for x in flags[2] if num_value(x) is not None]
                if len(others) == 1 and consts == [15]:
                    flags = others[0]
                    masked = True
            want_flags_shape = flags[0] == "op" and flags[1] == "bitor"
            if k is None:
                run.undecided("C01.R2", f, e.node, "release condition %s is not a comparison with a constant" % show(c), kind="release-cond-shape")
                verdict = "und"
            elif not ((op == "Eq" and pol and k == 15) or (op == "GtE" and pol and k == 15) or (op == "NotEq" and not pol and k == 15)
                      or (op == "Lt" and not pol and k == 15)):
                run.violated("C01.R2", f, e.node, "the parent is released under `%s%s`; it must be released exactly when all four "
                             "child bits are set (flags == 0xF)" % ("" if pol else "not ", show(c)), kind="release-mask",
                             condition=show(c), polarity=pol)
                verdict = "bad"
            elif not want_flags_shape:
                run.undecided("C01.R2", f, e.node, "compared value %s is not `old flags | 1 << bit`" % show(flags), kind="flags-shape")
                verdict = "und"
            else:
                parts = flags[2]
                shifts = [x for x in parts if x[0] == "op" and x[1] == "lshift"]
                olds = [x for x in parts if not (x[0] == "op" and x[1] == "lshift")]
                if len(shifts) != 1 or len(olds) != 1:
                    run.undecided("C01.R2", f, e.node, "flags update has unexpected shape %s" % show(flags), kind="flags-shape")
                    verdict = "und"
                else:
                    sh = shifts[0]
                    if num_value(sh[2][0]) != 1 or sh[2][1] != bit:
                        run.violated("C01.R1", f, e.node, "dispatcher sets bit %s for a finished child; the child index is %s "
                                     "(2*y_index + x_index, the order of pos_children and of the pre-readied bits)" % (
                                         show(sh[2][1]), show(bit)), kind="dispatcher-bit", got=show(sh[2][1]))
                        verdict = "bad"
                    else:
                        run.holds("C01.R1", f, e.node, "dispatcher bit = 1 << (2*(y%2) + (x%2)) of the finished child")
                    old = olds[0]
                    # old flags are read from readiness[<parent>] with default 0
                    key_ok = old[0] == "call" and old[1][0] == "attr" and old[1][2] == "get" and len(old[2]) >= 1 and old[2][0] == parent \
                        and (len(old[2]) < 2 or num_value(old[2][1]) == 0)
                    if not key_ok and old[0] == "call" and old[1][0] == "attr" and old[1][2] == "get" and old[2]:
                        k0 = old[2][0]
                        if _key_kind(k0, parent) == "fields":
                            pass
                        elif k0 != parent:
                            if got in atoms_of(k0) or any(a[0] == "nt" for a in atoms_of(k0)):
                                coll = _key_collision(project, ev, k0, parent, got)
                                if coll is not None:
                                    run.violated("C01.R2", f, e.node, "readiness is keyed by %s, which is not injective: the parents %s and %s share the key %s, so "
                                                 "completions of children of one are counted for the other (a parent is released early, or never)" % (
                                                     show(k0)[:120], coll[0], coll[1], coll[2]), kind="readiness-key-collision")
                                    verdict = "bad"
                                else:
                                    run.undecided("C01.R2", f, e.node, "readiness is keyed by %s instead of the parent position itself; "
                                                  "injectivity of that key over (n, x, y) cannot be established" % show(k0)[:200], kind="readiness-key")
                            else:
                                run.violated("C01.R2", f, e.node, "flags are read from readiness[%s], not from the entry of the parent %s"
                                             % (show(k0)[:120], show(parent)[:120]), kind="readiness-key")
                            verdict = verdict or "und"
                        elif len(old[2]) >= 2 and num_value(old[2][1]) != 0:
                            run.violated("C01.R2", f, e.node, "default flags for a parent not yet in the table are %s, not 0" % show(old[2][1]),
                                         kind="flags-default")
                            verdict = "bad"
                    elif not key_ok:
                        run.undecided("C01.R2", f, e.node, "old flags %s are not read with readiness.get(parent, 0)" % show(old)[:160], kind="flags-read")
                        verdict = verdict or "und"
                    # write-back on the other branch under the same key, same flags
                    used_key = old[2][0] if (old[0] == "call" and old[2]) else parent
                    wb = [x for x in r.events if x.kind == "store" and ("loop", get_loop) in x.pc and x.term[1][0][0] == "sub"
                          and x.term[1][0][2] == used_key]
                    wb_ok = any(x.term[1][1] == flags for x in wb)
                    if not wb_ok:
                        run.violated("C01.R2", f, e.node, "the updated flags are not written back to readiness[parent] when the parent is "
                                     "not yet complete", kind="flags-writeback")
                        verdict = "bad"
                    else:
                        for x in wb:
                            xc = [c for c in x.pc if c[0] != "loop" and c[0][0] == "op" and c[0][1].startswith("cmp:")]
                            # must be on the complementary branch of the release comparison
                            if not any(cc[0] == c and cc[1] != pol for cc in xc):
                                run.violated("C01.R2", f, x.node, "flags write-back is not on the complementary branch of the release test",
                                             kind="flags-writeback-branch")
                                verdict = "bad"
            if verdict is None:
                run.holds("C01.R2", f, e.node, "parent released exactly when (readiness.get(parent,0) | 1<<bit) == 0xF; otherwise written back",
                          condition=show(c)[:200])

    # ---- R3 seeding + pre-readying (preparation loop)
    prep_loops = [(k, it, n) for k, it, n in r.loops if "_make_iter_reducer" in show(it)]
    if not prep_loops:
        run.undecided("C01.R3", f, None, "preparation loop over the reduction iterator not found", kind="no-prep-loop")
    else:
        k, it, lnode = prep_loops[0]
        el = ("elem", it)
        pos_t, leaf_t, data_t = ("item", el, 0), ("item", el, 2), ("item", el, 3)
        d = [("item", ("item", data_t, i), 0) for i in range(4)]
        is_live = ("op", "or", (leaf_t,) + tuple(d))
        want_level = sym.cmp("Eq", ("attr", pos_t, "n"), _spec(ev, "s.depth - 1", s=("sym", "self")))
        # a leaf sits at n == depth, never at depth - 1
        given = ("op", "not", (("op", "and", (leaf_t, want_level)),))
        analytic = [e for e in seed_puts if ("loop", k) not in e.pc]
        seed_puts = [e for e in seed_puts if ("loop", k) in e.pc]
        for e in analytic:
            _analytic_seeding(run, f, e, r)
        if len(seed_puts) != 1:
            run.violated("C01.R3", f, (seed_puts[0].node if seed_puts else lnode), "%d seeding puts on the ready queue in the preparation loop "
                         "(expected exactly one)" % len(seed_puts), kind="seed-sites")
        else:
            e = seed_puts[0]
            cond = boolalg.conj(_about(e.pc, el))
            want = ("op", "and", (want_level, is_live))
            arg_ok = e.term[2] and e.term[2][0] == pos_t
            eq = boolalg.equiv(cond, want, given=given)
            if not arg_ok:
                run.violated("C01.R3", f, e.node, "seeding enqueues %s instead of the visited position" % show(e.term[2][0])[:120], kind="seed-arg")
            elif eq is True:
                run.holds("C01.R3", f, e.node, "seeded: tiles at depth-1 that are live")
            elif eq is None or want_level not in boolalg.atoms_of_cond(cond):
                lv = [("" if p else "not ") + show(c)[:120] for c, p in _about(e.pc, el)]
                if eq is None:
                    run.undecided("C01.R3", f, e.node, "seeding guard %s not recognised" % lv, kind="seed-guard")
                else:
                    run.violated("C01.R3", f, e.node, "seeding level test is %s, expected pos.n == self.depth - 1" % (lv or "missing"), kind="seed-level")
            else:
                run.violated("C01.R3", f, e.node, "tiles just above the leaves are seeded under `%s`; they must be seeded exactly when live "
                             "(a filter may accept a tile but none of its children); differs for: %s" % (
                                 show(cond)[:160], boolalg.counterexample(cond, want, given=given)), kind="seed-liveness")
        # pre-readied bits: for every liveness pattern of the four children, the flags stored for a non-leaf tile
        # (0 when nothing is stored) are exactly the bits of the dead children
        st_all = [x for x in r.events if x.kind == "store" and ("loop", k) in x.pc and x.term[1][0][0] == "sub"
                  and "readiness" in show(x.term[1][0][1]).lower()]
        st_pre = [x for x in st_all if _key_kind(x.term[1][0][2], pos_t) in ("identity", "fields")]
        if st_all and not st_pre:
            run.undecided("C01.R3", f, st_all[0].node, "pre-readied flags are stored under the derived key %s instead of the position itself; "
                          "injectivity of that key over (n, x, y) cannot be established" % show(st_all[0].term[1][0][2])[:160],
                          kind="readiness-key")
        elif not st_pre:
            run.violated("C01.R3", f, lnode, "no pre-set bits for dead children are stored in readiness[pos]: a parent with a "
                         "filtered-out child is never released", kind="no-pre-ready")
        else:
            import itertools
            bad = None
            unknown = None
            for vals in itertools.product((False, True), repeat=4):
                env = {leaf_t: False}
                env.update(dict(zip(d, vals)))
                stored = 0
                for x in st_pre:
                    c = teval(boolalg.conj(_about(x.pc, el)), env)
                    if c is UNKNOWN:
                        unknown = (x, "condition")
                        break
                    if c:
                        v = teval(x.term[1][1], env)
                        if v is UNKNOWN:
                            unknown = (x, "value")
                            break
                        stored = v
                if unknown:
                    break
                want_bits = sum((0 if vals[i] else 1) << i for i in range(4))
                if stored != want_bits:
                    bad = (vals, stored, want_bits, st_pre[-1])
                    break
            if unknown:
                run.undecided("C01.R3", f, unknown[0].node, "cannot evaluate the %s of the pre-readied store %s" % (
                    unknown[1], show(unknown[0].term[1][1])[:120]), kind="pre-ready-shape")
            elif bad:
                vals, stored, want_bits, x = bad
                run.violated("C01.R3", f, x.node, "pre-readied flags are wrong: for children liveness %s readiness[pos] becomes %s, expected %s "
                             "(bit i set exactly for dead child i)" % (list(vals), bin(stored) if isinstance(stored, int) else stored, bin(want_bits)),
                             kind="pre-ready-bits")
            else:
                run.holds("C01.R3", f, st_pre[0].node, "bit i pre-set exactly for dead child i (all 16 liveness patterns); stored under the tile's own position")
        # liveness handed to the reduction equals the liveness used for seeding
        sd = [e for e in r.events if e.kind == "call" and e.term[1][0] == "attr" and e.term[1][2] == "set_data" and ("loop", k) in e.pc]
        if sd and sd[0].term[2] and sd[0].term[2][0][0] == "tuple" and boolalg.equiv(sd[0].term[2][0][1][0], is_live) is True \
                and not _about(sd[0].pc, el):
            run.holds("C01.R3", f, sd[0].node, "the liveness recorded for the parent level is the liveness used for seeding")
        elif sd:
            run.violated("C01.R3", f, sd[0].node, "set_data records %s, not (is_live, ops) with is_live = leaf or any live child" %
                         show(sd[0].term[2][0])[:160], kind="liveness-recorded")

    # ---- R4 termination
    cfg = CFG(f.node)
    breaks = [e for e in r.events if e.kind == "break" and [c[1] for c in e.pc if c[0] == "loop"][-1:] == [get_loop]]      # (exits of the dispatch loop itself)
    want_term = sym.cmp("Eq", got, ("attr", ("sym", "self"), "_apex"))
    want_term2 = want_term
    bad = False
    if not breaks:
        run.violated("C01.R4", f, None, "the dispatch loop has no exit: walk never returns", kind="no-exit")
        bad = True
    for b in breaks:
        conds = [c for c in b.pc if c[0] != "loop"]
        def _without_got(t):
            if t == got:
                return ("sym", "RECEIVED")
            if isinstance(t, tuple):
                return tuple(_without_got(x) if isinstance(x, tuple) else x for x in t)
            return t
        if not any((c == want_term or c == want_term2) and pol for c, pol in conds) and any(common.unfollowed_project_calls(project, _without_got(c)) for c, pol in conds if _without_got(c) != c):
            run.undecided("C01.R4", f, b.node, "dispatch loop is left under %s: decided by project code that is not followed" % [show(c)[:80] for c, p in conds], kind="stop-condition-opaque")
            bad = True
        elif not any((c == want_term or c == want_term2) and pol for c, pol in conds):
            run.violated("C01.R4", f, b.node, "dispatch loop is left under %s; it must stop exactly when the completion of the apex "
                         "(self._apex) is received" % ([("" if p else "not ") + show(c)[:120] for c, p in conds] or "no condition"),
                         kind="stop-condition")
            bad = True
    # the Empty handler must lead back to the loop, not out of it
    gnode = cfg.node_containing(get_events[0].node)
    if gnode is None:
        # the receive sits in a helper that was inlined by the evaluator: the statement-level view of the dispatcher does not show it
        run.undecided("C01.R4", f, None, "the dispatcher receives completions through a helper (%s): the loop around it is not visible at statement level" %
                      ast.unparse(get_events[0].node)[:60], kind="dispatch-receive-delegated")
        return
    loop_stmt = [s for s, b in enclosing_stmts(f.node, gnode.ast) if isinstance(s, ast.While)]
    disp_nodes = [nd for k_, it_, nd in r.loops if k_ == get_loop]
    if disp_nodes and any(s_ is disp_nodes[0] for s_ in loop_stmt):
        loop_stmt = [disp_nodes[0]]
    if loop_stmt:
        w = loop_stmt[-1]
        if not (isinstance(w.test, ast.Constant) and w.test.value is True):
            run.violated("C01.R4", f, w, "dispatch loop condition `%s` can end the dispatch before the apex is done" % ast.unparse(w.test),
                         kind="loop-condition")
            bad = True
        rets = [n for n in ast.walk(w) if isinstance(n, ast.Return)]
        if rets:
            run.violated("C01.R4", f, rets[0], "return inside the dispatch loop", kind="return-in-loop")
            bad = True
    # the shutdown flag must not be raised while tiles are still being dispatched
    if loop_stmt:
        lh = cfg.node_of_stmt(loop_stmt[-1])
        for sn, sc, h in common.effect_sites(project, f, cfg, set(st.event_params().values()), "set"):
            if lh.id in cfg.reachable(sn.id) and sn.id in cfg.reachable(lh.id):
                run.violated("C01.R4", f, sc, "the done flag is set inside the dispatch loop (line %d): idle workers may exit before the "
                             "remaining tiles (up to the apex) are processed and the walk never returns" % sn.line, kind="done-flag-in-loop")
                bad = True
    # early return only on total == 0
    early = [(pc, t, n) for pc, t, n in r.returns]
    for pc, t, n in early:
        conds = [c for c in pc if c[0] != "loop"]
        totals = [dict(x.term[3]).get("total") for x in r.events if x.kind in ("call", "with") and x.term[0] == "call" and show(x.term[1]) == "progress_bar"]
        totals = [t_ for t_ in totals if t_ is not None]
        ok = bool(totals) and boolalg.equiv(boolalg.conj(conds), sym.cmp("Eq", totals[0], sym.ZERO)) is True
        if not ok:
            run.violated("C01.R4", f, n, "early return under %s (only `total == 0` may skip the walk)" % [show(c)[:100] for c, p in conds],
                         kind="early-return")
            bad = True
    if not bad:
        run.holds("C01.R4", f, breaks[0].node, "dispatcher stops exactly on receipt of the apex; only other exit is total == 0")


def _r5_worker(run):
    project = run.project
    f = project.fn(PYR + "._mp_walk_worker")
    run.note_func(f)
    cfg = CFG(f.node)
    stages = [s for s in common.discover_stages(project) if s.worker is f]
    if not stages:
        run.undecided("C01.R5", f, None, "worker not bound to a stage", kind="unbound-worker")
        return
    st = stages[0]
    cb_param = [p for p, e in st.binding.items() if isinstance(e, ast.Name) and e.id == "callback"]
    # which param is the ready queue (stage puts) and which the done queue (stage gets)
    stage_gets = {c.func.value.id for n, c in common.method_calls_on(st.cfg, set(st.queues), "get")}
    ready_p = [p for p, v in st.queue_params().items() if v not in stage_gets]
    done_p = [p for p, v in st.queue_params().items() if v in stage_gets]
    if not cb_param or not ready_p or not done_p:
        run.undecided("C01.R5", f, None, "cannot bind callback/ready/done parameters of the worker", kind="worker-binding")
        return
    gets = common.method_calls_on(cfg, ready_p, "get")
    cbs = [(n, c) for n in cfg.nodes for c in cfg.calls_at(n) if isinstance(c.func, ast.Name) and c.func.id in cb_param]
    puts = common.method_calls_on(cfg, done_p, "put")
    if len(gets) != 1 or not cbs or not puts:
        run.violated("C01.R5", f, None, "worker loop must receive once, call the callback and report completion "
                     "(gets=%d callbacks=%d reports=%d)" % (len(gets), len(cbs), len(puts)), kind="worker-shape")
        return
    gn, gc = gets[0]
    item = None
    if isinstance(gn.ast, ast.Assign) and isinstance(gn.ast.targets[0], ast.Name):
        item = gn.ast.targets[0].id
    loops = [s for s, b in enclosing_stmts(f.node, gn.ast) if isinstance(s, ast.While)]
    lh = cfg.node_of_stmt(loops[-1]) if loops else None
    cb_ids = {n.id for n, c in cbs}
    put_ids = {n.id for n, c in puts}
    bad = []
    if lh is None:
        bad.append(("no-loop", "receive not in a loop"))
    else:
        normal = [j for j, lab in cfg.succ[gn.id] if lab != "exc"]
        for j in normal:
            r_no_cb = cfg.reachable(j, avoid=cb_ids) | {j}
            if lh.id in r_no_cb and j not in cb_ids:
                bad.append(("callback-skipped", "after a successful receive the next iteration is reachable without calling the callback"))
            if (r_no_cb & put_ids) and j not in cb_ids:
                bad.append(("done-before-callback", "completion is reported (line %d) on a path that has not yet run the callback: the parent "
                            "may be released before this tile is finished" % cfg.nodes[sorted(r_no_cb & put_ids)[0]].line))
            r_no_put = cfg.reachable(j, avoid=put_ids) | {j}
            if lh.id in r_no_put and j not in put_ids:
                bad.append(("done-skipped", "after a successful receive the next iteration is reachable without reporting completion"))
        # exactly once: no cycle through callback / put that avoids the loop head
        for ids, what in ((cb_ids, "callback"), (put_ids, "completion report")):
            if len(ids) > 1:
                # two sites on one path?
                for a in ids:
                    if (cfg.reachable(a, avoid={lh.id}) & ids) - {a}:
                        bad.append(("twice", "%s can run twice for one received tile" % what))
            for a in ids:
                if a in cfg.reachable(a, avoid={lh.id}):
                    bad.append(("twice", "%s lies on an inner cycle" % what))
        # same position everywhere
        for n, c in cbs + puts:
            if item and not (c.args and isinstance(c.args[0], ast.Name) and c.args[0].id == item):
                bad.append(("wrong-item", "%s is called with %s, not with the received position `%s`" % (
                    ast.unparse(c.func), ast.unparse(c.args[0]) if c.args else "nothing", item)))
    # the completion report is unconditional: a timed / non-blocking put whose failure is swallowed loses the report
    for pn_, pc_ in puts:
        info = common.put_call_info(pc_, None)
        if info in ("timeout", "nonblocking"):
            for s_, blk in enclosing_stmts(f.node, pn_.ast):
                if isinstance(s_, ast.Try) and blk == "body":
                    for h_ in s_.handlers:
                        hn_ = [x for x in cfg.nodes if x.kind == "except" and x.ast is h_]
                        if hn_ and (cfg.exit.id in cfg.reachable(hn_[0].id) or (lh is not None and lh.id in cfg.reachable(hn_[0].id))):
                            bad.append(("report-dropped", "the completion report is a %s put whose failure (handler at line %d) is swallowed: the tile was processed "
                                        "but the dispatcher never learns it, so its parent is never released and the walk does not return" % (
                                            "timed" if info == "timeout" else "non-blocking", h_.lineno)))
    if bad:
        seen = set()
        for kind, msg in bad:
            if kind in seen:
                continue
            seen.add(kind)
            run.violated("C01.R5", f, gc, msg, kind=kind)
    else:
        run.holds("C01.R5", f, gc, "worker: get -> callback(pos) -> done_queue.put(pos), once each, in order")


def _r6_serial(run, ev):
    project = run.project
    # post-order generators
    for q, children_fn in ((PYR + "._postfix_pos", "pos_children"), ("toasty.toast._postfix_corner", "_div4")):
        f = project.fn(q)
        run.note_func(f)
        gev = sym.make_evaluator(project, f.module.name, [])
        r = gev.run(f.node)
        ys = common.streams(r)
        p0 = ("sym", f.params()[0])
        loops = [(k, it, n) for k, it, n in r.loops if it[0] == "call" and show(it[1]).split(".")[-1] == children_fn]
        own_loops = [(k, it, n) for k, it, n in loops if it[2] and it[2][0] == p0]
        rec = [(i, pc, t, n) for i, (pc, t, n) in enumerate(ys) if t[0] == "call" and t[1] == ("sym", f.name)]
        selfy = [(i, pc, t, n) for i, (pc, t, n) in enumerate(ys) if t == ("tuple", (p0,))]
        if not loops or not selfy:
            run.undecided("C01.R6", f, None, "post-order generator is not of the recognised form `for c in %s(%s): <yield everything of the recursion on c>; yield %s` "
                          "(child loops=%d, self-yields=%d)" % (children_fn, p0[1], p0[1], len(loops), len(selfy)), kind="postorder-shape")
            continue
        problems = []
        if not own_loops:
            problems.append(("children-of-other", "children are taken from %s, not from the tile itself" % show(loops[0][1])[:60]))
        k, it, lnode = (own_loops or loops)[0]
        if any(e.kind in ("break", "return") and ("loop", k) in e.pc for e in r.events):
            problems.append(("child-loop-exit", "the loop over the children can be left early"))
        rec_in = [x for x in rec if ("loop", k) in x[1]]
        if not rec_in:
            called = [e for e in r.events if e.kind == "call" and e.term[1] == ("sym", f.name) and ("loop", k) in e.pc]
            problems.append(("child-results-dropped", "results of the recursive descent are not yielded") if called else ("no-recursion", "no recursive descent into each child"))
        else:
            g_, b_ = gev.bound_args(rec_in[0][2])
            b_ = b_ or {}
            params = f.params()
            if b_.get(params[0]) != gev._iter_elem(it):
                problems.append(("no-recursion", "the recursion descends into %s, not into each child" % show(b_.get(params[0]))[:60]))
            elif any(b_.get(p_) != ("sym", p_) for p_ in params[1:]):
                problems.append(("recursion-args", "the recursion does not hand its remaining arguments on unchanged"))
            rpc = rec_in[0][1]
            if [c for c in rpc[rpc.index(("loop", k)) + 1:] if c[0] != "loop"]:
                problems.append(("child-conditional", "the descent into a child is conditional inside the loop"))
        for i, pc, t, n in selfy:
            if ("loop", k) in pc:
                problems.append(("parent-first", "the tile itself is yielded inside the loop over its children"))
            if rec_in and i < rec_in[0][0]:
                problems.append(("parent-first", "the tile itself can be yielded before its children were enumerated"))
        if len(selfy) != 1:
            problems.append(("multi-yield", "%d self-yields per activation" % len(selfy)))
        if problems:
            for kind, msg in problems:
                run.violated("C01.R6", f, lnode, msg, kind=kind)
        else:
            run.holds("C01.R6", f, lnode, "all four children are enumerated (recursively) before the tile itself, once")
    # serial walk: callback only for non-leaf live tiles, set_data with the same liveness
    f = common.splice(project, project.fn(PYR + ".Pyramid._walk_serial"))
    run.note_func(f)
    r = ev.run(f.node)
    loops = [(k, it, n) for k, it, n in r.loops if "_make_iter_reducer" in show(it)]
    cbs = [e for e in r.events if e.kind == "call" and e.term[1] == ("sym", "callback")]
    if not loops or len(cbs) != 1:
        run.violated("C01.R6", f, None, "serial walk must call the callback once inside the reduction loop (calls=%d)" % len(cbs), kind="serial-shape")
        return
    k, it, lnode = loops[0]
    el = ("elem", it)
    pos_t, leaf_t, data_t = ("item", el, 0), ("item", el, 2), ("item", el, 3)
    live_any = ("op", "or", tuple(("item", data_t, i) for i in range(4)))
    e = cbs[0]
    cond = boolalg.conj(_about(e.pc, el))
    want = ("op", "and", (("op", "not", (leaf_t,)), live_any))
    okc = boolalg.equiv(cond, want)
    arg_ok = e.term[2] == (pos_t,)
    sd = [x for x in r.events if x.kind == "call" and x.term[1][0] == "attr" and x.term[1][2] == "set_data" and ("loop", k) in x.pc]
    sd_ok = bool(sd) and sd[0].term[2] and boolalg.equiv(sd[0].term[2][0], ("op", "or", (leaf_t, live_any))) is True \
        and not _about(sd[0].pc, el)
    if not sd_ok and len(sd) > 1 and all(x.term[2] for x in sd):
        # several set_data sites, one per case (`if is_leaf: set_data(True); continue` ... `set_data(any(data))`): what is recorded is
        # the value of the site that runs; together the sites must cover every tile
        def norm_any(t):
            if isinstance(t, tuple):
                if t == ("call", ("sym", "any"), (data_t,), ()):
                    return live_any
                return tuple(norm_any(x) if isinstance(x, tuple) else x for x in t)
            return t
        parts = [("op", "and", (norm_any(boolalg.conj(_about(x.pc, el))), norm_any(x.term[2][0]))) for x in sd]
        covers = ("op", "or", tuple(norm_any(boolalg.conj(_about(x.pc, el))) for x in sd))
        recorded = ("op", "or", tuple(parts))
        sd_ok = boolalg.equiv(recorded, ("op", "or", (leaf_t, live_any))) is True and boolalg.equiv(covers, sym.TRUE) is True
        if okc is not True:
            okc = boolalg.equiv(norm_any(cond), want)
    if okc is True and arg_ok and sd_ok:
        run.holds("C01.R6", f, e.node, "serial: callback(pos) iff non-leaf with a live child; same liveness handed upwards")
    elif not arg_ok:
        run.violated("C01.R6", f, e.node, "serial callback is called with %s instead of the visited position" % show(e.term[2])[:120], kind="serial-arg")
    elif okc is None:
        run.undecided("C01.R6", f, e.node, "serial callback condition %s has too many atoms to compare" % show(cond)[:160], kind="serial-callback-condition")
    elif not okc:
        run.violated("C01.R6", f, e.node, "serial callback runs under %s; expected: not is_leaf and (data[0] or data[1] or data[2] or data[3]); differs for: %s"
                     % (show(cond)[:200], boolalg.counterexample(cond, want)), kind="serial-callback-condition")
    else:
        run.violated("C01.R6", f, (sd[0].node if sd else lnode), "serial reduction records %s as liveness" % (show(sd[0].term[2][0])[:120] if sd else "nothing"),
                     kind="serial-liveness")


def _r7_callback(run):
    project = run.project
    f = project.fn(PYR + ".Pyramid.walk")
    run.note_func(f)
    cb = f.params()[1] if len(f.params()) > 1 else None
    calls = {}
    for c in own_calls(f.node):
        t = common.resolve_callee(project, f, c)
        if t is not None and t.name in ("_walk_serial", "_walk_parallel"):
            calls[t.name] = c
    ok = len(calls) == 2 and all(c.args and isinstance(c.args[0], ast.Name) and c.args[0].id == cb for c in calls.values())
    if ok:
        run.holds("C01.R7", f, None, "walk hands the same callback object to the serial and the parallel implementation")
    else:
        run.violated("C01.R7", f, None, "walk does not pass its callback unchanged to both _walk_serial and _walk_parallel", kind="callback-forward")
    # branch selection: parallel > 1 -> parallel else serial
    wev = sym.make_evaluator(project, PYR, [])
    wr = wev.run(f.node)
    par_calls = [e for e in wr.events if e.kind == "call" and e.term[1] == ("attr", ("sym", "self"), "_walk_parallel")]
    for e in par_calls:
        cond = boolalg.conj(e.pc)
        ones = [a for a in atoms_of(cond) if a[0] == "op" and a[1] == "cmp:Lt" and num_value(a[2][0]) == 1]
        good = bool(ones) and boolalg.equiv(cond, ones[0]) is True and "parallel" in show(ones[0][2][1])
        if not good:
            run.violated("C01.R7", f, e.node, "parallel walk chosen under `%s` (expected parallel > 1)" % show(cond)[:100], kind="mode-choice")
    st = [s for s in common.discover_stages(project) if s.func.qual == PYR + ".Pyramid._walk_parallel"]
    if st and st[0].worker is not None:
        b = st[0].binding
        cbp = [p for p, e in b.items() if isinstance(e, ast.Name) and e.id == st[0].func.params()[1]]
        if cbp == ["callback"] or (cbp and any(isinstance(c.func, ast.Name) and c.func.id == cbp[0] for c in own_calls(st[0].worker.node))):
            run.holds("C01.R7", st[0].func, st[0].proc_call, "the callback is handed unchanged to the workers (param %s)" % cbp[0])
        else:
            run.violated("C01.R7", st[0].func, st[0].proc_call, "the walk callback is not among the worker's arguments / not called by the worker",
                         kind="callback-to-worker")


def _r9_stateless(run):
    """A walk leaves nothing behind on the Pyramid object: what the second walk of one object does cannot depend on the first."""
    project = run.project
    root = project.fn(PYR + ".Pyramid.walk")
    seen = {root.qual: root}
    todo = [root]
    while todo:
        g = todo.pop()
        for c in own_calls(g.node):
            t = common.resolve_callee(project, g, c)
            if t is not None and t.cls is not None and t.cls.name == "Pyramid" and t.qual not in seen and not t.name.startswith("new_"):
                seen[t.qual] = t
                todo.append(t)
    bad = []
    for q, g in sorted(seen.items()):
        run.note_func(g)
        for n in own_nodes(g.node):
            tg = []
            if isinstance(n, ast.Assign):
                tg = n.targets
            elif isinstance(n, (ast.AugAssign, ast.AnnAssign)):
                tg = [n.target]
            for t_ in tg:
                for x in ast.walk(t_):
                    if isinstance(x, ast.Attribute) and isinstance(x.value, ast.Name) and x.value.id == "self" and isinstance(x.ctx, ast.Store):
                        bad.append((g, n, "self.%s" % x.attr))
                    if isinstance(x, ast.Subscript) and isinstance(x.ctx, ast.Store):
                        b = x.value
                        while isinstance(b, (ast.Subscript, ast.Attribute)):
                            if isinstance(b, ast.Attribute) and isinstance(b.value, ast.Name) and b.value.id == "self":
                                bad.append((g, n, "self.%s[...]" % b.attr))
                                break
                            b = b.value
    def keyed_cache(g, what):
        # `if self._c is not None and self._c[0] == key: return self._c[1]` ... `self._c = (key, value)` in a counting helper: a cache
        # with an explicit key; whether the key is complete is the memo rules' business (C13), not a statement about the walk
        attr = what.split(".")[1].split("[")[0]
        if g.name in ("walk", "_walk_parallel", "_walk_serial"):
            return False
        compared = any(isinstance(c_, ast.Compare) and any(isinstance(x_, ast.Attribute) and x_.attr == attr and isinstance(x_.value, ast.Name) and x_.value.id == "self"
                                                            for x_ in ast.walk(c_)) for c_ in own_nodes(g.node))
        returned = any(isinstance(r_, ast.Return) and r_.value is not None and any(isinstance(x_, ast.Attribute) and x_.attr == attr for x_ in ast.walk(r_.value))
                       for r_ in own_nodes(g.node))
        return compared and returned
    if bad and all(keyed_cache(g_, w_) for g_, n_, w_ in bad):
        g, n, what = bad[0]
        run.undecided("C01.R9", g, n, "%s keeps a keyed cache in %s that outlives the walk: whether a later walk can be handed a stale entry depends on the completeness "
                      "of its key (decided by the memo rules of C13, not here)" % (g.short, what), kind="walk-keyed-cache")
    elif bad:
        g, n, what = [b for b in bad if not keyed_cache(b[0], b[2])][0]
        run.violated("C01.R9", g, n, "%s stores into %s during a walk: state that survives on the pyramid object makes a later walk of the same object depend on "
                     "the earlier one (e.g. a remembered readiness table that the dispatcher has already consumed)" % (g.short, what), kind="walk-keeps-state")
    else:
        run.holds("C01.R9", root, None, "nothing reachable from Pyramid.walk stores into the pyramid object (%d methods)" % len(seen), methods=len(seen))


def _r8_subpyramid(run, ev):
    project = run.project
    f = project.fn(PYR + ".Pyramid.subpyramid")
    run.note_func(f)
    r = ev.run(f.node)
    # the composed filter must be a conjunction of the position filter and the user's filter: the lambda bodies are
    # evaluated in the environment they were created in (names of temporaries do not matter)
    posf = ("call", ("sym", "_make_position_filter"), (("sym", f.params()[1]),), ())
    user = ("attr", ("sym", "self"), "_tile_filter")
    bodies = []
    for n, env in r.lambdas:
        e2 = dict(env)
        for a_ in n.args.args:
            e2[a_.arg] = ("sym", a_.arg)
        arg0 = ("sym", n.args.args[0].arg) if n.args.args else None
        bodies.append((n, ev._e(n.body, e2, (), sym.Result()), arg0))
    want_single = lambda t: ("call", posf, (("attr", t, "pos"),), ())
    comp = [(n, b_, t) for n, b_, t in bodies if b_[0] == "op" and b_[1] in ("and", "or")]
    single = [(n, b_, t) for n, b_, t in bodies if t is not None and b_ == want_single(t)]
    if not comp or not single:
        run.undecided("C01.R8", f, None, "sub-pyramid filter lambdas not found", kind="no-filter-lambda")
    else:
        n, b_, t = comp[0]
        want = ("op", "and", (want_single(t), ("call", user, (t,), ())))
        if b_[1] == "and" and boolalg.equiv(b_, want) is True:
            run.holds("C01.R8", f, n, "sub-pyramid filter = position filter AND user filter")
        else:
            run.violated("C01.R8", f, n, "sub-pyramid filter is %s; it must be the conjunction of the position filter and "
                         "the user's filter" % show(b_)[:140], kind="filter-composition")
    f = project.fn(PYR + "._make_position_filter.position_filter")
    run.note_func(f)
    r2 = ev.run(f.node)
    outer = project.fn(PYR + "._make_position_filter")
    # deeper than the apex -> True; else membership in the ancestor set
    rets = [(pc, t) for pc, t, n in r2.returns]
    accepted = ("op", "or", tuple(("op", "and", (boolalg.conj(pc), t)) for pc, t in rets)) if rets else sym.FALSE
    posp = ("sym", f.params()[0]) if f.params() else ("sym", "pos")
    members = [a for a in atoms_of(accepted) if a[0] == "op" and a[1] == "cmp:In" and a[2][0] == posp]
    lv = [a for a in atoms_of(accepted) if a[0] == "op" and a[1] == "cmp:Lt" and a[2][1] == ("attr", posp, "n")]
    below = lv[0] if lv else sym.cmp("Gt", ("attr", posp, "n"), ("sym", "level"))
    # `level` must be the apex level captured by the factory (apex.n before the ancestor loop)
    level_ok = True
    if lv:
        outer_ev = sym.make_evaluator(project, PYR, [])
        ro = outer_ev.run(outer.node)
        nested = ro.nested.get(f.name)
        lvl_t = lv[0][2][0]
        if nested and lvl_t[0] == "sym" and lvl_t[1] in nested[1]:
            level_ok = nested[1][lvl_t[1]] == ("attr", ("sym", outer.params()[0]), "n")
    if len(members) == 1 and not level_ok:
        eq = False
    elif len(members) == 1:
        want = ("op", "or", (below, members[0]))
        eq = boolalg.equiv(accepted, want)
    else:
        eq = False
    if eq is not True and len(members) != 1:
        # closed form of "pos is the apex or one of its ancestors": pos.n >= 0 and pos.x == apex.x // 2**(apex.n - pos.n) (same for y)
        if _is_closed_form_ancestor_test(project, outer, f, accepted, posp, below):
            run.holds("C01.R8", f, None, "position filter accepts positions below the apex level and, in closed form, the apex and its ancestors "
                      "(pos.x == apex.x >> (apex.n - pos.n), pos.y likewise)")
            return
        # not the "ancestor set" form: look for a position on which the closure's value differs from the specification
        # (levels 0..3; a counterexample is definite, agreement on the grid is not a proof)
        cex = _position_filter_counterexample(project, outer, f, accepted, posp)
        if cex is None:
            run.undecided("C01.R8", f, None, "position filter %s is not the ancestor-set form; no counterexample among the positions of levels 0-3" % show(accepted)[:160],
                          kind="position-filter")
            return
        if cex != "unknown":
            run.violated("C01.R8", f, None, "position filter: for apex %s it %s position %s, but that position is %s the sub-pyramid's walk" % (
                cex[0], "accepts" if cex[2] else "rejects", cex[1], "not on" if cex[2] else "on"), kind="position-filter")
            return
        run.undecided("C01.R8", f, None, "position filter %s cannot be evaluated" % show(accepted)[:200], kind="position-filter")
        return
    if eq is True:
        run.holds("C01.R8", f, None, "position filter accepts positions below the apex level and the apex's ancestors")
    elif eq is None:
        run.undecided("C01.R8", f, None, "position filter %s cannot be compared" % show(accepted)[:200], kind="position-filter")
    else:
        run.violated("C01.R8", f, None, "position filter accepts %s; expected `pos.n > level or pos in ancestors`" % show(accepted)[:200], kind="position-filter")
    # iterator stops above the apex: a StopIteration is raised exactly for positions shallower than the apex
    f = project.fn(PYR + ".PyramidReductionIterator.__next__")
    nev = sym.make_evaluator(project, PYR, [])
    nr = nev.run(f.node)
    stop = False
    for e in nr.events:
        if e.kind != "raise" or "StopIteration" not in show(e.term):
            continue
        for c, pol in e.pc:
            if c == "loop" or c[0] == "loop":
                continue
            if pol and c[0] == "op" and c[1] == "cmp:Lt" and show(c[2][0]).endswith(".n") and "_apex" in show(c[2][1]) and show(c[2][1]).endswith(".n"):
                stop = True
    if stop:
        run.holds("C01.R8", f, None, "iteration stops at positions above the apex")
    else:
        run.violated("C01.R8", f, None, "reduction iterator no longer stops at positions above the sub-pyramid apex", kind="apex-stop")



def _position_filter_counterexample(project, outer, inner, accepted, posp):
    """Evaluate the closure's acceptance condition for every (apex, pos) of levels 0..3 / 0..4, with the factory's locals
    substituted; -> None (agrees everywhere) | "unknown" | (apex, pos, accepted?)."""
    oev = sym.make_evaluator(project, PYR, [PYR + ".pos_parent"])
    ro = oev.run(outer.node)
    nested = ro.nested.get(inner.name)
    captured = dict(nested[1]) if nested else {}
    apexp = ("sym", outer.params()[0])

    def subst(t):
        if isinstance(t, tuple):
            if t and t[0] == "sym" and t[1] in captured and t != apexp and t != posp and captured[t[1]] != t:
                return subst(captured[t[1]])
            return tuple(subst(x) if isinstance(x, tuple) else x for x in t)
        return t
    cond = subst(accepted)
    for an in range(0, 4):
        for ax in range(2 ** an):
            for ay in range(2 ** an):
                for pn in range(0, 5):
                    for px in range(2 ** pn):
                        for py in range(2 ** pn):
                            env = {("attr", apexp, "n"): an, ("attr", apexp, "x"): ax, ("attr", apexp, "y"): ay,
                                   ("attr", posp, "n"): pn, ("attr", posp, "x"): px, ("attr", posp, "y"): py}
                            got = teval(cond, env)
                            if got is UNKNOWN:
                                return "unknown"
                            want = pn > an or (px == ax >> (an - pn) and py == ay >> (an - pn))
                            if bool(got) != want:
                                return ("Pos(%d,%d,%d)" % (an, ax, ay), "Pos(%d,%d,%d)" % (pn, px, py), bool(got))
                            if pn >= 3 and (px > 2 or py > 2):
                                break
    return None



def _is_closed_form_ancestor_test(project, outer, inner, accepted, posp, below):
    oev = sym.make_evaluator(project, PYR, [PYR + ".pos_parent"])
    ro = oev.run(outer.node)
    nested = ro.nested.get(inner.name)
    captured = dict(nested[1]) if nested else {}
    apexp = ("sym", outer.params()[0])

    def subst(t):
        if isinstance(t, tuple):
            if t and t[0] == "sym" and t[1] in captured and t != apexp and t != posp and captured[t[1]] != t:
                return subst(captured[t[1]])
            return tuple(subst(x) if isinstance(x, tuple) else x for x in t)
        return t
    def renorm(t):
        # polynomial arithmetic redone after the substitution
        if not isinstance(t, tuple) or not t:
            return t
        if t[0] == "poly":
            acc_ = num(0)
            for mono, c in t[1]:
                term = num(c)
                for a, p_ in mono:
                    a2 = renorm(a)
                    term = sym.mul(term, sym.powi(a2, p_)) if p_ >= 0 else sym.div(term, sym.powi(a2, -p_))
                acc_ = sym.add(acc_, term)
            return acc_
        if t[0] == "op" and t[1].startswith("cmp:") and len(t[2]) == 2:
            return sym.cmp(t[1][4:], renorm(t[2][0]), renorm(t[2][1]))
        if isinstance(t[0], str):
            return (t[0],) + tuple(renorm(x) if isinstance(x, tuple) else x for x in t[1:])
        return tuple(renorm(x) if isinstance(x, tuple) else x for x in t)
    acc = renorm(subst(accepted))
    below = renorm(subst(below))
    d = sym.sub(("attr", apexp, "n"), ("attr", posp, "n"))
    two_d = ("op", "pow", (num(2), d))
    forms = []
    for shift in (lambda v: ("op", "floordiv", (v, two_d)), lambda v: ("op", "rshift", (v, d))):
        eqx = sym.cmp("Eq", ("attr", posp, "x"), shift(("attr", apexp, "x")))
        eqy = sym.cmp("Eq", ("attr", posp, "y"), shift(("attr", apexp, "y")))
        for nonneg in (sym.cmp("LtE", num(0), ("attr", posp, "n")), sym.TRUE):
            forms.append(("op", "or", (below, ("op", "and", (nonneg, eqx, eqy)))))
    return any(boolalg.equiv(acc, w) is True for w in forms)
