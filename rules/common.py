"""Facts shared by several properties: discovery of parallel stages and the
binding of each stage to its worker function (DESIGN.md 2.4)."""
import ast

from sa import sym
from sa.cfg import CFG, enclosing_stmts
from sa.model import AnalysisError, callee, callee_attr, dotted, own_nodes, own_calls


class Stage:
    def __init__(self, func):
        self.func = func
        self.cfg = CFG(func.node)
        self.proc_call = None
        self.worker = None
        self.binding = {}       # worker param -> ast expr in the stage
        self.queues = {}        # var name -> constructor Call
        self.events = {}        # var name -> constructor Call
        self.proc_vars = set()
        self.worker_lists = set()

    @property
    def name(self):
        return self.func.short

    def worker_params_bound_to(self, names):
        out = []
        for p, e in self.binding.items():
            if isinstance(e, ast.Name) and e.id in names:
                out.append(p)
        return out

    def queue_params(self):
        return {p: e.id for p, e in self.binding.items() if isinstance(e, ast.Name) and e.id in self.queues}

    def event_params(self):
        return {p: e.id for p, e in self.binding.items() if isinstance(e, ast.Name) and e.id in self.events}


def _resolve_function(project, func, name_node):
    """Resolve a Name/Attribute used as a function value inside *func*."""
    d = dotted(name_node)
    if d is None:
        return None
    modname = func.module.name
    if "." not in d:
        q = modname + "." + d
        if q in project.funcs:
            return project.funcs[q]
        imp = project.imports(modname).get(d)
        if imp and imp[0] == "symbol":
            q = imp[1] + "." + imp[2]
            return project.funcs.get(q)
        # a statement spliced in from a helper of another module: its global names are that module's
        other = (getattr(func, "extern", None) or {}).get(d)
        if other and other != modname:
            if other + "." + d in project.funcs:
                return project.funcs[other + "." + d]
            imp = project.imports(other).get(d)
            if imp and imp[0] == "symbol":
                return project.funcs.get(imp[1] + "." + imp[2])
        return None
    head, rest = d.split(".", 1)
    if head == "self" and func.cls is not None and "." not in rest:
        q = "%s.%s.%s" % (modname, func.cls.name, rest)
        return project.funcs.get(q)
    imp = project.imports(modname).get(head)
    if imp and imp[0] == "module":
        return project.funcs.get(imp[1] + "." + rest)
    return None


# generators that are enumeration APIs in their own right (rules speak about loops over them) are not spliced into their callers
KEEP_GENERATORS = ("generate_pos", "generate_tiles", "generate_tiles_filtered", "generate_populated_positions", "_postfix_pos", "_postfix_corner",
                   "_generator", "_scan_hdus", "images", "descriptions")


def splice(project, func):
    sp = getattr(project, "spliced", None)
    return sp(func, keep=KEEP_GENERATORS) if sp is not None else func


def flatten(project, func, keep=()):
    """*func* with its procedure-like project helpers spliced in (model.inline_helpers) and, in the result, loops over generator
    helpers replaced by the helper's own loop -- also for a method called on some other object when its name is unique in the
    project (`desc.sub_tiling.generate_populated_slices(..)`).  For rules that compare the statement structure of two siblings
    (serial loop vs worker loop) after a maintainer moved their common body into shared helpers."""
    from sa.model import inline_helpers, inline_generators

    def resolve(owner, call):
        g = resolve_callee(project, owner, call)
        if g is None and isinstance(call.func, ast.Attribute):
            cands = [f_ for f_ in project.py_funcs() if f_.node.name == call.func.attr and f_.cls is not None and f_.parent is None]
            if len(cands) == 1:
                g = cands[0]
        if g is None or g.node.name in keep or g.qual == func.qual:
            return None
        return g
    try:
        out = inline_helpers(project, func, resolve)
        out = inline_generators(project, out, lambda owner, call: (lambda g: None if (g is None or g.node.name in KEEP_GENERATORS) else g)(resolve(owner, call)), depth=2)
        return out
    except Exception:
        return func


def class_methods_of(project, func, name_node):
    """{method name: Func} of the project class named by *name_node* (as seen from *func*'s module), or None."""
    d = dotted(name_node)
    if d is None:
        return None
    modname = func.module.name
    cands = []
    if "." not in d:
        cands.append(modname + "." + d)
        imp = project.imports(modname).get(d)
        if imp and imp[0] == "symbol":
            cands.append(imp[1] + "." + imp[2])
        # a function-level `from .mod import Cls`
        for n in own_nodes(func.node):
            if isinstance(n, ast.ImportFrom):
                for a in n.names:
                    if (a.asname or a.name) == d:
                        base = modname.rsplit(".", n.level)[0] if n.level else None
                        mod_ = (base + "." + n.module) if (base and n.module) else (n.module or base)
                        if mod_:
                            cands.append(mod_ + "." + a.name)
    else:
        head, rest = d.split(".", 1)
        imp = project.imports(modname).get(head)
        if imp and imp[0] == "module" and "." not in rest:
            cands.append(imp[1] + "." + rest)
    for q in cands:
        try:
            project.cls(q)
        except Exception:
            continue
        ms = {g.name: g for g in project.py_funcs() if g.cls is not None and g.parent is None and g.qual.rsplit(".", 1)[0] == q}
        return ms
    return None


def scalarized(project, func, only_worker_classes=True):
    """*func* with its local helper objects (worker pools / groups) taken apart: see sa.objinline.  Cached per project."""
    from sa import objinline
    cache = sym.project_cache(project, "scalarized")
    key = (func.qual, only_worker_classes, id(func.node))
    if key in cache:
        return cache[key][1]
    starters = worker_starters(project) if only_worker_classes else None

    def only(ms):
        return starters is None or any(g.qual in starters for g in ms.values())
    def cm_resolve(owner, call):
        g = resolve_callee(project, owner, call)
        return g if (g is not None and (starters is None or g.qual in starters)) else None
    out = objinline.inline_generator_cms(project, func, cm_resolve)
    out = objinline.scalarize(project, out, lambda node: class_methods_of(project, func, node), only=only)
    if out is not func:
        out = objinline.inline_local_closures(out)
    cache[key] = (func, out)          # keep *func* alive: the key holds the id of its node
    return out


def _tuple_elements(f, expr, depth=0):
    """The element expressions of a tuple-valued expression built from literals: a tuple / list display, a local name bound once
    to one, tuple(..) / list(..) of one, and `+` of such.  None when it is anything else."""
    if depth > 4:
        return None
    if isinstance(expr, (ast.Tuple, ast.List)):
        if any(isinstance(e, ast.Starred) for e in expr.elts):
            out = []
            for e in expr.elts:
                if isinstance(e, ast.Starred):
                    sub = _tuple_elements(f, e.value, depth + 1)
                    if sub is None:
                        return None
                    out.extend(sub)
                else:
                    out.append(e)
            return out
        return list(expr.elts)
    if isinstance(expr, ast.Name):
        defs = [n for n in own_nodes(f.node) if isinstance(n, ast.Assign) and len(n.targets) == 1 and isinstance(n.targets[0], ast.Name) and n.targets[0].id == expr.id]
        stores = [n for n in own_nodes(f.node) if isinstance(n, ast.Name) and n.id == expr.id and isinstance(n.ctx, ast.Store)]
        if len(defs) == 1 and len(stores) == 1:
            return _tuple_elements(f, defs[0].value, depth + 1)
        return None
    if isinstance(expr, ast.Call) and isinstance(expr.func, ast.Name) and expr.func.id in ("tuple", "list") and len(expr.args) == 1 and not expr.keywords:
        return _tuple_elements(f, expr.args[0], depth + 1)
    if isinstance(expr, ast.BinOp) and isinstance(expr.op, ast.Add):
        a, b = _tuple_elements(f, expr.left, depth + 1), _tuple_elements(f, expr.right, depth + 1)
        if a is None or b is None:
            return None
        return a + b
    return None


def as_generator_cm(project, func):
    """*func* if it is a generator; if it returns an instance of a project context-manager class instead, the equivalent generator
    (sa.objinline.cm_class_as_generator); else *func* unchanged."""
    from sa import objinline
    try:
        g = objinline.cm_class_as_generator(project, func, lambda node: class_methods_of(project, func, node))
    except Exception:
        g = None
    return g or func


def discover_stages(project):
    """Every function containing ``<mp>.Process(target=F, args=(...))``."""
    stages = []
    # helpers that start the worker processes for their caller: `Process(target=<a parameter>, args=<a parameter>)`
    starters = set()
    for g in project.py_funcs():
        ps = set(g.params())
        for c in own_calls(g.node):
            if callee_attr(c) == "Process":
                tg = [k.value for k in c.keywords if k.arg == "target"]
                if tg and isinstance(tg[0], ast.Name) and tg[0].id in ps:
                    starters.add(g.qual)
    pool_methods = set()         # methods of pool classes are analysed inside the functions that use the pool, not on their own
    for f in sorted(project.py_funcs(), key=lambda f: f.qual):
        if f.qual in starters:
            continue
        if f.cls is not None and f.name == "__init__" and any(callee_attr(c) == "Process" for c in own_calls(f.node)) \
                and any(isinstance(k.value, ast.Name) and k.value.id in f.params() for c in own_calls(f.node) if callee_attr(c) == "Process" for k in c.keywords if k.arg == "target"):
            continue
        if starters and any((lambda t: t is not None and t.qual in starters)(resolve_callee(project, f, c)) for c in own_calls(f.node)):
            # splice the starter into its caller: the stage is the function that owns the queues and the shutdown
            from sa.model import inline_helpers
            f = inline_helpers(project, f, lambda owner, call: (lambda t: t if (t is not None and t.qual in starters) else None)(resolve_callee(project, owner, call)))
        # a pool / group object that bundles start-up, hand-over and shutdown is taken apart into the function that uses it
        f = scalarized(project, f)
        procs = [c for c in own_calls(f.node) if callee_attr(c) == "Process"
                 and any(k.arg == "target" for k in c.keywords)]
        if not procs:
            continue
        # loops over generator helpers (leaf iterators, receive loops) are analysed as the helper's own loop
        f = splice(project, f)
        procs = [c for c in own_calls(f.node) if callee_attr(c) == "Process"
                 and any(k.arg == "target" for k in c.keywords)]
        for pc in procs:
            st = Stage(f)
            st.project = project
            st.proc_call = pc
            tgt = [k.value for k in pc.keywords if k.arg == "target"][0]
            st.worker = _resolve_function(project, f, tgt)
            if st.worker is None and isinstance(tgt, ast.Name):
                # target=<local bound once to a function> (e.g. the parameter of a spliced-in starter helper)
                defs_ = [n for n in own_nodes(f.node) if isinstance(n, ast.Assign) and len(n.targets) == 1
                         and isinstance(n.targets[0], ast.Name) and n.targets[0].id == tgt.id]
                if len(defs_) == 1:
                    st.worker = _resolve_function(project, f, defs_[0].value)
            if st.worker is not None:
                w0 = st.worker
                st.worker = splice(project, st.worker)
                if not any(isinstance(n, (ast.For, ast.While)) for n in own_nodes(st.worker.node)):
                    # the worker hands its receive loop (a generator over the queue) to a shared body function: flatten both
                    w2 = flatten(project, w0)
                    if any(isinstance(n, (ast.For, ast.While)) for n in own_nodes(w2.node)):
                        # a handler handed to a serving helper (`serve(queue, flag, lambda item: callback(*item))`) is called where it is used
                        from sa import objinline as _oi
                        try:
                            w2 = _oi.inline_local_closures(w2)
                        except Exception:
                            pass
                        st.worker = w2
            args = [k.value for k in pc.keywords if k.arg == "args"]
            if args and not isinstance(args[0], (ast.Tuple, ast.List)):
                # args=<local name bound once to a tuple literal>, (q, ev) + tuple(extra), ...
                elts = _tuple_elements(f, args[0])
                if elts is not None:
                    args = [ast.copy_location(ast.Tuple(elts=elts, ctx=ast.Load()), args[0])]
            if st.worker is not None and args and isinstance(args[0], (ast.Tuple, ast.List)):
                for p, e in zip(st.worker.params(), args[0].elts):
                    st.binding[p] = e
            for n in own_nodes(f.node):
                if isinstance(n, ast.Assign) and isinstance(n.value, ast.Call) and len(n.targets) == 1 \
                        and isinstance(n.targets[0], ast.Name):
                    ca = callee_attr(n.value)
                    if ca in ("Queue", "JoinableQueue", "SimpleQueue"):
                        st.queues[n.targets[0].id] = n.value
                    elif ca == "Event":
                        st.events[n.targets[0].id] = n.value
                    elif ca == "Process":
                        st.proc_vars.add(n.targets[0].id)
            for c in own_calls(f.node):
                if callee_attr(c) == "append" and isinstance(c.func, ast.Attribute) \
                        and isinstance(c.func.value, ast.Name) and c.args \
                        and isinstance(c.args[0], ast.Name) and c.args[0].id in st.proc_vars:
                    st.worker_lists.add(c.func.value.id)
            # `workers = <the list filled above>` (e.g. the value a spliced-in starter helper returns)
            for _round in range(2):
                for n in own_nodes(f.node):
                    if isinstance(n, ast.Assign) and len(n.targets) == 1 and isinstance(n.targets[0], ast.Name) and isinstance(n.value, ast.Name) \
                            and n.value.id in st.worker_lists:
                        st.worker_lists.add(n.targets[0].id)
            stages.append(st)
    return stages


def method_calls_on(cfg, varnames, attr):
    """CFG nodes that call ``<var>.<attr>(...)`` for var in varnames -> [(node, call)]."""
    out = []
    for n in cfg.nodes:
        for c in cfg.calls_at(n):
            if isinstance(c.func, ast.Attribute) and c.func.attr == attr \
                    and isinstance(c.func.value, ast.Name) and c.func.value.id in varnames:
                out.append((n, c))
    return out


def get_call_info(call):
    """Classify a queue ``get`` call: ('timeout'|'blocking'|'nonblocking')."""
    if callee_attr(call) == "get_nowait":
        return "nonblocking"
    kw = {k.arg: k.value for k in call.keywords}
    block = call.args[0] if call.args else kw.get("block")
    timeout = call.args[1] if len(call.args) > 1 else kw.get("timeout")
    if block is not None and isinstance(block, ast.Constant) and block.value is False:
        return "nonblocking"
    if timeout is not None and not (isinstance(timeout, ast.Constant) and timeout.value is None):
        return "timeout"
    return "blocking"


def put_call_info(call, queue_ctor):
    """('bounded-blocking'|'unbounded'|'timeout'|'nonblocking') for q.put(...)."""
    if callee_attr(call) == "put_nowait":
        return "nonblocking"
    kw = {k.arg: k.value for k in call.keywords}
    block = call.args[1] if len(call.args) > 1 else kw.get("block")
    timeout = call.args[2] if len(call.args) > 2 else kw.get("timeout")
    if block is not None and isinstance(block, ast.Constant) and block.value is False:
        return "nonblocking"
    if timeout is not None and not (isinstance(timeout, ast.Constant) and timeout.value is None):
        return "timeout"
    bounded = False
    if queue_ctor is not None:
        if queue_ctor.args:
            bounded = True
        for k in queue_ctor.keywords:
            if k.arg == "maxsize":
                bounded = True
    if bounded and queue_ctor is not None:
        ms = queue_ctor.args[0] if queue_ctor.args else [k.value for k in queue_ctor.keywords if k.arg == "maxsize"][0]
        if isinstance(ms, ast.Constant) and isinstance(ms.value, int) and ms.value <= 0:
            bounded = False
    return "bounded-blocking" if bounded else "unbounded"


def handler_catches(handler, name):
    """Does an ``except`` clause catch exception class *name* (by last component)?"""
    t = handler.type
    if t is None:
        return True
    elts = t.elts if isinstance(t, ast.Tuple) else [t]
    for e in elts:
        d = dotted(e)
        if d and d.split(".")[-1] in (name, "Exception", "BaseException"):
            return True
    return False


def handler_catches_class(handler, name):
    """Like handler_catches, with the hierarchy of the built-in exceptions: does the clause catch an exception of class *name*
    (`except OSError` catches ChildProcessError, FileNotFoundError, ...)?  Unknown (project-defined) classes are caught only by
    their own name, Exception, BaseException or a bare except."""
    import builtins
    t = handler.type
    if t is None:
        return True
    raised = getattr(builtins, name, None)
    elts = t.elts if isinstance(t, ast.Tuple) else [t]
    for e in elts:
        d = (dotted(e) or "").split(".")[-1]
        if d in (name, "BaseException"):
            return True
        caught = getattr(builtins, d, None)
        if isinstance(raised, type) and isinstance(caught, type) and issubclass(raised, BaseException) and issubclass(caught, BaseException):
            if issubclass(raised, caught):
                return True
        elif d == "Exception":
            return True
    return False


def raised_classes(project, func, depth=0):
    """Names of the exception classes a project function raises itself (`raise X(...)` / `raise X`), helpers included (depth <= 2)."""
    out = set()
    for n in own_nodes(func.node):
        if isinstance(n, ast.Raise) and n.exc is not None:
            e = n.exc.func if isinstance(n.exc, ast.Call) else n.exc
            d = dotted(e)
            if d:
                out.add(d.split(".")[-1])
        if isinstance(n, ast.Call) and depth < 2:
            t = _resolve_function(project, func, n.func)
            if t is not None and t is not func:
                out |= raised_classes(project, t, depth + 1)
    return out


def callers_of(project, func):
    """(caller Func, Call) pairs for direct calls of *func* by name or self.method."""
    out = []
    for f in project.py_funcs():
        for c in own_calls(f.node):
            tgt = _resolve_function(project, f, c.func)
            if tgt is func or (tgt is not None and tgt.qual == func.qual):      # (func may be a spliced copy)
                out.append((f, c))
    return out


def resolve_callee(project, func, call):
    return _resolve_function(project, func, call.func)


# ---------------------------------------------------------------------------
# effect summaries of project helper functions (wrapper recognition)



def summarize(project, func, depth=0):
    """{param name: set(effects)} for a project function, where an effect is a
    method called on the parameter ('put', 'get', 'set', 'close', 'join', ...),
    'each:<m>' for a method called / attribute read on every element obtained by
    iterating the parameter, or 'attr:<a>' for an attribute read.  Effects of
    nested project helpers are merged in (depth <= 2).  'raises' is recorded
    under the pseudo-parameter '<fn>'."""
    cache = sym.project_cache(project, "effect-summaries")
    key = func.qual
    if key in cache:
        return cache[key]
    params = func.params()
    eff = {p: set() for p in params}
    eff["<fn>"] = set()
    cache[key] = eff
    aliases = {}  # loop var -> iterated param
    for n in own_nodes(func.node):
        it_ = getattr(n, "iter", None)
        # a snapshot of the list (list(ws), tuple(ws), ws[:], reversed(ws), sorted(ws)) walks the same workers
        if isinstance(it_, ast.Call) and isinstance(it_.func, ast.Name) and it_.func.id in ("list", "tuple", "reversed", "sorted") and len(it_.args) == 1 and not it_.keywords:
            it_ = it_.args[0]
        elif isinstance(it_, ast.Subscript) and isinstance(it_.slice, ast.Slice) and it_.slice.lower is None and it_.slice.upper is None and it_.slice.step is None:
            it_ = it_.value
        if isinstance(n, (ast.For, ast.comprehension)) and isinstance(n.target, ast.Name) \
                and isinstance(it_, ast.Name) and it_.id in eff:
            aliases[n.target.id] = it_.id
    # only statements from which the helper can still return normally count: an effect that is
    # always followed by a raise (e.g. "set the flag, then raise") is not an effect of a normal return
    cfg = CFG(func.node)
    live = cfg.reachable(cfg.exit.id, skip_labels=("exc",), forward=False) | {cfg.exit.id}
    normal_nodes = set()
    for cn in cfg.nodes:
        if cn.id in live:
            for e in cfg.expr_of(cn):
                for x in ast.walk(e):
                    normal_nodes.add(id(x))
    for n in own_nodes(func.node):
        if isinstance(n, ast.Raise):
            eff["<fn>"].add("raises")
        if id(n) not in normal_nodes and not isinstance(n, ast.Raise):
            # attribute reads still matter for status inspection (exitcode read before a raise)
            if isinstance(n, ast.Attribute) and isinstance(n.value, ast.Name):
                v = n.value.id
                if v in params:
                    eff[v].add("attr:" + n.attr)
                elif v in aliases:
                    eff[aliases[v]].add("each:attr:" + n.attr)
            continue
        if isinstance(n, ast.Attribute) and isinstance(n.value, ast.Name):
            v = n.value.id
            if v in params:
                eff[v].add("attr:" + n.attr)
            elif v in aliases:
                eff[aliases[v]].add("each:attr:" + n.attr)
        if isinstance(n, ast.Call):
            if isinstance(n.func, ast.Attribute) and isinstance(n.func.value, ast.Name):
                v = n.func.value.id
                if v in params:
                    eff[v].add(n.func.attr)
                    if n.func.attr in ("put", "get"):
                        eff[v].add(n.func.attr + ":" + (put_call_info(n, None) if n.func.attr == "put" else get_call_info(n)))
                    if n.func.attr in ("put", "put_nowait") and n.args and isinstance(n.args[0], ast.Name) \
                            and n.args[0].id in params:
                        eff[n.args[0].id].add("is-put-item")
                elif v in aliases:
                    eff[aliases[v]].add("each:" + n.func.attr)
            if depth < 2:
                tgt = _resolve_function(project, func, n.func)
                if tgt is not None and tgt is not func:
                    sub = summarize(project, tgt, depth + 1)
                    for i, a in enumerate(n.args):
                        if isinstance(a, ast.Name) and a.id in eff and i < len(tgt.params()):
                            eff[a.id] |= sub.get(tgt.params()[i], set())
                    for k in n.keywords:
                        if isinstance(k.value, ast.Name) and k.value.id in eff and k.arg in sub:
                            eff[k.value.id] |= sub[k.arg]
                    if "raises" in sub.get("<fn>", ()):
                        eff["<fn>"].add("raises")
    return eff


def helper_effects(project, func, call):
    """For a call inside *func* to a project helper: {caller variable name: effects}."""
    tgt = _resolve_function(project, func, call.func)
    if tgt is None:
        return None, {}
    sub = summarize(project, tgt)
    out = {}
    tp = tgt.params()
    if tgt.cls is not None and tp and tp[0] in ("self", "cls"):
        tp = tp[1:]
    for i, a in enumerate(call.args):
        if isinstance(a, ast.Name) and i < len(tp):
            out.setdefault(a.id, set()).update(sub.get(tp[i], set()))
    for k in call.keywords:
        if isinstance(k.value, ast.Name) and k.arg in sub:
            out.setdefault(k.value.id, set()).update(sub[k.arg])
    return tgt, out


def effect_sites(project, func, cfg, varnames, effect):
    """CFG nodes where *effect* happens to one of *varnames*: a direct method
    call ``v.effect(...)`` or a call of a project helper whose summary has the
    effect on the parameter bound to v.  Returns [(node, call, via_helper)]."""
    out = []
    varnames = set(varnames)
    for n in cfg.nodes:
        for c in cfg.calls_at(n):
            if isinstance(c.func, ast.Attribute) and c.func.attr == effect \
                    and isinstance(c.func.value, ast.Name) and c.func.value.id in varnames:
                out.append((n, c, None))
                continue
            tgt, effs = helper_effects(project, func, c)
            if tgt is not None:
                for v, es in effs.items():
                    if v in varnames and effect in es:
                        out.append((n, c, tgt))
                        break
    return out


def streams(r):
    """What a generator yields, as (path condition, stream term, node) in program order: `yield from X` and
    `for i in X: yield i` both give X; a plain `yield v` gives the one-element stream (v,)."""
    out = []
    loops = {k: it for k, it, n in r.loops}
    for pc, v, n in r.yields:
        if v[0] == "star":
            out.append((pc, v[1], n))
            continue
        inner = [c[1] for c in pc if c[0] == "loop"]
        if inner and v == ("elem", loops.get(inner[-1])):
            k = inner[-1]
            i = pc.index(("loop", k))
            if i == len(pc) - 1:
                out.append((pc[:i], loops[k], n))
                continue
        out.append((pc, ("tuple", (v,)), n))
    return out


def delegate(run, rule, sub_prop, fn, only_rules=None, note=""):
    """Run rules that belong to another property as premises of this one: their obligations are re-labelled *rule*
    (kind prefixed with the original rule id) so that a violation of the premise is reported by this property's check."""
    from sa import report
    sub = report.Run(sub_prop, run.project, run.tier)
    fn(sub)
    n = 0
    for o in sub.obs:
        if only_rules is not None and o.rule not in only_rules:
            continue
        o.kind = ("%s:%s" % (o.rule, o.kind)) if o.kind else ""
        o.rule = rule
        if note and o.msg:
            o.msg = "%s [%s]" % (o.msg, note)
        run.obs.append(o)
        n += 1
    run.analysed_funcs |= sub.analysed_funcs
    return n


# ---------------------------------------------------------------------------
# an option the caller has in hand reaches every callee that takes it

def option_forwarding(run, rule, name, modules, consequence):
    """For every call in *modules* whose (resolved) callee has a parameter *name*: a caller that holds the option itself -- a
    parameter of that name, or `self.<name>` set from one by its constructor -- passes it on (keyword, positional or through
    its keyword dictionary).  Leaving it out silently selects the callee's default.  Returns the number of call sites examined."""
    from sa import sym as _sym
    project = run.project
    n = 0
    for f in project.py_funcs():
        if f.module.name not in modules or "/tests/" in (f.module.relpath or ""):
            continue
        holds_it = name in f.params() or any(isinstance(x, ast.Attribute) and x.attr == name and isinstance(x.value, ast.Name) and x.value.id == "self"
                                              for x in own_nodes(f.node))
        if not holds_it and f.cls is not None:
            holds_it = any(isinstance(x, ast.Attribute) and x.attr == name and isinstance(x.value, ast.Name) and x.value.id == "self" and isinstance(x.ctx, ast.Store)
                           for g in project.py_funcs() if g.cls is f.cls for x in own_nodes(g.node))
        calls = [c for c in own_calls(f.node)]
        if not calls:
            continue
        ev = _sym.make_evaluator(project, f.module.name, [])
        ev.self_class = (f.module.name + "." + f.cls.name) if f.cls is not None else None
        try:
            r = ev.run(f.node)
        except Exception:
            continue
        for e in r.events:
            if e.kind != "call":
                continue
            g, binding = ev.bound_args(e.term)
            if g is None or name not in g.params() + [x.arg for x in g.node.args.kwonlyargs]:
                continue
            n += 1
            run.call_sites += 1
            run.note_func(f)
            star = [v for k, v in e.term[3] if k == "**"]
            if binding is None:
                run.undecided(rule, f, e.node, "cannot bind the arguments of %s" % show(e.term)[:80], kind="option-binding-" + name)
            elif name in binding or star:
                run.holds(rule, f, e.node, "%s passes %s on to %s" % (f.short, name, g.short), option=name)
            elif holds_it:
                run.violated(rule, f, e.node, "%s calls %s without the `%s` setting it holds: the callee uses its default, %s" % (f.short, g.short, name, consequence),
                             kind="option-dropped-" + name, option=name)
            else:
                run.holds(rule, f, e.node, "%s has no `%s` of its own; %s uses its documented default" % (f.short, name, g.short), option=name)
    return n


# ---------------------------------------------------------------------------
# who starts worker processes (transitively), and which `with` blocks keep them alive

def _class_entry_funcs(project, func, name_node):
    """Functions run by `Name(...)` when Name is a project class: __init__ and __enter__."""
    d = dotted(name_node)
    if d is None or "." in d:
        return []
    modname = func.module.name
    cands = [modname + "." + d]
    imp = project.imports(modname).get(d)
    if imp and imp[0] == "symbol":
        cands.append(imp[1] + "." + imp[2])
    out = []
    for q in cands:
        for m in ("__init__", "__enter__"):
            g = project.funcs.get(q + "." + m)
            if g is not None:
                out.append(g)
    return out


def worker_starters(project):
    """{qual} of the project functions that start worker processes, directly (`<Process(..)>.start()`) or through project
    functions / constructors / context managers they call.  Cached on the project."""
    from sa import sym as _sym
    cache = _sym.project_cache(project, "worker_starters")
    if "v" in cache:
        return cache["v"]
    direct = set()
    calls = {}
    for f in project.py_funcs():
        if "/tests/" in f.module.relpath:
            continue
        src_has_process = any(isinstance(c.func, (ast.Name, ast.Attribute)) and (dotted(c.func) or "").split(".")[-1] == "Process" for c in own_calls(f.node))
        starts = any(isinstance(c.func, ast.Attribute) and c.func.attr == "start" for c in own_calls(f.node))
        if src_has_process and starts:
            direct.add(f.qual)
        outs = set()
        for c in own_calls(f.node):
            g = resolve_callee(project, f, c)
            if g is not None:
                outs.add(g.qual)
            for g2 in _class_entry_funcs(project, f, c.func):
                outs.add(g2.qual)
        calls[f.qual] = outs
    closure = set(direct)
    changed = True
    while changed:
        changed = False
        for q, outs in calls.items():
            if q not in closure and outs & closure:
                closure.add(q)
                changed = True
    cache["v"] = closure
    return closure


def live_worker_withs(project, func, node):
    """The `with` statements of *func* that enclose *node* and whose context manager starts worker processes (a pool class, a
    @contextmanager helper that starts them): inside such a block the workers are alive.  -> [(with stmt, description)]"""
    starters = worker_starters(project)
    out = []
    for w in [n for n in own_nodes(func.node) if isinstance(n, (ast.With, ast.AsyncWith))]:
        inside = any(x is node for b in w.body for x in ast.walk(b))
        if not inside:
            continue
        for item in w.items:
            ce = item.context_expr
            if not isinstance(ce, ast.Call):
                continue
            g = resolve_callee(project, func, ce)
            tg = [g] if g is not None else []
            tg += _class_entry_funcs(project, func, ce.func)
            hit = [t for t in tg if t.qual in starters]
            if hit:
                out.append((w, "%s (line %d), which starts worker processes in %s" % (ast.unparse(ce.func), w.lineno, hit[0].short)))
    return out


# ---------------------------------------------------------------------------
# pairing by position after filtering: zip(TABLE, filtered) shifts every element behind a dropped one

def _filtering_producer(project, func, expr, depth=0):
    """Why *expr* (an operand of zip) may be shorter than the sequence it was made from: a comprehension with a condition,
    filter(..), or a project generator that yields under a condition inside its loop; looks through list()/tuple() and one
    single assignment of a local name.  -> reason string or None."""
    if depth > 4:
        return None
    if isinstance(expr, ast.Call) and isinstance(expr.func, ast.Name) and expr.func.id in ("list", "tuple", "iter", "reversed") and len(expr.args) == 1:
        return _filtering_producer(project, func, expr.args[0], depth + 1)
    if isinstance(expr, (ast.ListComp, ast.GeneratorExp)):
        if any(g.ifs for g in expr.generators):
            return "a comprehension with a condition (line %d)" % expr.lineno
        return _filtering_producer(project, func, expr.generators[0].iter, depth + 1)      # one element per element of its source
    if isinstance(expr, ast.Call) and isinstance(expr.func, ast.Name) and expr.func.id in ("map", "enumerate", "sorted") and expr.args:
        return _filtering_producer(project, func, expr.args[-1], depth + 1)
    if isinstance(expr, ast.Call) and isinstance(expr.func, ast.Name) and expr.func.id == "filter":
        return "filter(..) (line %d)" % expr.lineno
    if isinstance(expr, ast.Call):
        g = resolve_callee(project, func, expr)
        if g is not None:
            for lp in [n for n in own_nodes(g.node) if isinstance(n, (ast.For, ast.While))]:
                for n in ast.walk(lp):
                    if isinstance(n, ast.If) and any(isinstance(y, (ast.Yield, ast.YieldFrom)) for b in n.body + n.orelse for y in ast.walk(b)):
                        uncond = [st for st in lp.body if isinstance(st, ast.Expr) and isinstance(st.value, ast.Yield)]
                        if not uncond:
                            return "%s, which yields only the elements passing `%s` (line %d)" % (g.short, ast.unparse(n.test)[:50], n.lineno)
            rets = [n for n in own_nodes(g.node) if isinstance(n, ast.Return) and n.value is not None]
            if len(rets) == 1 and not any(isinstance(n, (ast.Yield, ast.YieldFrom)) for n in own_nodes(g.node)):
                return _filtering_producer(project, g, rets[0].value, depth + 1)
        return None
    if isinstance(expr, ast.Name):
        asg = [n for n in own_nodes(func.node) if isinstance(n, ast.Assign) and len(n.targets) == 1 and isinstance(n.targets[0], ast.Name) and n.targets[0].id == expr.id]
        if len(asg) == 1:
            return _filtering_producer(project, func, asg[0].value, depth + 1)
        # a list filled by a guarded append in a loop
        for lp in [n for n in own_nodes(func.node) if isinstance(n, ast.For)]:
            for n in ast.walk(lp):
                if isinstance(n, ast.If):
                    for c in ast.walk(n):
                        if isinstance(c, ast.Call) and isinstance(c.func, ast.Attribute) and c.func.attr == "append" and isinstance(c.func.value, ast.Name) \
                                and c.func.value.id == expr.id:
                            plain = [st for st in lp.body if isinstance(st, ast.Expr) and isinstance(st.value, ast.Call) and isinstance(st.value.func, ast.Attribute)
                                     and st.value.func.attr == "append" and isinstance(st.value.func.value, ast.Name) and st.value.func.value.id == expr.id]
                            if not plain:
                                return "`%s`, appended to only under `%s` (line %d)" % (expr.id, ast.unparse(n.test)[:50], n.lineno)
    return None


def misaligned_zips(project, func):
    """[(zip call, filtered operand text, reason, other operand text)] for zip(..) calls of *func* in which one operand was
    filtered and another was not: zip pairs by position, so each element behind a dropped one meets the wrong partner."""
    out = []
    for c in own_calls(func.node):
        if isinstance(c.func, ast.Name) and c.func.id == "zip" and len(c.args) >= 2 and not any(isinstance(a, ast.Starred) for a in c.args):
            why = [_filtering_producer(project, func, a) for a in c.args]
            # the unfiltered partner must be a sequence that certainly was not derived from the filtered one: a literal, a
            # constant table of the module, an attribute of the object
            local = {a.arg for a in func.node.args.args} | {n.id for n in own_nodes(func.node) if isinstance(n, ast.Name) and isinstance(n.ctx, ast.Store)}
            fixed = [isinstance(a, (ast.Tuple, ast.List, ast.Attribute)) or (isinstance(a, ast.Name) and a.id not in local) for a in c.args]
            if any(why) and [k for k, w in enumerate(why) if not w and fixed[k]]:
                i = [k for k, w in enumerate(why) if w][0]
                j = [k for k, w in enumerate(why) if not w and fixed[k]][0]
                out.append((c, ast.unparse(c.args[i])[:60], why[i], ast.unparse(c.args[j])[:60]))
    return out


# ---------------------------------------------------------------------------
# discarded futures: errors raised by tasks handed to a concurrent.futures executor surface only when the result is asked for

def discarded_futures_in(fnode):
    """[(call node, executor name, method)] for `pool.map(..)` / `pool.submit(..)` whose value is thrown away, where `pool` is bound
    to a `*PoolExecutor(...)` in this function (with-statement or assignment).  `Executor.map` is lazy: an exception raised by a
    task is re-raised only when the result iterator is consumed; a discarded `submit` future never reports its exception."""
    pools = set()
    for n in ast.walk(fnode):
        if isinstance(n, ast.With):
            for it in n.items:
                if isinstance(it.context_expr, ast.Call) and (dotted(it.context_expr.func) or "").split(".")[-1].endswith("PoolExecutor") \
                        and isinstance(it.optional_vars, ast.Name):
                    pools.add(it.optional_vars.id)
        if isinstance(n, ast.Assign) and isinstance(n.value, ast.Call) and (dotted(n.value.func) or "").split(".")[-1].endswith("PoolExecutor"):
            for t in n.targets:
                if isinstance(t, ast.Name):
                    pools.add(t.id)
    out = []
    for n in ast.walk(fnode):
        if isinstance(n, ast.Expr) and isinstance(n.value, ast.Call) and isinstance(n.value.func, ast.Attribute) \
                and n.value.func.attr in ("map", "submit") and isinstance(n.value.func.value, ast.Name) and n.value.func.value.id in pools:
            out.append((n.value, n.value.func.value.id, n.value.func.attr))
    return out


def check_discarded_futures(run, rule, funcs, what):
    """Apply the rule to *funcs*; returns the number of executor uses seen (also the consumed ones)."""
    n = 0
    for f in funcs:
        if f.module.kind != "py":
            continue
        uses = [c for c in ast.walk(f.node) if isinstance(c, ast.Call) and isinstance(c.func, ast.Attribute) and c.func.attr in ("map", "submit")
                and isinstance(c.func.value, ast.Name)]
        bad = discarded_futures_in(f.node)
        n += len(bad)
        for call, pool, meth in bad:
            run.note_func(f)
            run.violated(rule, f, call, "%s: the result of %s.%s(...) is thrown away, so an exception raised by a task is never re-raised in the caller: %s" % (
                f.short, pool, meth, what), kind="task-errors-dropped")
    return n


_FUTURES_EXAMPLE = """
def send_all(names, put_one):
    from concurrent.futures import ThreadPoolExecutor
    with ThreadPoolExecutor(max_workers=4) as pool:
        pool.map(put_one, names)
"""


def discarded_futures_selfcheck():
    tree = ast.parse(_FUTURES_EXAMPLE)
    return len(discarded_futures_in(tree.body[0])) == 1



# ---------------------------------------------------------------------------
# "the object escaped": a rule that concludes "X is never done to <object>" from the events of one function is wrong when
# the object was handed to a project helper the evaluator did not follow -- the verdict is then UNDECIDED, not VIOLATED

_LIBRARY_METHOD_NAMES = {"get", "set", "setdefault", "update", "append", "extend", "pop", "keys", "items", "values", "copy", "close", "open",
                         "read", "write", "format", "join", "split", "strip", "index", "count", "fill", "astype", "reshape", "sum", "any", "all"}


def project_names(project):
    tab = sym.project_cache(project, "defined-names")
    if not tab:
        for q, fn in project.funcs.items():
            tab.setdefault(fn.node.name, []).append(fn)
        for q in getattr(project, "classes", {}):
            tab.setdefault(q.rsplit(".", 1)[-1], [])
        tab.setdefault("<built>", [])
    return tab


def unfollowed_project_calls(project, term):
    """Sub-terms of *term* that are calls of something the project defines and that the evaluator left as calls (not inlined): what
    they return is unknown, so a comparison of such a term with an expected form decides nothing."""
    names = project_names(project)
    out = []

    def walk(t):
        if isinstance(t, tuple):
            if t and t[0] == "call" and len(t) == 4:
                f = t[1]
                nm = f[1] if f[0] == "sym" else (f[2] if f[0] == "attr" else None)
                lib = f[0] == "attr" and f[1] in (("sym", "np"), ("sym", "numpy"), ("sym", "math"), ("sym", "os"), ("sym", "u"))
                if nm in names and nm not in _LIBRARY_METHOD_NAMES and not lib:
                    out.append(t)
            for x in t:
                if isinstance(x, tuple):
                    walk(x)
    walk(term)
    return out


def opaque_project_calls(project, result, objs):
    """Call events of an evaluation that were *not* inlined, whose callee is named like something the project defines, and
    that receive one of *objs* (terms) as receiver or (part of an) argument."""
    names = project_names(project)
    objs = [o for o in objs if o is not None]
    out = []
    for e in result.events:
        if e.kind != "call" or e.extra is not None:
            continue
        t = e.term
        if t[0] != "call":
            continue
        f = t[1]
        nm = f[1] if f[0] == "sym" else (f[2] if f[0] == "attr" else None)
        if nm is None or nm in _LIBRARY_METHOD_NAMES or nm not in names or nm == "<built>":
            continue
        parts = list(t[2]) + [v for _k, v in t[3]] + ([f[1]] if f[0] == "attr" else [])
        def mentions(x):
            if x in objs:
                return True
            return isinstance(x, tuple) and any(mentions(y) for y in x if isinstance(y, tuple))
        if any(mentions(p_) for p_ in parts):
            out.append(e)
    return out
