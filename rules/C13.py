"""C13 - Quadtree enumeration and tile counts are consistent and match what is visited.

R1 position algebra: pos_children / pos_parent mutually inverse in the documented order;
   is_subtile recurses through pos_parent to equal depth and compares x and y
R2 exactly-once post-order enumeration (generic and TOAST generators)
R3 generic sub-pyramid enumeration: (n, x, y) -> (n + na, x + ax*2**n, y + ay*2**n), then the
   apex's ancestors up to level 0; the reduced pyramid has depth - na levels
R4 closed forms 4**d and (4**(d+1)-1)//3 and the arguments they are called with
R5 reducer recurrences of the three counters; leaf visits and walk callbacks are issued under
   the predicates the counters count (serial walk, parallel preparation, seeding)
R6 no history-dependent state (memo tables keyed incompletely, shared scratch containers)
"""
import ast

from sa import sym, report, termdiff, boolalg
from sa.teval import agree
from sa.sym import show, num, num_value, atoms_of
from sa.cfg import CFG
from sa.model import dotted, own_calls, own_nodes
from . import memo, common
from . import C01 as c01

PYR = "toasty.pyramid"

EXPLANATION = (
    "Position algebra, the sub-pyramid offset map and the closed-form counts are compared as canonical terms with their "
    "specifications. The three counters are loops over the reduction iterator; the value each hands to set_data is a "
    "term over (is_leaf, data[0..3]) that is compared with the recurrences leaf->1 / sum; leaf->1 / sum (+1 if non-zero); "
    "leaf->(True, 0) / (any, sum (+1 if any)). Leaf visits must call the callback exactly under is_leaf; the serial walk "
    "and the parallel preparation loop must use the same liveness/operation recurrences (so that what is counted is what "
    "is visited), and C01's seeding/release premises are re-applied. By structural induction over the quadtree these give "
    "operations + leaves = live and count = visits for every filter and apex. The iterator's level bookkeeping is runtime "
    "state and is not decided."
)

MANIFEST = {
    "technique": "static analysis: canonical-term comparison of position algebra / offset map / closed forms with specification terms; reducer recurrences compared with their specification by exhaustive evaluation of the extracted terms on a complete finite grid; counterexample search for unknown ancestor tests over levels 0-3; sibling agreement between counters, serial walk and parallel preparation; memo-key dependence analysis (tables, attribute caches with their writers); keyed attribute caches: every field the caching method reads itself is part of the key",
    "text": "Decides the algebraic premises under which counts equal visits and ops + leaves = live for all filters and apexes (structural induction in DESIGN.md).",
    "note": "Trusted: Python integer arithmetic. Not decided: level bookkeeping of PyramidReductionIterator (_ensure_levels / pop) for arbitrary filter shapes.",
}


def run(run):
    run.explanation = EXPLANATION
    run.undecided_clauses += ["level bookkeeping of the reduction iterator (runtime state guarded by its own asserts)"]
    for r, n in (("C13.R1", 3), ("C13.R2", 2), ("C13.R3", 3), ("C13.R4", 5), ("C13.R5", 6), ("C13.R6", 1)):
        run.floor(r, n)
    project = run.project
    ev = c01._ev(project)
    # R1 / R2: reuse C01's algebra and post-order rules under this property's ids
    sub = report.Run("C01", project, run.tier)
    c01._r1_algebra(sub, ev)
    c01._r6_serial(sub, ev)
    c01._dispatcher(sub, ev)
    c01._r8_subpyramid(sub, ev)
    for o in sub.obs:
        if o.rule == "C01.R1" and o.construct in ("pos_children", "pos_parent"):
            o.rule = "C13.R1"
        elif o.rule == "C01.R8":
            o.rule = "C13.R3"      # the sub-pyramid restriction: position filter AND user filter, iteration stops above the apex
        elif o.rule == "C01.R6" and o.construct in ("_postfix_pos", "_postfix_corner"):
            o.rule = "C13.R2"
        elif o.rule in ("C01.R3",) or (o.rule == "C01.R6" and o.construct == "Pyramid._walk_serial"):
            o.rule = "C13.R5"
        else:
            continue
        o.kind = (o.kind or "") and ("walk:" + o.kind)
        run.obs.append(o)
    run.analysed_funcs |= sub.analysed_funcs
    _r1_subtile(run, ev)
    _r3_subpyramid(run, ev)
    _r4_closed_forms(run, ev)
    _r5_reducers(run, ev)
    n = memo.check_module(run, "C13.R6", PYR)
    n += memo.check_keyed_attribute_caches(run, "C13.R6", PYR)
    if not memo.selfcheck():
        run.undecided("C13.R6", None, None, "memo rule self-check failed", kind="selfcheck", construct="<memo selfcheck>")
    if not [o for o in run.obs if o.rule == "C13.R6"]:
        run.holds("C13.R6", project.fn(PYR + ".Pyramid.count_operations"), None, "toasty.pyramid keeps no memo table / shared scratch container in its counters and "
                  "generators (0 uses); positive example flagged", table_uses=n)


def _r1_subtile(run, ev):
    project = run.project
    f = project.fn(PYR + ".is_subtile")
    run.note_func(f)
    ev0 = sym.make_evaluator(project, PYR, [PYR + ".pos_parent"])
    r = ev0.run(f.node)
    d, s = (("sym", p) for p in f.params())
    rets = [(pc, t) for pc, t, n in r.returns]
    eq = ("op", "and", (sym.cmp("Eq", ("attr", d, "x"), ("attr", s, "x")), sym.cmp("Eq", ("attr", d, "y"), ("attr", s, "y"))))
    parent = ("nt", "Pos", (ev0.expr("p.n - 1", {"p": d}), ev0.expr("p.x // 2", {"p": d}), ev0.expr("p.y // 2", {"p": d})))
    rec = ("call", ("sym", "is_subtile"), (parent, s), ())
    own = {id(n) for n in own_nodes(f.node)}
    raises = [e for e in r.events if e.kind == "raise" and id(e.node) in own]
    guard_ok = len(raises) == 1 and boolalg.equiv(boolalg.conj(raises[0].pc), sym.cmp("Lt", ("attr", d, "n"), ("attr", s, "n"))) is True
    verdict = None
    rec_rets = [(pc, t) for pc, t in rets if t[0] == "call" and t[1] == ("sym", "is_subtile")]
    eq_rets = [(pc, t) for pc, t in rets if not (t[0] == "call" and t[1] == ("sym", "is_subtile"))]
    if len(rec_rets) == 1 and len(eq_rets) == 1:
        # recursive form, in any statement order / polarity: under "deeper is not shallower than shallower",
        # same level -> compare x and y; otherwise -> the same question for the parent
        not_shallower = ("op", "not", (sym.cmp("Lt", ("attr", d, "n"), ("attr", s, "n")),))
        same_level = sym.cmp("Eq", ("attr", d, "n"), ("attr", s, "n"))
        ok = boolalg.equiv(eq_rets[0][1], eq) is True and rec_rets[0][1] == rec
        ok = ok and boolalg.equiv(boolalg.conj(eq_rets[0][0]), same_level, given=not_shallower) is True
        ok = ok and boolalg.equiv(boolalg.conj(rec_rets[0][0]), ("op", "not", (same_level,)), given=not_shallower) is True
        verdict = ok and guard_ok
    elif len(rets) == 1:
        # iterative form: cur = deeper; while cur.n != shallower.n: cur = parent(cur); return cur.x == s.x and cur.y == s.y
        t = rets[0][1]
        after = sorted({a for a in atoms_of(t) if a[0] == "sym" and "@A" in a[1]}, key=repr)
        if len(after) == 1:
            name, k = after[0][1].split("@A")
            cur = ("sym", "%s@L%s" % (name, k))
            want_ret = ("op", "and", (sym.cmp("Eq", ("attr", after[0], "x"), ("attr", s, "x")), sym.cmp("Eq", ("attr", after[0], "y"), ("attr", s, "y"))))
            wl = [it for kk, it, n in r.loops if str(kk) == k and it[0] == "op" and it[1] == "while"]
            cont = wl[0][2][0] if wl else None
            ne = sym.cmp("NotEq", ("attr", cur, "n"), ("attr", s, "n"))
            gt = sym.cmp("Gt", ("attr", cur, "n"), ("attr", s, "n"))
            cond_ok = cont is not None and (boolalg.equiv(cont, ne) is True or boolalg.equiv(cont, gt) is True)
            par = ("nt", "Pos", (ev0.expr("p.n - 1", {"p": cur}), ev0.expr("p.x // 2", {"p": cur}), ev0.expr("p.y // 2", {"p": cur})))
            steps = [e for e in r.events if e.kind == "assign" and e.term[1][0] == ("sym", name) and ("loop", int(k)) in e.pc]
            inits = [e for e in r.events if e.kind == "assign" and e.term[1][0] == ("sym", name) and ("loop", int(k)) not in e.pc]
            step_ok = len(steps) == 1 and steps[0].term[1][1] == par and not [c for c in steps[0].pc if c[0] != "loop" and cur in atoms_of(c[0])]
            init_ok = len(inits) == 1 and inits[0].term[1][1] == d
            verdict = boolalg.equiv(t, want_ret) is True and cond_ok and step_ok and init_ok and guard_ok
    if verdict is True:
        run.holds("C13.R1", f, None, "is_subtile: climb from the deeper position to the level of the shallower one (parent by parent), then same x and y; shallower -> error")
    elif verdict is False:
        run.violated("C13.R1", f, None, "is_subtile is not `n equal: x == x and y == y; else the same question for pos_parent(deeper)[0]` (returns: %s)" %
                     [show(t)[:80] for pc, t in rets], kind="is-subtile")
    else:
        # unknown shape: search the positions of levels 0..4 for a pair on which the returned value is wrong (a counterexample is a
        # definite violation; agreement on the grid proves nothing)
        cex = _subtile_counterexample(r, d, s)
        if cex is not None:
            run.violated("C13.R1", f, None, "is_subtile(%s, %s) evaluates to %s, but the first %s a descendant of the second" % (
                cex[0], cex[1], cex[2], "is" if cex[3] else "is not"), kind="is-subtile")
        else:
            run.undecided("C13.R1", f, None, "is_subtile has neither the recursive nor the iterative ancestor-climbing shape (returns: %s)" %
                          [show(t)[:80] for pc, t in rets], kind="is-subtile-shape")


def _subtile_counterexample(r, d, s):
    from sa.teval import teval, UNKNOWN
    val = boolalg.fold_returns([x for x in r.returns])
    if val is None or any(c[0] == "loop" for pc, t, n in r.returns for c in pc):
        return None
    for sn in range(0, 4):
        for sx in range(2 ** sn):
            for sy in range(2 ** sn):
                for dn in range(sn, 5):
                    for dx in range(2 ** dn):
                        for dy in range(2 ** dn):
                            env = {("attr", d, "n"): dn, ("attr", d, "x"): dx, ("attr", d, "y"): dy,
                                   ("attr", s, "n"): sn, ("attr", s, "x"): sx, ("attr", s, "y"): sy}
                            got = teval(val, env)
                            if got is UNKNOWN:
                                return None
                            want = (dx >> (dn - sn), dy >> (dn - sn)) == (sx, sy)
                            if bool(got) != want:
                                return "Pos(%d,%d,%d)" % (dn, dx, dy), "Pos(%d,%d,%d)" % (sn, sx, sy), bool(got), want
    return None


def _norm_shift(t):
    """1 << k  ->  2**k"""
    if isinstance(t, tuple) and t:
        if t[0] == "op" and t[1] == "lshift" and num_value(t[2][0]) == 1:
            return ("op", "pow", (num(2), _norm_shift(t[2][1])))
        return tuple(_norm_shift(x) if isinstance(x, tuple) else x for x in t)
    return t


def _r3_subpyramid(run, ev):
    project = run.project
    f = common.splice(project, project.fn(PYR + ".Pyramid._generator"))
    run.note_func(f)
    ev0 = sym.make_evaluator(project, PYR, [PYR + ".pos_parent"], inline_local=True,
                             no_inline=("generate_pos", "_postfix_pos", "is_subtile", "tiles_at_depth", "depth2tiles", "pos_children", "_make_position_filter",
                                        "next_highest_power_of_2"))
    r = ev0.run(f.node)
    apex = ("attr", ("sym", "self"), "_apex")
    na = ("attr", apex, "n")
    generic = sym.cmp("Is", ("attr", ("sym", "self"), "_coordsys"), sym.NONE)
    ys = [(pc, t, n) for pc, t, n in r.yields if (generic, True) in [c for c in pc if c[0] != "loop"]]
    # (a) no sub-pyramid: generate_pos(self.depth) as is
    plain = [(pc, t, n) for pc, t, n in ys if (sym.cmp("Eq", na, num(0)), True) in pc]
    gp_full = ("call", ("sym", "generate_pos"), (("attr", ("sym", "self"), "depth"),), ())
    ok_plain = len(plain) == 1 and plain[0][1] == ("tuple", (("elem", gp_full), sym.NONE))
    # (b) sub-pyramid offset map
    gp_sub = ("call", ("sym", "generate_pos"), (sym.sub(("attr", ("sym", "self"), "depth"), na),), ())
    el = ("elem", gp_sub)
    want = ("nt", "Pos", (ev0.expr("p.n + a.n", {"p": el, "a": apex}), ev0.expr("p.x + a.x * 2**p.n", {"p": el, "a": apex}),
                          ev0.expr("p.y + a.y * 2**p.n", {"p": el, "a": apex})))
    # (the `apex.n == 0` case may be a branch of its own or simply the general offset map with apex (0, 0, 0), which is the identity)
    allsub = [(pc, t, n) for pc, t, n in ys if (sym.cmp("Eq", na, num(0)), True) not in pc and t[0] == "tuple" and t[1][0][0] == "nt"]
    subs = [x for x in allsub if el in atoms_of(x[1])]
    ancs = [x for x in allsub if el not in atoms_of(x[1])]
    general = bool(subs) and not any(c[0] == sym.cmp("Eq", na, num(0)) for x in subs for c in x[0] if c[0] != "loop")
    if ok_plain:
        run.holds("C13.R3", f, plain[0][2], "no sub-pyramid: positions of generate_pos(self.depth) unchanged")
    elif general and not plain:
        run.holds("C13.R3", f, subs[0][2], "no separate branch for the whole pyramid: the general offset map is used with apex (0, 0, 0), where it is the identity")
    elif _delegating_yield_from(project, f) and not plain:
        x_, g_ = _delegating_yield_from(project, f)[0]
        run.undecided("C13.R3", f, x_, "the generator delegates to %s with `yield from`: the enumeration is not followed there" % g_.short, kind="generator-delegated")
        return False
    else:
        run.violated("C13.R3", f, None, "without a sub-pyramid the generic generator does not yield generate_pos(self.depth) as is", kind="plain-generator")
    if len(subs) != 1:
        run.undecided("C13.R3", f, None, "sub-pyramid branch does not yield exactly one shifted Pos (%d)" % len(subs), kind="subpyramid-shape")
    else:
        got = _norm_shift(subs[0][1][1][0])
        d = termdiff.diff(got, want)
        if d[0] == "equal" and subs[0][1][1][1] == sym.NONE:
            run.holds("C13.R3", f, subs[0][2], "sub-pyramid: (n, x, y) of the reduced pyramid -> (n + na, x + ax*2**n, y + ay*2**n)")
        elif d[0] == "definite":
            run.violated("C13.R3", f, subs[0][2], "sub-pyramid offset map deviates from (n + na, x + apex.x*2**n, y + apex.y*2**n): %s" % termdiff.describe(d),
                         kind="subpyramid-offset")
        else:
            run.undecided("C13.R3", f, subs[0][2], "sub-pyramid offset map: %s" % termdiff.describe(d), kind="subpyramid-structure")
    # (c) ancestors of the apex up to level 0 are produced afterwards: ipos starts at the apex, is replaced by its
    # parent, yielded, and the loop stops when level 0 was yielded
    okc = False
    if len(ancs) == 1:
        pc, t, n = ancs[0]
        p_t = t[1][0]
        carried = [a for a in atoms_of(p_t) if a[0] == "sym" and a[1].startswith("ipos@L")] or [a for a in atoms_of(p_t) if a[0] == "sym" and "@L" in a[1]]
        if carried:
            c = carried[0]
            parent = ("nt", "Pos", (ev0.expr("p.n - 1", {"p": c}), ev0.expr("p.x // 2", {"p": c}), ev0.expr("p.y // 2", {"p": c})))
            name = c[1].split("@")[0]
            init = [e for e in r.events if e.kind == "assign" and e.term[1][0] == ("sym", name) and not [x for x in e.pc if x[0] == "loop" and ("loop", x[1]) in pc]]
            brk = [e for e in r.events if e.kind == "break" and any(x in e.pc for x in pc if x[0] == "loop")]
            stop = any(boolalg.equiv(boolalg.conj([cc for cc in e.pc if cc[0] != "loop"][-1:]), sym.cmp("Eq", parent[2][0], num(0))) is True for e in brk)
            # the same walk written with the test first: `while cur.n > 0: cur = parent(cur); yield cur`
            lk = [x[1] for x in pc if x[0] == "loop"]
            wcond = [it_[2][0] for k_, it_, n_ in r.loops if lk and k_ == lk[-1] and it_[0] == "op" and it_[1] == "while"]
            if wcond and wcond[0] != sym.TRUE and not brk:
                cn = ("attr", c, "n")
                stop = wcond[0] in (sym.cmp("Gt", cn, num(0)), sym.cmp("NotEq", cn, num(0)), sym.cmp("GtE", cn, num(1)))
            okc = p_t == parent and t[1][1] == sym.NONE and any(e.term[1][1] == apex for e in init) and stop
    if okc:
        run.holds("C13.R3", f, ancs[0][2], "after the sub-pyramid its apex's ancestors are yielded (parent by parent) until level 0")
    else:
        run.violated("C13.R3", f, ancs[0][2] if ancs else None, "the apex's ancestors are no longer yielded as `ipos = apex; loop: ipos = parent(ipos); yield ipos; stop at n == 0` "
                     "(the reduction relies on seeing every level up to 0)", kind="ancestors")


def _r4_closed_forms(run, ev):
    project = run.project
    ev0 = sym.make_evaluator(project, PYR, [])
    for q, src, desc in ((PYR + ".tiles_at_depth", "4 ** d", "4**depth"), (PYR + ".depth2tiles", "(4 ** (d + 1) - 1) // 3", "(4**(depth+1) - 1)//3")):
        f = project.fn(q)
        run.note_func(f)
        r = ev0.run(f.node)
        want = ev0.expr(src, {"d": ("sym", f.params()[0])})
        if len(r.returns) == 1 and r.returns[0][1] == want:
            run.holds("C13.R4", f, None, "%s = %s" % (f.name, desc))
        elif len(r.returns) == 1:
            d = termdiff.diff(r.returns[0][1], want)
            (run.violated if d[0] == "definite" else run.undecided)("C13.R4", f, r.returns[0][2], "%s returns %s, expected %s" % (f.name, show(r.returns[0][1])[:80], desc),
                                                                  kind="closed-form")
        else:
            run.undecided("C13.R4", f, None, "%s has %d returns" % (f.name, len(r.returns)), kind="closed-form-shape")
    depth = ("attr", ("sym", "self"), "depth")
    na = ("attr", ("attr", ("sym", "self"), "_apex"), "n")
    nofilter = sym.cmp("Is", ("attr", ("sym", "self"), "_tile_filter"), sym.NONE)
    for name, fn, arg in (("count_leaf_tiles", "tiles_at_depth", sym.sub(depth, na)), ("count_live_tiles", "depth2tiles", sym.sub(depth, na)),
                          ("count_operations", "depth2tiles", sym.sub(depth, sym.add(na, num(1))))):
        f = project.fn("%s.Pyramid.%s" % (PYR, name))
        run.note_func(f)
        r = ev0.run(f.node)
        first = [(pc, t, n) for pc, t, n in r.returns if (nofilter, True) in [c for c in pc if c[0] != "loop"]]
        want = ("call", ("sym", fn), (arg,), ())
        if len(first) == 1 and first[0][1] == want:
            run.holds("C13.R4", f, first[0][2], "%s without filter = %s(%s)" % (name, fn, show(arg)))
        elif len(first) == 1:
            d = termdiff.diff(first[0][1], want)
            (run.violated if d[0] == "definite" else run.undecided)("C13.R4", f, first[0][2], "%s without a filter returns %s, expected %s(%s)" % (
                name, show(first[0][1])[:80], fn, show(arg)), kind="closed-form-arg")
        else:
            run.undecided("C13.R4", f, None, "%s: analytic branch under `_tile_filter is None` not found" % name, kind="analytic-branch")


def _reducer_facts(ev0, f):
    r = ev0.run(f.node)
    loops = [(k, it, n) for k, it, n in r.loops if "_make_iter_reducer" in show(it)]
    if not loops:
        return None
    k, it, lnode = loops[0]
    el = ("elem", it)
    sd = [e for e in r.events if e.kind == "call" and e.term[1][0] == "attr" and e.term[1][2] == "set_data" and ("loop", k) in e.pc]
    return dict(loop=k, it=it, el=el, leaf=("item", el, 2), data=("item", el, 3), pos=("item", el, 0), tile=("item", el, 1), set_data=sd, r=r, node=lnode)


def _r5_reducers(run, ev):
    project = run.project
    # the counters with their private helpers spliced in: a shared `_reduce(default, step)` loop and per-tile step functions
    # (passed as arguments) are the same three reductions
    ev0 = sym.make_evaluator(project, PYR, [], inline_local=True)
    ev0.self_class = PYR + ".Pyramid"
    ev0.no_inline = ("_make_iter_reducer", "count_operations", "count_leaf_tiles", "count_live_tiles", "_walk_serial", "_walk_parallel", "_generator",
                     "generate_pos", "_postfix_pos", "is_subtile", "tiles_at_depth", "depth2tiles", "pos_parent", "pos_children", "_make_position_filter")
    ev0.static_len = c01._reducer_slots      # the reduction iterator hands out the four child slots
    specs = {}

    def dsub(data, i, j=None):
        t = ("item", data, i)
        return t if j is None else ("item", t, j)
    for name, default in (("count_leaf_tiles", num(0)), ("count_live_tiles", num(0)), ("count_operations", ("tuple", (sym.FALSE, num(0))))):
        f = project.fn("%s.Pyramid.%s" % (PYR, name))
        fx = _reducer_facts(ev0, f)
        if fx is None or not fx["set_data"]:
            run.undecided("C13.R5", f, None, "%s: reduction loop with set_data not found" % name, kind="reducer-shape")
            continue
        leaf, data = fx["leaf"], fx["data"]
        s4 = num(0)
        for i in range(4):
            s4 = sym.add(s4, dsub(data, i))
        if name == "count_leaf_tiles":
            want = ("ite", leaf, num(1), s4)
        elif name == "count_live_tiles":
            want = ("ite", leaf, num(1), ("ite", s4, sym.add(s4, num(1)), s4))
        else:
            anyl = ("op", "or", tuple(dsub(data, i, 0) for i in range(4)))
            o4 = num(0)
            for i in range(4):
                o4 = sym.add(o4, dsub(data, i, 1))
            want = ("tuple", (("ite", leaf, sym.TRUE, anyl), ("ite", leaf, num(0), ("ite", anyl, sym.add(o4, num(1)), o4))))
        # the value recorded for a tile: the argument of whichever set_data call runs (exactly one must)
        got = None
        cover = num(0)
        for e_sd in reversed(fx["set_data"]):
            c_sd = boolalg.conj([c for c in e_sd.pc if c[0] != "loop" and fx["el"] in atoms_of(c[0])])
            v_sd = e_sd.term[2][0] if e_sd.term[2] else sym.NONE
            got = v_sd if (got is None and c_sd == sym.TRUE) else sym.mk_ite(c_sd, v_sd, got if got is not None else sym.NONE)
            cover = sym.add(cover, sym.mk_ite(c_sd, num(1), num(0)))
        dv = dict(fx["it"][3]).get("default_value")
        # the per-tile value as a function of (is_leaf, the four child values): compared with the recurrence on the grid
        # {0,1,2}^4 (x {False,True}^4 for the liveness flags) -- complete for values that are piecewise linear in the
        # child values with pieces selected by zero / non-zero tests
        doms = {leaf: [False, True]}
        if name == "count_operations":
            for i in range(4):
                doms[dsub(data, i, 0)] = [False, True]
                doms[dsub(data, i, 1)] = [0, 1, 2]
        else:
            for i in range(4):
                doms[dsub(data, i)] = [0, 1, 2]
        verdict = agree(got, want, doms) if got is not None else ("unknown", None)
        unconditional = agree(cover, num(1), doms)[0] == "equal"
        if verdict[0] == "equal" and dv == default and unconditional:
            run.holds("C13.R5", f, fx["set_data"][0].node, "%s: per-tile value follows its recurrence on all %d cases (default %s)" % (name, verdict[1], show(default)))
            specs[name] = want
        elif dv != default and dv is not None and dv[0] in ("nt", "tuple", "list", "dict", "call", "new"):
            # one reduction carrying several numbers at once (a record of counts): the per-counter recurrences are not projected out
            run.undecided("C13.R5", f, fx["node"], "%s reduces with a compound value (default %s): a reduction carrying several counts at once is not followed component "
                          "by component" % (name, show(dv)[:60]), kind="reducer-compound")
        elif dv != default:
            run.violated("C13.R5", f, fx["node"], "%s reduces with default value %s, expected %s (value of a missing child)" % (name, show(dv), show(default)), kind="reducer-default")
        elif verdict[0] == "differ":
            env_, g_, w_ = verdict[1:]
            case = ", ".join("%s=%s" % (show(k_).split(")")[-1] or show(k_)[-12:], v_) for k_, v_ in env_.items())
            run.violated("C13.R5", f, fx["set_data"][0].node, "%s: per-tile value deviates from its recurrence: for %s it records %s, expected %s" % (name, case[:160], g_, w_),
                         kind="reducer-" + name)
        elif not unconditional:
            run.violated("C13.R5", f, fx["set_data"][0].node, "%s: set_data does not run exactly once for every tile" % name, kind="reducer-" + name)
        else:
            run.undecided("C13.R5", f, fx["set_data"][0].node, "%s: per-tile value %s cannot be evaluated against the recurrence" % (name, show(got)[:140]),
                          kind="reducer-structure-" + name)
        # result: riter.result() (ops: [1])
        rets = [t for pc, t, n in fx["r"].returns if "result" in show(t)]
        if not rets:
            run.violated("C13.R5", f, None, "%s does not return the reduction's result" % name, kind="reducer-result")
    # leaf visits: callback exactly under is_leaf, with (pos, tile)
    f = common.splice(project, project.fn(PYR + ".Pyramid._visit_leaves_serial"))
    run.note_func(f)
    fx = _reducer_facts(ev0, f)
    cbs = [e for e in fx["r"].events if e.kind == "call" and e.term[1] == ("sym", "callback")] if fx else []
    if fx and len(cbs) == 1 and boolalg.equiv(boolalg.conj([c for c in cbs[0].pc if c[0] != "loop" and fx["el"] in atoms_of(c[0])]), fx["leaf"]) is True \
            and tuple(cbs[0].term[2]) == (fx["pos"], fx["tile"]):
        run.holds("C13.R5", f, cbs[0].node, "leaf visits: callback(pos, tile) exactly for items with is_leaf")
    else:
        run.violated("C13.R5", f, cbs[0].node if cbs else None, "serial leaf visit does not call callback(pos, tile) exactly under is_leaf: visited leaves differ from "
                     "count_leaf_tiles()", kind="leaf-visit-predicate")
    # visit_leaves / walk use the matching counter as their total and skip work only when it is 0
    for q, counter in ((PYR + ".Pyramid.visit_leaves", "count_leaf_tiles"), (PYR + ".Pyramid._walk_serial", "count_operations")):
        f = project.fn(q)
        run.note_func(f)
        r = ev0.run(f.node)
        tot = ("call", ("attr", ("sym", "self"), counter), (), ())
        early = [(pc, t, n) for pc, t, n in r.returns if [c for c in pc if c[0] != "loop"]]
        ok = len(early) == 1 and boolalg.equiv(boolalg.conj([c for c in early[0][0] if c[0] != "loop" and tot in atoms_of(c[0])]), sym.cmp("Eq", tot, num(0))) is True
        if ok:
            run.holds("C13.R5", f, early[0][2], "%s: total = self.%s(); nothing to do only when it is 0" % (f.name, counter))
        else:
            run.violated("C13.R5", f, None, "%s no longer derives its amount of work from self.%s() (early exit only when that is 0)" % (f.name, counter), kind="total-source")
    # parallel walk preparation uses the operation recurrence of count_operations
    f = project.fn(PYR + ".Pyramid._walk_parallel")
    fx = _reducer_facts(ev0, f)
    if fx and fx["set_data"] and "count_operations" in specs:
        got = fx["set_data"][0].term[2][0]
        want = _rebase(specs["count_operations"], project, ev0, fx)
        doms = {fx["leaf"]: [False, True]}
        for i in range(4):
            doms[("item", ("item", fx["data"], i), 0)] = [False, True]
            doms[("item", ("item", fx["data"], i), 1)] = [0, 1, 2]
        verdict = agree(got, want, doms)
        if verdict[0] == "equal":
            run.holds("C13.R5", f, fx["set_data"][0].node, "parallel walk preparation: same (liveness, operations) recurrence as count_operations()")
        elif verdict[0] == "differ":
            env_, g_, w_ = verdict[1:]
            run.violated("C13.R5", f, fx["set_data"][0].node, "the parallel walk's preparation pass counts operations differently from count_operations(): "
                         "it records %s where count_operations records %s" % (g_, w_), kind="parallel-ops-recurrence")
        else:
            run.undecided("C13.R5", f, fx["set_data"][0].node, "cannot evaluate the preparation pass's recurrence %s" % show(got)[:140], kind="parallel-ops-structure")


def _rebase(spec, project, ev0, fx):
    """Re-express count_operations' specification over another function's loop element."""
    f = project.fn(PYR + ".Pyramid.count_operations")
    fo = _reducer_facts(ev0, f)

    def sub(t):
        if t == fo["el"]:
            return fx["el"]
        if isinstance(t, tuple):
            return tuple(sub(x) if isinstance(x, tuple) else x for x in t)
        return t
    return sub(spec)


def _delegating_yield_from(project, f):
    """`yield from self.<method>(..)` in *f* where <method> is a generator method of the same class that the evaluation did
    not splice in: the enumeration lives there."""
    import ast as _ast
    out = []
    for x in _ast.walk(f.node):
        if isinstance(x, _ast.YieldFrom) and isinstance(x.value, _ast.Call) and isinstance(x.value.func, _ast.Attribute) \
                and isinstance(x.value.func.value, _ast.Name) and x.value.func.value.id == "self":
            g = project.funcs.get("%s.%s.%s" % (f.module.name, f.cls.name, x.value.func.attr)) if f.cls is not None else None
            if g is not None:
                out.append((x, g))
    return out
