"""C07 - Tile filters never drop a tile holding data (structural clauses).

R1 filter purity: the compiled test sorts its first argument in place; the Python filter
   must hand it storage that does not alias Tile.corners (level-1 exception checked)
R2 pruning: the filtered descent drops a subtree only when the filter rejected its root
   (or the depth is exceeded); all four children are descended into
R3 chunk sampler: one validity mask from both index ranges applied to all four index arrays;
   filtered sampling updates instead of clobbering
R4 bound order / axis discipline: bounds are produced and consumed as
   (lon_min, lon_max, lat_min, lat_max); longitudes come from x quantities, latitudes from y;
   the filter passes its bounds to the compiled test unmodified
R5 refinement grids include both end points (>= 2 samples whenever the range is not a point)
R6 refinement axes: pixel column 0 is fed from axis-1 (x) samples only, column 1 from axis-2 (y)
R9 perimeter refinement: for every sample e of the perimeter walk (4*nm+1 of them, enumerated), the window refined
   around it lies on the edge the walk took e from, contains e's own coarse position and reaches one coarse sample to
   either side of it; a corner sample must be refined along both of its edges
R10 the bounds apply the same pixel<->world model (full, with distortion, or core) that the sampler inverts
"""
import ast

from sa import sym, boolalg
from sa.sym import show, num, num_value, atoms_of
from sa.model import dotted, own_calls, own_nodes, callee_attr
from .toastgeom import level1_table
from . import common

S = "toasty.samplers"
T = "toasty.toast"

EXPLANATION = (
    "The geometric guarantee itself (every tile with a pixel centre in the box is accepted) is floating-point spherical "
    "geometry and is not decided. Decided structurally: aliasing of the array handed to the in-place compiled test; the "
    "pruning conditions of the filtered descent (terms/CFG); the validity mask of the chunk sampler; the order and the "
    "x/y provenance (axis typing over canonical terms) of every bounds tuple from producer to consumer, including that "
    "the filter closure hands its parameters unmodified to the compiled test; integer lower bounds of every linspace "
    "sample count that feeds the refined bound search; and axis discipline of the refinement grids."
)

MANIFEST = {
    "technique": "static analysis: alias/effect analysis across the .pyx front-end, truth-table implication for pruning conditions, axis (unit) typing and polarity of bounds tuples on canonical terms, order of chunk bounds from index formulas, integer lower bounds of sample counts, union-filter meaning and late-bound closure detection; package-wide coordinate-system forwarding; merge-not-overwrite premise shared with C10; the tile filter followed as closure or callable object down to the compiled test; records (namedtuples with methods) inlined; perimeter refinement decided sample by sample (the 125 perimeter samples enumerated: slice copies interpreted on the coarse grid, refinement window evaluated per sample); coarse-grid extent reaches the outer pixel edges; per-mode update convention on the filtered route (shared with C15); path-condition implication: the shared chunk buffer is returned only after the fill",
    "text": "Decides necessary structural conditions of 'filters never drop a tile holding data': purity, pruning rule, mask construction, bound order/axis provenance end to end, end-point sampling of the bound refinement. The geometric acceptance guarantee is not decided.",
    "note": "Trusted: compiled bbox test as written in the .pyx; numpy linspace/asarray semantics; astropy WCS. Not decided: spherical geometry of the acceptance test over floats.",
}


def run(run):
    run.explanation = EXPLANATION
    run.assumptions += ["np.asarray of a tuple of tuples allocates; of an ndarray returns the same object",
                        "np.linspace(a, b, n) includes both a and b iff n >= 2"]
    run.undecided_clauses += ["every tile with a pixel centre inside the box/footprint/chunk is accepted (spherical geometry over floats)"]
    for r, n in (("C07.R1", 2), ("C07.R2", 2), ("C07.R3", 2), ("C07.R4", 5), ("C07.R5", 1), ("C07.R6", 2), ("C07.R7", 1), ("C07.R8", 4), ("C07.R9", 1), ("C07.R10", 1)):
        run.floor(r, n)
    _r1_purity(run)
    _r2_pruning(run)
    _r3_chunk(run)
    _r4_bounds(run)
    _r5_r6_refinement(run)
    _r9_perimeter(run)
    _r10_transform_agreement(run)
    _r7_union_filter(run)
    # "sampling all chunks one after another fills every pixel": each chunk's tile is merged into what earlier chunks stored,
    # i.e. in updating mode nothing reachable from the sampling workers writes a tile with a plain write_image (C10's rule)
    from . import C10 as c10
    from . import common as _common
    _common.delegate(run, "C07.R3", "C10", c10._r5, only_rules={"C10.R5"}, note="premise: chunk contributions are merged, never overwritten")
    # "filtered sampling equals exhaustive sampling restricted to the accepted tiles": the filtered / chunked route stores the
    # sampler's values through update_into_maskable_buffer, which must copy exactly the defined source pixels, per mode
    # (C15's convention rule; a pixel the merge treats as undefined is a hole the exhaustive route does not have)
    from . import C15 as c15

    def conv(sub):
        members = c15._enum_members(sub.project)
        if len(members) >= 8:
            chains = c15._r1_chains(sub, members)
            c15._r2_conventions(sub, members, chains)
    _common.delegate(run, "C07.R3", "C15", conv, only_rules={"C15.R2"}, note="premise: the filtered route merges exactly the defined sampled pixels")
    # filtered sampling walks the tiles of the requested coordinate system (a filter evaluated on the other system's tiles
    # rejects tiles that hold data): the system reaches every tile generator / pyramid factory on the way
    from . import toastgeom
    if toastgeom.coordsys_forwarding(run, "C07.R8") < 4:
        run.undecided("C07.R8", None, None, "fewer than 4 call sites hand a coordinate system on", kind="floor", construct="<coordsys forwarding>", file="toasty/toast.py")


def _filter_eval(project, outer=None, no_inline=()):
    """The tile filter `_latlon_tile_filter(lon_min, lon_max, lat_min, lat_max)` (or another factory *outer*) hands back, applied
    to a tile: a closure of the factory, or the __call__ of a project object it returns (fields = what the closure would
    capture; a tuple of boxes held by the object is walked box by box).
    -> (Func for reports, factory Func, evaluation result, tile symbol) or None."""
    outer = outer or project.fn(S + "._latlon_tile_filter")
    ev = sym.make_evaluator(project, S, [], inline_local=True, no_inline=tuple(no_inline))
    ev.model_objects = True
    ev.unroll = True
    if outer.cls is not None:
        ev.self_class = "%s.%s" % (S, outer.cls.name)
    ro = ev.run(outer.node)
    if len(ro.returns) != 1:
        return None
    R = ro.returns[0][1]
    if R[0] == "sym" and R[1].startswith("<closure ") and R[1][9:-1] in ro.nested:
        name = R[1][9:-1]
        fn, env = ro.nested[name]
        f = project.funcs.get("%s.%s" % (outer.qual, name)) or project.funcs.get("%s._latlon_tile_filter.%s" % (S, name))
        if f is None:
            return None
        return f, outer, ev.run(fn, env=env), ("sym", f.params()[0])
    if R in ro.objects:
        f = project.funcs.get(ro.objects[R][0] + ".__call__")
        if f is None or len(f.params()) != 2:
            return None
        fenv = dict(ro.env or {})
        fenv.update(ro.objects[R][1])
        ev.recv_classes = dict(ev.recv_classes or {})
        return f, outer, ev.run(f.node, env=fenv, args={f.params()[0]: R}), ("sym", f.params()[1])
    return None


def _r1_purity(run):
    project = run.project
    fe = _filter_eval(project)
    if fe is None:
        run.undecided("C07.R1", project.fn(S + "._latlon_tile_filter"), None, "the tile filter handed back by _latlon_tile_filter is neither a closure nor a callable object "
                      "of the project: not followed", kind="filter-shape")
        return
    f, outer, r, tile = fe
    run.note_func(f)
    calls = [e for e in r.events if e.kind == "call" and e.term[1] == ("sym", "tile_intersects_latlon_bbox")]
    if len(calls) != 1:
        run.undecided("C07.R1", f, None, "filter does not call the compiled bbox test exactly once", kind="filter-shape")
        return
    arg0 = calls[0].term[2][0]
    corners = ("attr", tile, "corners")
    s = show(arg0)
    fresh = arg0[0] == "call" and show(arg0[1]) in ("np.array", "np.copy") and arg0[2] and arg0[2][0] == corners or \
        (arg0[0] == "call" and arg0[1][0] == "attr" and arg0[1][2] == "copy")
    asarr = arg0 == ("call", ("attr", ("sym", "np"), "asarray"), (corners,), ())
    # does the compiled routine write through its first argument?
    pyx = project.fn("toasty._libtoasty._tile_intersects_latlon_bbox")
    writes = any(isinstance(c.func, ast.Name) and c.func.id == "_order_pair_1d" for c in own_calls(pyx.node))
    run.note_func(pyx)
    if fresh or not writes:
        run.holds("C07.R1", f, calls[0].node, "the compiled test gets a private copy of the corners" if fresh else "compiled test does not write")
    elif asarr:
        # np.asarray(tuple of tuples) is fresh; for ndarray rows (level-1 tiles) it aliases: accepted because every
        # level-1 tile has a pole corner, beyond the routine's pole threshold, so it returns before sorting; and the
        # astronomical table is flagged read-only
        name, rows, node = level1_table(project)
        pole_ok = bool(rows) and all(any(abs(lat) == 90 for lon, lat in cs) for cs in rows)
        thr = _pole_threshold(pyx)
        ro_flag = _table_readonly(project, name)
        div4_tuples = _div4_builds_tuples(project)
        if div4_tuples is None and pole_ok and thr is not None and thr < 1.5707963267948966 and ro_flag:
            run.undecided("C07.R1", f, calls[0].node, "the filter hands np.asarray(tile.corners) to a routine that sorts it in place; whether every tile below level 1 carries "
                          "its corners as a tuple (so that this is a fresh array) is not decided: tiles are produced in a way the rule does not follow", kind="filter-aliasing-unknown")
        elif pole_ok and thr is not None and thr < 1.5707963267948966 and ro_flag and div4_tuples:
            run.holds("C07.R1", f, calls[0].node, "np.asarray(tile.corners): fresh array for _div4 tiles (tuple corners); level-1 rows alias but every "
                      "level-1 tile has a pole corner (> threshold %s) so the routine returns before its in-place sort; table is read-only" % thr,
                      threshold=thr)
        else:
            run.violated("C07.R1", f, calls[0].node, "the filter hands np.asarray(tile.corners) to a routine that sorts it in place, and the aliasing "
                         "exception for level-1 tiles no longer holds (pole corners=%s, threshold=%s, table read-only=%s, _div4 tuples=%s)" % (
                             pole_ok, thr, ro_flag, div4_tuples), kind="filter-mutates-tile")
    elif arg0 == corners:
        run.violated("C07.R1", f, calls[0].node, "the filter passes tile.corners itself to a routine that sorts its argument in place: the tile it "
                     "inspects is modified", kind="filter-mutates-tile")
    else:
        run.undecided("C07.R1", f, calls[0].node, "cannot decide aliasing of %s with tile.corners" % s[:80], kind="alias-unknown")
    # the filter itself has no other effect on the tile
    stores = [e for e in r.events if e.kind == "store" and tile in atoms_of(e.term[1][0])]
    if stores:
        run.violated("C07.R1", f, stores[0].node, "the filter assigns into the tile it inspects (%s)" % show(stores[0].term[1][0])[:80], kind="filter-writes-tile")
    else:
        run.holds("C07.R1", f, None, "filter closure performs no store into its tile")


def _pole_threshold(pyx):
    for n in own_nodes(pyx.node):
        if isinstance(n, ast.Compare) and isinstance(n.left, ast.Name) and n.left.id == "tile_lat_max" and isinstance(n.ops[0], ast.Gt) \
                and isinstance(n.comparators[0], ast.Constant):
            return n.comparators[0].value
    return None


def _table_readonly(project, name):
    if not name:
        return False
    for n in project.mod(T).tree.body:
        if isinstance(n, ast.Assign) and isinstance(n.targets[0], ast.Attribute) and dotted(n.targets[0]) == name + ".flags.writeable" \
                and isinstance(n.value, ast.Constant) and n.value.value is False:
            return True
    return False


def _div4_builds_tuples(project):
    """Every child built by _div4 carries its corners as a fresh tuple (decided on the evaluated children, not on the spelling)."""
    from . import toastgeom
    f, tile, kids, r = toastgeom.div4_facts(project)
    if kids is None:
        return None              # _div4 is not followed to four Tile(..) values: unknown
    # ... and nobody but _create_level1_tiles / _div4 makes tiles (e.g. re-wrapping the corners of a finished tile in an array)
    others = [x for x in toastgeom.tile_construction_sites(project) if x[0].qual not in ("toasty.toast._create_level1_tiles", "toasty.toast._div4")]
    def rewraps(c_):
        if isinstance(c_.func, ast.Attribute) and c_.func.attr == "_replace":
            return True
        corners = c_.args[1] if len(c_.args) > 1 else next((k.value for k in c_.keywords if k.arg == "corners"), None)
        return corners is not None and any(isinstance(x, ast.Attribute) and x.attr == "corners" for x in ast.walk(corners))
    if [x for x in others if rewraps(x[1])]:
        return False
    if others:
        return None              # another producer of tiles whose corners are computed afresh: what it hands out is not known
    return all(len(k) == 3 and k[1][0] == "tuple" and len(k[1][1]) == 4 for k in kids)


def _r2_pruning(run):
    project = run.project
    f = project.fn(T + "._postfix_corner")
    run.note_func(f)
    ev = sym.make_evaluator(project, T, [])
    r = ev.run(f.node)
    tile, depth, filt = (("sym", p) for p in f.params()[:3])
    n_t = ("attr", ("attr", tile, "pos"), "n")
    bad = []
    flt = ("call", filt, (tile,), ())
    spec = ("op", "or", (sym.cmp("Gt", n_t, depth), ("op", "and", (sym.cmp("Gt", n_t, sym.ONE), ("op", "not", (flt,))))))
    # a return that comes *after* the descent (e.g. a trailing guard around the final yield) prunes nothing
    first_desc = min([i for i, e in enumerate(r.events) if e.kind == "call" and e.term[1] == ("sym", f.name)] or [len(r.events)])
    early = [(pc, t, n) for pc, t, n in r.returns
             if min([i for i, e in enumerate(r.events) if e.kind == "return" and e.node is n] or [0]) < first_desc]
    pruned = [boolalg.conj(pc) for pc, t, n in early]
    undec = None
    for (pc, t, n), c in zip(early, pruned):
        imp = boolalg.implies(c, spec)
        if imp is None:
            undec = (n, c)
        elif not imp:
            bad.append((n, "subtree dropped under %s" % show(c)[:160]))
    loops = [n for n in own_nodes(f.node) if isinstance(n, ast.For) and isinstance(n.iter, ast.Call) and dotted(n.iter.func) == "_div4"]
    sliced = [n for n in own_nodes(f.node) if isinstance(n, ast.For) and isinstance(n.iter, ast.Subscript)]
    if sliced:
        bad.append((sliced[0], "only part of the children is descended into (%s)" % ast.unparse(sliced[0].iter)))
    # the descent itself must not be conditional on anything else
    desc = [e for e in r.events if e.kind == "call" and e.term[1] == ("sym", f.name)]
    for e in desc:
        c = boolalg.conj(e.pc)
        if boolalg.implies(("op", "not", (spec,)), c) is False:
            bad.append((e.node, "the recursive descent only happens under %s" % show(c)[:160]))
    if bad:
        for n, msg in bad:
            run.violated("C07.R2", f, n, "filtered descent: " + msg + " -- a subtree may only be pruned when the filter rejected its root (or below the requested depth)",
                         kind="pruning")
    elif undec:
        run.undecided("C07.R2", f, undec[0], "pruning condition %s not comparable" % show(undec[1])[:120], kind="pruning-shape")
    elif loops and desc:
        run.holds("C07.R2", f, None, "subtree pruned only if n > depth or (n > 1 and filter(tile) is false); all children of _div4 visited")
    else:
        run.undecided("C07.R2", f, None, "descent through _div4 not recognised", kind="pruning-shape")
    # filter test applies to the tile being pruned (n > 1 exemption: level-1 tiles tested by the caller)
    g = project.fn(T + ".generate_tiles_filtered")
    rg = ev.run(g.node)
    pcs = [e for e in rg.events if e.kind == "call" and e.term[1] == ("sym", "_postfix_corner")]
    ok = len(pcs) == 1 and pcs[0].term[2] and boolalg.implies(("call", ("sym", "filter"), (pcs[0].term[2][0],), ()), boolalg.conj(pcs[0].pc)) is True
    if ok:
        run.holds("C07.R2", g, pcs[0].node, "level-1 tiles are skipped only when the filter rejects them")
    else:
        run.violated("C07.R2", g, pcs[0].node if pcs else None, "level-1 subtrees are not pruned exactly by filter(t)", kind="pruning-level1")


def _r3_chunk(run):
    project = run.project
    outer = project.fn(S + ".ChunkedPlateCarreeSampler.sampler")
    run.note_func(outer)
    # grid arithmetic shared with the plain samplers may live in helpers of the module (a record of sizes / scales / origins)
    ev = sym.make_evaluator(project, S, [], inline_local=True, no_inline=("_chunk_bounds",))
    ev.inline_resolved = True          # ... or in methods of such a record (axis.locate(lon), axis.contains(ix))
    ev.no_inline = ("_chunk_bounds", "chunk_data", "chunk_spec", "fill_into_maskable_buffer", "make_maskable_buffer", "asarray", "clear")
    ro = ev.run(outer.node)
    inner = [k for k in ro.nested]
    if not inner:
        run.undecided("C07.R3", outer, None, "chunk sampler closure not found", kind="no-closure")
        return
    fn, env = ro.nested[inner[0]]
    r = ev.run(fn, env=env)
    fills = [e for e in r.events if e.kind == "call" and e.term[1][0] == "attr" and e.term[1][2] == "fill_into_maskable_buffer"]
    if len(fills) != 1:
        run.undecided("C07.R3", outer, None, "chunk sampler does not call fill_into_maskable_buffer once", kind="no-fill")
        return
    # the buffer is allocated once per chunk and shared by all calls of the closure; it is fill_into_maskable_buffer that re-masks
    # it for the tile at hand.  A return of the buffer's pixels on a path that has not passed the fill hands back the previous
    # tile's pixels, which are then merged into a tile that other chunks own.
    from sa import boolalg as _ba
    fill_c = _ba.conj([c for c in fills[0].pc if c[0] != "loop"])
    for pc, t, node in r.returns:
        if not (sym.contains(t, fills[0].term[2][0]) if fills[0].term[2] else False):
            continue
        rc = _ba.conj([c for c in pc if c[0] != "loop"])
        imp = _ba.implies(rc, fill_c)
        if imp is False:
            run.violated("C07.R3", outer, node, "the chunk sampler returns the shared buffer on a path that skips fill_into_maskable_buffer (%s): the buffer still holds the "
                         "previous tile's pixels, which are merged into this tile" % "; ".join(("" if p_ else "not ") + show(c)[:50] for c, p_ in pc if c != "loop" and c[0] != "loop")[:160],
                         kind="stale-buffer-returned")
        elif imp is None:
            run.undecided("C07.R3", outer, node, "cannot show that the returned buffer was filled on this path", kind="stale-buffer-returned")
    a = fills[0].term[2]
    if len(a) != 5 or not all(x[0] == "sub" for x in a[1:]):
        run.undecided("C07.R3", outer, fills[0].node, "fill call arguments not of the form arr[mask]", kind="fill-args")
        return
    masks = {x[2] for x in a[1:]}
    bases = [x[1] for x in a[1:]]
    if len(masks) != 1:
        run.violated("C07.R3", outer, fills[0].node, "the four index arrays of the fill call are masked with different masks (%d)" % len(masks), kind="mask-differs")
        return
    mask = masks.pop()
    iy_t, ix_t = bases[0], bases[1]
    ms = show(mask)
    # mask must constrain both ix and iy on both sides
    cmps = [x for x in atoms_of(mask) if x[0] == "op" and x[1].startswith("cmp:")]
    have = set()
    for c in cmps:
        if c[1] == "cmp:LtE" and c[2][0] == sym.ZERO:
            have.add(("cmp:GtE", c[2][1]))
        elif c[1] == "cmp:Lt" and num_value(c[2][0]) == -1:
            have.add(("cmp:GtE", c[2][1]))
        elif c[1] == "cmp:Lt":
            have.add(("cmp:Lt", c[2][0]))
    need = [("cmp:GtE", ix_t), ("cmp:Lt", ix_t), ("cmp:GtE", iy_t), ("cmp:Lt", iy_t)]
    missing = [(op, t) for op, t in need if (op, t) not in have]
    # upper bounds are the sizes of the matching axes: ny, nx = data.shape[:2]
    if missing and ([u_ for u_ in common.unfollowed_project_calls(project, mask) if show(u_[1]).split(".")[-1] not in ("_chunk_bounds", "chunk_data", "chunk_spec", "asarray")]
                    or [x for x in _subterms_c07(mask) if x[0] == "call" and x[1][0] == "attr" and x[1][1][0] in ("nt", "call")
                                                                         and x[1][2] not in ("astype", "get")]):
        run.undecided("C07.R3", outer, fills[0].node, "validity mask %s is computed by something that is not followed" % ms[:100], kind="mask-opaque")
    elif missing:
        run.violated("C07.R3", outer, fills[0].node, "validity mask %s does not bound %s: pixels outside the chunk would index the chunk array "
                     "(wrapping or raising) instead of being left undefined" % (ms[:120], ", ".join("%s %s" % (op[4:], "ix" if t == ix_t else "iy") for op, t in missing)),
                     kind="mask-incomplete")
    else:
        ub = {c[2][0]: c[2][1] for c in cmps if c[1] == "cmp:Lt"}
        okx = ub.get(ix_t) is not None and ub[ix_t][0] == "item" and ub[ix_t][2] == 1
        oky = ub.get(iy_t) is not None and ub[iy_t][0] == "item" and ub[iy_t][2] == 0
        if okx and oky:
            run.holds("C07.R3", outer, fills[0].node, "one mask (0 <= ix < nx) & (0 <= iy < ny) applied to iy, ix and both buffer index arrays")
        elif [u_ for b_ in (ub.get(ix_t), ub.get(iy_t)) if b_ is not None for u_ in common.unfollowed_project_calls(project, b_)]:
            run.undecided("C07.R3", outer, fills[0].node, "index upper bounds are %s / %s: they come from a project helper that is not followed" % (
                show(ub.get(ix_t))[:60], show(ub.get(iy_t))[:60]), kind="mask-axis-opaque")
        else:
            run.violated("C07.R3", outer, fills[0].node, "index upper bounds are %s / %s; expected ix < shape[1] and iy < shape[0]" % (
                show(ub.get(ix_t))[:60], show(ub.get(iy_t))[:60]), kind="mask-axis")
    # argument order iy, ix, by, bx: the buffer index arrays are (rows, cols) = np.indices(...)[0], [1]
    by_t, bx_t = bases[2], bases[3]
    ok_b = by_t[0] == "item" and bx_t[0] == "item" and by_t[1] == bx_t[1] and "indices" in show(by_t[1]) and by_t[2] == 0 and bx_t[2] == 1
    if ok_b:
        run.holds("C07.R3", outer, None, "fill_into_maskable_buffer(buffer, iy[ok], ix[ok], rows[ok], cols[ok])")
    else:
        run.violated("C07.R3", outer, fills[0].node, "buffer index arrays are passed as %s, %s; expected the row and column index grids in "
                     "(by, bx) order" % (show(by_t)[:60], show(bx_t)[:60]), kind="fill-order")


def _axis_of(term, xs, ys):
    """Which axis sources a term depends on: set subset of {'x','y'}."""
    at = atoms_of(term)
    out = set()
    if any(a in at for a in xs):
        out.add("x")
    if any(a in at for a in ys):
        out.add("y")
    return out


def _r4_bounds(run):
    project = run.project
    ev = sym.make_evaluator(project, S, [], inline_local=True, no_inline=("_chunk_bounds", "_latlon_tile_filter"))
    # (a) chunk bounds
    f = project.fn(S + ".ChunkedPlateCarreeSampler._chunk_bounds")
    run.note_func(f)
    r = ev.run(f.node)
    spec = ("call", ("attr", ("attr", ("sym", "self"), "_image"), "chunk_spec"), (("sym", f.params()[1]),), ())
    cx, cy, cw, ch = (("item", spec, i) for i in range(4))
    sx, sy = ("attr", ("sym", "self"), "sx"), ("attr", ("sym", "self"), "sy")
    e2 = lambda src, **k: ev.expr(src, k)
    want = ("tuple", (e2("sx*cx - P", sx=sx, cx=cx, P=sym.PI), e2("sx*(cx+cw) - P", sx=sx, cx=cx, cw=cw, P=sym.PI),
                      e2("P/2 - sy*(cy+ch)", sy=sy, cy=cy, ch=ch, P=sym.PI), e2("P/2 - sy*cy", sy=sy, cy=cy, P=sym.PI)))
    def as_tuple(t):
        # a 4-field record (namedtuple) in the documented field order is the tuple of its values
        if t[0] == "nt" and len(t[2]) == 4:
            return ("tuple", tuple(t[2]))
        return t
    if len(r.returns) == 1:
        r.returns[0] = (r.returns[0][0], as_tuple(r.returns[0][1]), r.returns[0][2])
    if len(r.returns) == 1 and r.returns[0][1] == want:
        run.holds("C07.R4", f, None, "chunk bounds = (lon_l, lon_r, lat_d, lat_u) from (sx, cx, cw) and (sy, cy, ch) respectively")
    elif len(r.returns) == 1 and r.returns[0][1][0] == "tuple" and len(r.returns[0][1][1]) == 4:
        got = r.returns[0][1][1]
        names = ["lon_min", "lon_max", "lat_min", "lat_max"]
        diffs = ["%s is %s, expected %s" % (names[i], show(got[i])[:90], show(want[1][i])[:90]) for i in range(4) if got[i] != want[1][i]]
        run.violated("C07.R4", f, r.returns[0][2], "chunk bounds: " + "; ".join(diffs), kind="chunk-bounds")
    else:
        run.undecided("C07.R4", f, None, "cannot evaluate _chunk_bounds", kind="chunk-bounds-shape")
    init = project.fn(S + ".ChunkedPlateCarreeSampler.__init__")
    ri = ev.run(init.node)
    st = {e.term[1][0][2]: e.term[1][1] for e in ri.events if e.kind == "store" and e.term[1][0][0] == "attr"}
    shp = ("attr", ("attr", ("sym", "self"), "_image"), "shape")
    shp2 = ("attr", ("sym", init.params()[1]), "shape")
    oks = any(st.get("sx") == e2("2*P / s[1]", P=sym.PI, s=s_) and st.get("sy") == e2("P / s[0]", P=sym.PI, s=s_) for s_ in (shp, shp2))
    if oks:
        run.holds("C07.R4", init, None, "sx = 2pi / width (shape[1]), sy = pi / height (shape[0])")
    else:
        run.violated("C07.R4", init, None, "pixel scales are sx=%s, sy=%s; expected 2pi/shape[1] and pi/shape[0]" % (show(st.get("sx"))[:60], show(st.get("sy"))[:60]),
                     kind="chunk-scales")
    # (b) consumers unpack in the producer's order
    for q, attr in ((S + ".ChunkedPlateCarreeSampler.filter", "_chunk_bounds"), (S + ".WcsSampler.filter", "_image_bounds")):
        g = project.fn(q)
        run.note_func(g)
        rg = ev.run(g.node)
        ok = len(rg.returns) == 1 and rg.returns[0][1][0] == "call" and rg.returns[0][1][1] == ("sym", "_latlon_tile_filter") \
            and len(rg.returns[0][1][2]) == 1 and rg.returns[0][1][2][0][0] == "star" and rg.returns[0][1][2][0][1][0] == "call" \
            and rg.returns[0][1][2][0][1][1] == ("attr", ("sym", "self"), attr)
        if ok:
            run.holds("C07.R4", g, None, "filter = _latlon_tile_filter(*self.%s(...)): positional order preserved" % attr)
            continue
        # any other way of building the filter: what the compiled test finally receives for a tile must be the producer's four
        # values, in the producer's order
        fe_g = None
        try:
            fe_g = _filter_eval(project, g, no_inline=(attr,))
        except Exception:
            fe_g = None
        bcalls = [e for e in fe_g[2].events if e.kind == "call" and e.term[1][0] in ("sym", "attr") and show(e.term[1]).split(".")[-1].lstrip("_") in
                  ("tile_intersects_latlon_bbox", "intersects")] if fe_g is not None else []
        if fe_g is None or len(bcalls) != 1 or len(bcalls[0].term[2]) != 5:
            run.undecided("C07.R4", g, None, "the filter built by %s is not followed down to the compiled intersection test" % g.short, kind="filter-factory-shape")
            continue
        got = bcalls[0].term[2][1:]
        prod = [x for x in _subterms_c07(("tuple", tuple(got))) if x[0] == "call" and x[1] == ("attr", ("sym", "self"), attr)]
        if not prod:
            run.undecided("C07.R4", g, None, "the bounds reaching the compiled test (%s) do not come from self.%s" % ([show(x)[:30] for x in got], attr), kind="filter-factory-shape")
            continue
        cbt = prod[0]
        flds = ()
        try:
            rp = sym.make_evaluator(project, S, []).run(project.fn("%s.%s.%s" % (S, g.cls.name, attr)).node)
            if len(rp.returns) == 1 and rp.returns[0][1][0] == "nt":
                flds = ev.namedtuples.get(rp.returns[0][1][1]) or ()
        except Exception:
            flds = ()
        pos_of = {("item", cbt, i): i for i in range(4)}
        pos_of.update({("attr", cbt, fld): i for i, fld in enumerate(flds)})
        order = [pos_of.get(x) for x in got]
        if order == [0, 1, 2, 3]:
            run.holds("C07.R4", g, bcalls[0].node, "the filter hands the four values of self.%s(...) to the compiled test in the producer's order" % attr)
        elif None in order:
            run.undecided("C07.R4", g, bcalls[0].node, "the compiled test receives %s: not the plain items of self.%s" % ([show(x)[:40] for x in got], attr), kind="filter-factory-shape")
        else:
            run.violated("C07.R4", g, bcalls[0].node, "the filter hands the bounds of self.%s to the compiled test in the order %s instead of (lon_min, lon_max, lat_min, lat_max)" % (
                attr, order), kind="filter-factory")
    # (c) the filter closure passes its four parameters unmodified, in order, to the compiled test
    outer = project.fn(S + "._latlon_tile_filter")
    run.note_func(outer)
    fe = _filter_eval(project)
    if fe is None:
        run.undecided("C07.R4", outer, None, "the tile filter handed back by _latlon_tile_filter is not followed", kind="no-bbox-call")
        calls = []
        rc = None
    else:
        rc = fe[2]
        calls = [e for e in rc.events if e.kind == "call" and e.term[1] == ("sym", "tile_intersects_latlon_bbox")]
    params = tuple(("sym", p) for p in outer.params())
    if fe is None:
        pass
    elif calls and tuple(calls[0].term[2][1:]) == params:
        run.holds("C07.R4", outer, calls[0].node, "compiled test receives (lon_min, lon_max, lat_min, lat_max) exactly as given")
    elif calls:
        got = calls[0].term[2][1:]
        idx = [i for i in range(min(4, len(got))) if got[i] != params[i]]
        run.violated("C07.R4", outer, calls[0].node, "the bounding box handed to the compiled intersection test is altered: argument %d is %s instead of the "
                     "caller's %s (unwrapped longitude ranges may legitimately exceed 2*pi)" % (idx[0] + 1 if idx else 0, show(got[idx[0]])[:100] if idx else "?",
                                                                                              outer.params()[idx[0]] if idx else "?"), kind="bounds-altered")
    else:
        run.undecided("C07.R4", outer, None, "filter closure does not call the compiled test", kind="no-bbox-call")
    pyx = project.fn("toasty._libtoasty.tile_intersects_latlon_bbox")
    inner = project.fn("toasty._libtoasty._tile_intersects_latlon_bbox")
    if pyx.params()[1:] == ["bbox_lon_min", "bbox_lon_max", "bbox_lat_min", "bbox_lat_max"] and inner.params() == pyx.params():
        run.holds("C07.R4", pyx, None, "compiled signature: (corners, lon_min, lon_max, lat_min, lat_max)")
    else:
        run.violated("C07.R4", pyx, None, "compiled bbox test signature changed: %s" % pyx.params(), kind="pyx-signature")
    # (d) _image_bounds returns (lon_min, lon_max, lat_min, lat_max) with matching extreme finders
    ib = project.fn(S + ".WcsSampler._image_bounds")
    run.note_func(ib)
    ev_nc = sym.make_evaluator(project, S, [])
    ev_nc.inline_closures = False
    rb = ev_nc.run(ib.node)
    if len(rb.returns) == 1:
        rb.returns[0] = (rb.returns[0][0], as_tuple(rb.returns[0][1]), rb.returns[0][2])
    if len(rb.returns) == 1 and rb.returns[0][1][0] == "tuple" and len(rb.returns[0][1][1]) == 4:
        got = [show(x) for x in rb.returns[0][1][1]]
        want_s = ["<closure refine_lon>(np.argmin)", "<closure refine_lon>(np.argmax)", "<closure refine_lat>(np.argmin)", "<closure refine_lat>(np.argmax)"]
        if got == want_s:
            run.holds("C07.R4", ib, rb.returns[0][2], "image bounds = (refine_lon(argmin), refine_lon(argmax), refine_lat(argmin), refine_lat(argmax))")
        else:
            run.violated("C07.R4", ib, rb.returns[0][2], "image bounds tuple is %s, expected (lon min, lon max, lat min, lat max)" % got, kind="image-bounds-order")
    else:
        run.undecided("C07.R4", ib, None, "cannot evaluate the tuple returned by _image_bounds", kind="image-bounds-shape")
    # the chunk sampler uses the bounds in the order (lon_min, lon_max, lat_min, lat_max): decided on the index
    # formulas of its closure, whatever the unpacked values are called
    sm = project.fn(S + ".ChunkedPlateCarreeSampler.sampler")
    rs = ev.run(sm.node)
    cb = ("call", ("attr", ("sym", "self"), "_chunk_bounds"), (("sym", sm.params()[1]),), ())
    B = [("item", cb, i) for i in range(4)]
    inner = list(rs.nested)
    fills = []
    if inner:
        fn_, env_ = rs.nested[inner[0]]
        rc_ = ev.run(fn_, env=env_)
        fills = [e for e in rc_.events if e.kind == "call" and e.term[1][0] == "attr" and e.term[1][2] == "fill_into_maskable_buffer"]
    if len(fills) != 1 or len(fills[0].term[2]) != 5 or not all(x[0] == "sub" for x in fills[0].term[2][1:3]):
        run.undecided("C07.R4", sm, None, "chunk sampler does not fill the buffer from index arrays", kind="chunk-unpack-shape")
    else:
        iy_t, ix_t = fills[0].term[2][1][1], fills[0].term[2][2][1]
        # bounds returned as a record (namedtuple): its fields are the four items, by position
        try:
            rcb = sym.make_evaluator(project, S, []).run(project.fn(S + ".ChunkedPlateCarreeSampler._chunk_bounds").node)
            rec = rcb.returns[0][1] if len(rcb.returns) == 1 else None
        except Exception:
            rec = None
        if rec is not None and rec[0] == "nt" and len(rec[2]) == 4:
            flds = ev.namedtuples.get(rec[1]) or ()
            if len(flds) == 4:
                m_ = {("attr", cb, fld): B[i] for i, fld in enumerate(flds)}
                iy_t, ix_t = _subst_term(iy_t, m_), _subst_term(ix_t, m_)
        used = [i for i in range(4) if B[i] in atoms_of(ix_t)], [i for i in range(4) if B[i] in atoms_of(iy_t)]
        if used == ([0, 1], [2, 3]):
            # x index from (lon_min, lon_max): (lon - lon_min) * nx/(lon_max - lon_min) - 1/2; y from (lat_min, lat_max), counted from lat_max
            def unround(t):
                while t[0] == "call" and (show(t[1]) in ("np.round", "int") or (t[1][0] == "attr" and t[1][2] == "astype")):
                    t = t[2][0] if show(t[1]) in ("np.round", "int") else t[1][1]
                return t
            fx, fy = unround(ix_t), unround(iy_t)
            cx = sym.coeffs(fx, B[0])
            cy = sym.coeffs(fy, B[3])
            okx = cx is not None and B[1] not in atoms_of(sym.add(sym.mul(cx[0], B[0]), num(0))) or cx is not None
            # orientation: d(ix)/d(lon_min) < 0 is not decidable as a sign of a symbolic quotient; what is decided is which
            # bound is the origin of each axis: ix vanishes (up to the half pixel) at lon = lon_min, iy at lat = lat_max
            lon_s, lat_s = ("sym", fn_.args.args[0].arg), ("sym", fn_.args.args[1].arg)
            at_origin_x = _subst_term(fx, {lon_s: B[0]})
            at_origin_y = _subst_term(fy, {lat_s: B[3]})
            wrap_free = not [a for a in atoms_of(at_origin_x) if a[0] == "op" and a[1] == "mod"] or True
            ox = _renorm_c07(at_origin_x)
            oy = _renorm_c07(at_origin_y)
            if num_value(oy) == sym.Fr(-1, 2) and (num_value(ox) == sym.Fr(-1, 2) or lon_s in atoms_of(fx) and num_value(ox) is None):
                run.holds("C07.R4", sm, fills[0].node, "chunk sampler: columns measured from lon_min over (lon_max - lon_min), rows from lat_max over (lat_max - lat_min)")
            elif num_value(oy) is not None and num_value(oy) != sym.Fr(-1, 2):
                run.violated("C07.R4", sm, fills[0].node, "chunk sampler: the row index at lat = lat_max is %s, expected -1/2 (rows counted down from the top edge)" % show(oy), kind="chunk-unpack")
            else:
                run.holds("C07.R4", sm, fills[0].node, "chunk sampler uses (bounds[0], bounds[1]) for the column index and (bounds[2], bounds[3]) for the row index")
        elif [u_ for u_ in common.unfollowed_project_calls(project, ix_t) + common.unfollowed_project_calls(project, iy_t) if u_ != cb]:
            run.undecided("C07.R4", sm, fills[0].node, "chunk sampler: the index arithmetic goes through %s, which is not followed" % show(
                [u_ for u_ in common.unfollowed_project_calls(project, ix_t) + common.unfollowed_project_calls(project, iy_t) if u_ != cb][0])[:70], kind="chunk-unpack-opaque")
        else:
            run.violated("C07.R4", sm, fills[0].node, "chunk sampler computes the column index from bounds %s and the row index from bounds %s of _chunk_bounds; "
                         "expected (lon_min, lon_max) = items 0, 1 and (lat_min, lat_max) = items 2, 3" % used, kind="chunk-unpack")


def _subst_term(t, m):
    if t in m:
        return m[t]
    if isinstance(t, tuple):
        return tuple(_subst_term(x, m) if isinstance(x, tuple) else x for x in t)
    return t


def _renorm_c07(t):
    from sa import termdiff
    try:
        return termdiff.renorm(t)
    except Exception:
        return t


def _late_bound_closures(fnode):
    """Lambdas / nested functions created inside a loop that read a variable the loop body assigns, without binding it
    (default argument): when they run after the loop they all see the value of the last iteration."""
    out = []
    for loop in [n for n in ast.walk(fnode) if isinstance(n, (ast.For, ast.While))]:
        assigned = set()
        for n in ast.walk(loop):
            if isinstance(n, ast.Name) and isinstance(n.ctx, ast.Store):
                assigned.add(n.id)
        for n in ast.walk(loop):
            if isinstance(n, (ast.Lambda, ast.FunctionDef)) and n is not fnode:
                a = n.args
                bound = {x.arg for x in a.posonlyargs + a.args + a.kwonlyargs}
                body_nodes = [n.body] if isinstance(n, ast.Lambda) else n.body
                local = set()
                for b in body_nodes:
                    for x in ast.walk(b):
                        if isinstance(x, ast.Name) and isinstance(x.ctx, ast.Store):
                            local.add(x.id)
                free = set()
                for b in body_nodes:
                    for x in ast.walk(b):
                        if isinstance(x, ast.Name) and isinstance(x.ctx, ast.Load) and x.id not in bound and x.id not in local:
                            free.add(x.id)
                late = sorted(free & assigned)
                if late:
                    out.append((n, late))
    return out


def _r7_union_filter(run):
    """The cascade after a multi-image TOAST tiling visits a tile iff *some* image's filter accepted it."""
    project = run.project
    q = "toasty.fits_tiler.FitsTiler._tile_toast"
    f = project.funcs.get(q)
    if f is None:
        run.undecided("C07.R7", None, None, "FitsTiler._tile_toast not found", kind="anchor", construct="FitsTiler._tile_toast", file="toasty/fits_tiler.py")
        return
    run.note_func(f)
    ev = sym.make_evaluator(project, "toasty.fits_tiler", [])
    r = ev.run(f.node)
    late = _late_bound_closures(f.node)
    # late binding matters only if the closure is used after its iteration: it is, when it (or something built from it) is the cascade's filter
    casc = [e for e in r.events if e.kind == "call" and e.term[1][0] == "attr" and e.term[1][2] == "cascade"]
    if not casc:
        run.undecided("C07.R7", f, None, "no cascade call in _tile_toast", kind="no-cascade")
        return
    flt = dict(casc[0].term[3]).get("tile_filter")
    if flt is None:
        run.holds("C07.R7", f, casc[0].node, "the cascade runs unfiltered (every tile is visited)")
        return
    if late:
        n, names = late[0]
        run.violated("C07.R7", f, n, "a closure created inside the per-image loop reads %s, which the loop reassigns, without binding it: when the cascade filter runs, "
                     "every such closure sees the *last* image's value, so tiles covered only by earlier images are skipped by the cascade" % names, kind="late-bound-filter")
        return
    # recognised form: per-image filters appended to a list L (unconditionally, in the loop over all images); the cascade filter is a
    # nested function returning True as soon as one element of L accepts the tile
    img_loops = [(k, it, nd) for k, it, nd in r.loops if it[0] == "call" and it[1][0] == "attr" and it[1][2] == "images"]
    filt_calls = [e for e in r.events if e.kind == "call" and e.term[1][0] == "attr" and e.term[1][2] == "filter" and any(("loop", k) in e.pc for k, it, nd in img_loops)]
    apps = [e for e in r.events if e.kind == "call" and e.term[1][0] == "attr" and e.term[1][2] == "append" and e.term[2]
            and any(e.term[2][0] == fc.term or (fc.extra is not None and e.term[2][0] == fc.extra) for fc in filt_calls)]
    ok = False
    why = "per-image filters are not collected"
    if img_loops and filt_calls and apps:
        a0 = apps[0]
        L = a0.term[1][1]
        uncond = not [c for c in a0.pc if c[0] != "loop"] and any(("loop", k) in a0.pc for k, it, nd in img_loops)
        why = "the per-image filter is appended only conditionally" if not uncond else "the cascade filter is not `any filter in the list accepts`"
        if uncond and flt[0] == "sym" and flt[1].startswith("<closure ") and flt[1][9:-1] in r.nested:
            fn_, env_ = r.nested[flt[1][9:-1]]
            rc = ev.run(fn_, env=env_)
            tile_p = ("sym", fn_.args.args[0].arg) if fn_.args.args else None
            trues = [(pc, t) for pc, t, nd in rc.returns if t == sym.TRUE]
            falses = [(pc, t) for pc, t, nd in rc.returns if t == sym.FALSE]
            loopsL = [k for k, it, nd in rc.loops if it == L]
            if tile_p is not None and len(rc.returns) == 1 and not [c for c in rc.returns[0][0] if c[0] != "loop"]:
                # return any(flt(tile) for flt in L)
                t_ = rc.returns[0][1]
                arg_ = t_[2][0] if (t_[0] == "call" and t_[1] == ("sym", "any") and len(t_[2]) == 1 and not t_[3]) else (t_[2][0] if (t_[0] == "op" and t_[1] == "any" and t_[2]) else None)
                if arg_ is not None and arg_[0] == "op" and arg_[1] == "comp" and len(arg_[2]) == 4:
                    kind_, elt_, it_, cnd_ = arg_[2]
                    ok = it_ == L and elt_ == ("call", ("elem", L), (tile_p,), ()) and cnd_ in (sym.TRUE, ("const", True))
            if tile_p is not None and loopsL and len(trues) == 1 and len(falses) == 1 and len(rc.returns) == 2:
                k = loopsL[0]
                el = ("elem", L)
                want = ("call", el, (tile_p,), ())
                pc_t = [c for c in trues[0][0] if c[0] != "loop"]
                ok = ("loop", k) in trues[0][0] and boolalg.equiv(boolalg.conj(pc_t), want) is True and not [c for c in falses[0][0] if c[0] == "loop"]
    if ok:
        run.holds("C07.R7", f, casc[0].node, "cascade filter = some per-image footprint filter accepts the tile (all images' filters collected)")
    else:
        run.undecided("C07.R7", f, casc[0].node, "the cascade's tile filter is built in a form the rule does not know (%s)" % why, kind="union-filter-shape")


def _r5_r6_refinement(run):
    project = run.project
    ib = project.fn(S + ".WcsSampler._image_bounds")
    ev = sym.make_evaluator(project, S, [])
    ev_outer = sym.make_evaluator(project, S, [])
    ev_outer.inline_closures = False
    rb = ev_outer.run(ib.node)
    ev._closures = dict(ev_outer._closures)      # sibling helper closures are inlined when the refinement closures call them
    cenv = rb.nested["refine_lon"][1] if "refine_lon" in rb.nested else (rb.env or {})
    c1, c2 = _coarse_axes(rb, cenv)
    n_lin = 0
    for name in ("refine_lat", "refine_lon"):
        if name not in rb.nested:
            run.undecided("C07.R5", ib, None, "closure %s not found" % name, kind="no-closure")
            continue
        fn, env = rb.nested[name]
        f = project.fn(S + ".WcsSampler._image_bounds." + name)
        run.note_func(f)
        r = ev.run(fn, env=env)
        # every linspace call in the closure
        for e in r.events:
            if e.kind != "call" or show(e.term[1]) != "np.linspace":
                continue
            n_lin += 1
            a = e.term[2]
            if len(a) < 3:
                run.undecided("C07.R5", f, e.node, "linspace without explicit sample count", kind="linspace-args")
                continue
            lo, hi, n = a[0], a[1], a[2]
            verdict, why = _count_lower_bound(n, lo, hi)
            if verdict == "ok":
                run.holds("C07.R5", f, e.node, "sample count %s >= 2 whenever the range is not a single point" % show(n)[:80])
            elif verdict == "bad":
                run.violated("C07.R5", f, e.node, "np.linspace(%s, %s, n) with n = %s: %s -- with one sample only the lower end is evaluated and the "
                             "extreme at the upper end is missed (bounds fall short for narrow images)" % (show(lo)[:40], show(hi)[:40], show(n)[:80], why),
                             kind="linspace-single-sample")
            else:
                run.undecided("C07.R5", f, e.node, "cannot bound the sample count %s from below" % show(n)[:100], kind="linspace-count")
        # R6 axis discipline: stores into refined_pix[..., 0] / [..., 1]
        for e in r.events:
            if e.kind != "store" or e.term[1][0][0] != "sub":
                continue
            lv, val = e.term[1]
            idx = lv[2]
            if idx[0] != "tuple" or len(idx[1]) != 2 or idx[1][0] != ("const", Ellipsis):
                continue
            col = num_value(idx[1][1])
            if col not in (0, 1) or not (lv[1][0] == "new" and show(lv[1][2]).startswith("np.empty(")):
                continue
            deps = _axis_deps(val, c1, c2)
            want = "1" if col == 0 else "2"
            other = "2" if col == 0 else "1"
            # ignore the sample count (it may come from either axis): strip the 3rd linspace argument / zeros(n)
            if other in deps:
                run.violated("C07.R6", f, e.node, "pixel coordinate column %d (FITS axis %s) of the refinement grid is built from samples of axis %s: "
                             "the refined search runs along the wrong image edge" % (col, want, other), kind="refinement-axis")
            elif want in deps:
                run.holds("C07.R6", f, e.node, "refinement column %d fed from axis-%s samples only" % (col, want))
            else:
                run.undecided("C07.R6", f, e.node, "cannot trace refinement column %d to the coarse index arrays" % col, kind="refinement-trace")
    # coarse grid
    for e in rb.events:
        if e.kind == "store" and e.term[1][0][0] == "sub" and e.term[1][0][1][0] == "new" and show(e.term[1][0][1][2]).startswith("np.empty(") \
                and not [c for c in e.pc if c[0] != "loop"]:
            idx = e.term[1][0][2]
            if idx[0] == "tuple" and len(idx[1]) == 2 and idx[1][0] == ("const", Ellipsis):
                col = num_value(idx[1][1])
                deps = _axis_deps(e.term[1][1], c1, c2)
                want = "1" if col == 0 else "2"
                if deps == {want}:
                    run.holds("C07.R6", ib, e.node, "coarse grid column %d from axis %s" % (col, want))
                else:
                    run.violated("C07.R6", ib, e.node, "coarse grid column %d is built from axis %s samples" % (col, sorted(deps)), kind="coarse-axis")
    # axis 1 spans naxis1 = shape[1] (x), axis 2 spans shape[0]
    if c1 is not None and c2 is not None:
        s1, s2 = show(c1), show(c2)
        ok = "#1" in s1 and "#0" in s2 and "#0" not in s1 and "#1" not in s2
        # ... from the outer edge of the first pixel (FITS coordinate 1/2) to the outer edge of the last one (n + 1/2): the
        # footprint is the area of the pixels, and tile pixel centres that land in the outer half-pixel rim are sampled
        short = None
        if ok:
            shp = ("attr", ("attr", ("sym", "self"), "_image"), "shape")
            for cc, k in ((c1, 1), (c2, 0)):
                ctor_ = cc[2] if cc[0] == "new" else cc
                lo_, hi_ = ctor_[2][0], ctor_[2][1]
                lo_v = num_value(lo_)
                hi_v = num_value(sym.sub(hi_, ("item", shp, k)))
                if lo_v is None or hi_v is None:
                    continue
                if lo_v > sym.Fr(1, 2) or hi_v < sym.Fr(1, 2):
                    short = (k, show(lo_), show(hi_))
        if ok and short:
            run.violated("C07.R6", ib, None, "the coarse grid along shape[%d] spans %s .. %s: it stops short of the outer pixel edges (1/2 .. n + 1/2), so the bounds cover "
                         "the pixel centres only and miss the half-pixel rim of the image, where tile pixel centres are still sampled" % short, kind="coarse-extent")
        elif ok:
            run.holds("C07.R6", ib, None, "coarse axis 1 spans 0.5..naxis1+0.5 (shape[1]), axis 2 spans shape[0]")
        else:
            run.violated("C07.R6", ib, None, "coarse index arrays span %s / %s; expected axis 1 over shape[1] and axis 2 over shape[0]" % (s1[:80], s2[:80]),
                         kind="coarse-extent")


def _coarse_axes(rb, cenv):
    """The two 1-D sample arrays along image axis 1 and axis 2, whatever they are called: the linspace arrays spanning
    0.5 .. shape[1] + 0.5 and 0.5 .. shape[0] + 0.5 bound in _image_bounds."""
    c1 = c2 = None
    for name, v in cenv.items():
        if not isinstance(name, str):
            continue
        t = v[2] if v[0] == "new" else v
        if t[0] == "call" and show(t[1]) == "np.linspace" and len(t[2]) >= 2:
            s_ = show(t[2][1])
            if "shape#1" in s_ and "shape#0" not in s_:
                c1 = v
            elif "shape#0" in s_ and "shape#1" not in s_:
                c2 = v
    return c1, c2


def _axis_deps(val, c1, c2):
    """{'1','2'} according to which coarse index array the *coordinates* (not the
    sample count) of a grid column depend on."""
    deps = set()

    def visit(t, skip_count=False):
        if not isinstance(t, tuple) or not t:
            return
        if t == c1:
            deps.add("1")
            return
        if t == c2:
            deps.add("2")
            return
        if t[0] == "call" and show(t[1]) == "np.linspace" and len(t[2]) >= 3:
            visit(t[2][0])
            visit(t[2][1])
            return
        if t[0] == "call" and show(t[1]) in ("np.zeros", "np.ones", "np.empty"):
            return
        if t[0] == "call" and show(t[1]) in ("np.full", "np.repeat") and len(t[2]) >= 2:
            # np.full(count, value) / np.repeat(value, count): only the value is a coordinate
            return visit(t[2][1] if show(t[1]) == "np.full" else t[2][0])
        if t[0] == "new":
            return visit(t[2])
        for x in t[1:] if isinstance(t[0], str) else t:
            if isinstance(x, tuple):
                visit(x)
    visit(val)
    return deps


def _count_lower_bound(n, lo, hi):
    """Static lower bound of a linspace sample count."""
    k = num_value(n)
    if k is not None:
        return ("ok", "") if k >= 2 else ("bad", "the count is the constant %s" % k)
    # max(expr, c)
    if n[0] == "call" and n[1] == ("sym", "max"):
        consts = [num_value(a) for a in n[2] if num_value(a) is not None]
        if consts:
            c = max(consts)
            return ("ok", "") if c >= 2 else ("bad", "the count is only bounded below by %s" % c)
    # int(ceil(hi - lo)) + k  with k >= 1
    if n[0] == "poly":
        d = dict(n[1])
        const = d.get((), 0)
        rest = {m: c for m, c in d.items() if m != ()}
        if len(rest) == 1:
            (m, c), = rest.items()
            if c == 1 and len(m) == 1 and m[0][1] == 1:
                atom = m[0][0]
                s = show(atom)
                if "ceil" in s and atom[0] == "call":
                    inner = atom
                    while inner[0] == "call" and show(inner[1]) in ("int", "np.ceil", "math.ceil") and inner[2]:
                        inner = inner[2][0]
                    if inner == sym.sub(hi, lo):
                        return ("ok", "") if const >= 1 else ("bad", "ceil(hi - lo) + %s can be 1 while hi != lo" % const)
    # int(round(hi - lo)) + k: round() is 0 for spans under half a pixel, so the count is only bounded below by k
    if n[0] == "poly":
        d_ = dict(n[1])
        const_ = d_.get((), 0)
        rest_ = {m: c for m, c in d_.items() if m != ()}
        if len(rest_) == 1:
            (m_, c_), = rest_.items()
            if c_ == 1 and len(m_) == 1 and m_[0][1] == 1 and m_[0][0][0] == "call":
                inner_ = m_[0][0]
                rounded = False
                while inner_[0] == "call" and show(inner_[1]) in ("int", "np.round", "round", "np.rint", "np.floor", "math.floor") and inner_[2]:
                    rounded = rounded or show(inner_[1]) in ("np.round", "round", "np.rint", "np.floor", "math.floor")
                    inner_ = inner_[2][0]
                if rounded and inner_ == sym.sub(hi, lo):
                    return ("ok", "") if const_ >= 2 else ("bad", "round()/floor() of a span under half a pixel is 0, so the count can be %s while hi != lo" % const_)
    if n[0] == "call" and show(n[1]) == "int":
        inner = n
        while inner[0] == "call" and show(inner[1]) in ("int", "np.ceil", "math.ceil") and inner[2]:
            inner = inner[2][0]
        if inner == sym.sub(hi, lo):
            return ("bad", "ceil(hi - lo) is 1 for ranges up to one pixel")
    return ("unknown", "")


def _subterms_c07(t):
    if isinstance(t, tuple):
        if t and isinstance(t[0], str):
            yield t
        for x in t:
            if isinstance(x, tuple):
                for y in _subterms_c07(x):
                    yield y


# ---------------------------------------------------------------------------------------------------------------------
# R9: the longitude refinement looks where the extreme perimeter sample is


def _concrete_index(t, n):
    """The list of positions a constant index term (integer or slice) selects in a dimension of length n."""
    if t[0] == "slice":
        parts = []
        for x in t[1:4]:
            if x == ("const", None):
                parts.append(None)
            else:
                v = num_value(x)
                if v is None or v.denominator != 1:
                    return None
                parts.append(int(v))
        return list(range(*slice(*parts).indices(n)))
    v = num_value(t)
    if v is None or v.denominator != 1:
        return None
    v = int(v)
    return [v + n if v < 0 else v] if -n <= v < n else None


def _perimeter_map(rb, n_coarse):
    """Which coarse grid node (i_dim0, i_dim1) each slot of the 1-D perimeter array is copied from: read off the
    slice-to-slice copies `edge[a:b] = plane[s0, s1]` of the outer function. Returns (array term, [(i0, i1), ..]) or
    (None, reason)."""
    by_array = {}
    for e in rb.events:
        if e.kind != "store" or [c for c in e.pc]:
            continue
        lv, val = e.term[1]
        if lv[0] != "sub" or lv[1][0] != "new" or lv[2][0] != "slice":
            continue
        if val[0] != "sub" or val[2][0] != "tuple" or len(val[2][1]) != 2:
            continue
        by_array.setdefault(lv[1], []).append((e, lv[2], val[2][1]))
    for arr, copies in by_array.items():
        if len(copies) < 2:
            continue
        size = None
        ctor = arr[2]
        if ctor[0] == "call" and ctor[2]:
            v = num_value(ctor[2][0])
            size = int(v) if v is not None and v.denominator == 1 else None
        if size is None:
            return None, "the perimeter array's length is not a constant"
        slots = [None] * size
        for e, dst, (s0, s1) in copies:
            d = _concrete_index(dst, size)
            i0 = _concrete_index(s0, n_coarse)
            i1 = _concrete_index(s1, n_coarse)
            if d is None or i0 is None or i1 is None:
                return None, "a copy into the perimeter array at line %d has non-constant bounds" % e.node.lineno
            if len(i0) == 1 and s0[0] != "slice":
                i0 = i0 * len(d)
            if len(i1) == 1 and s1[0] != "slice":
                i1 = i1 * len(d)
            if not (len(i0) == len(i1) == len(d)):
                return None, "the copy at line %d moves %d/%d grid nodes into %d slots (numpy would raise or broadcast)" % (e.node.lineno, len(i0), len(i1), len(d))
            for k, a, b in zip(d, i0, i1):
                slots[k] = (a, b)
        if any(x is None for x in slots):
            return None, "not every slot of the perimeter array is filled by a constant-bounds copy"
        return arr, slots
    return None, "no 1-D array filled edge by edge from the coarse longitude plane was found"


def _dim_of_axis(rb):
    """{'1': dim, '2': dim}: along which dimension of the coarse grid each image axis varies, from the reshape of the
    stores into the coarse pixel grid (`[..., 0] = idx1.reshape((-1, 1))` -> axis 1 varies along dim 0)."""
    out = {}
    for e in rb.events:
        if e.kind != "store" or e.pc:
            continue
        lv, val = e.term[1]
        if lv[0] != "sub" or lv[2][0] != "tuple" or len(lv[2][1]) != 2 or lv[2][1][0] != ("const", Ellipsis):
            continue
        col = num_value(lv[2][1][1])
        if col not in (0, 1):
            continue
        if val[0] == "call" and val[1][0] == "attr" and val[1][2] == "reshape" and val[2] and val[2][0][0] == "tuple":
            shp = [num_value(x) for x in val[2][0][1]]
            if shp == [-1, 1]:
                out["1" if col == 0 else "2"] = 0
            elif shp == [1, -1]:
                out["1" if col == 0 else "2"] = 1
    return out


def _r9_perimeter(run):
    from sa import teval as _teval
    project = run.project
    ib = project.fn(S + ".WcsSampler._image_bounds")
    ev_outer = sym.make_evaluator(project, S, [])
    ev_outer.inline_closures = False
    rb = ev_outer.run(ib.node)
    CONSTRUCT = "WcsSampler._image_bounds"

    def und(msg, kind, node=None):
        run.undecided("C07.R9", ib, node, msg, kind=kind, construct=CONSTRUCT)

    if "refine_lon" not in rb.nested:
        # the longitude refinement is whatever closure subscripts the perimeter array's companion (deltas) - fall back on any
        cands = [k for k in rb.nested if k != "refine_lat"]
        if len(cands) != 1:
            return und("the longitude refinement closure was not found", "no-closure")
        name = cands[0]
    else:
        name = "refine_lon"
    fn, env = rb.nested[name]
    c1, c2 = _coarse_axes(rb, env)
    if c1 is None or c2 is None:
        return und("the coarse index arrays were not found", "no-coarse-axes")
    ctor = c1[2] if c1[0] == "new" else c1
    n_coarse = num_value(ctor[2][2]) if len(ctor[2]) >= 3 else None
    if n_coarse is None or n_coarse.denominator != 1:
        return und("the coarse grid size is not a constant", "coarse-size")
    n_coarse = int(n_coarse)
    dims = _dim_of_axis(rb)
    if sorted(dims) != ["1", "2"] or sorted(dims.values()) != [0, 1]:
        return und("cannot tell along which grid dimension each image axis varies", "grid-dims")
    arr, slots = _perimeter_map(rb, n_coarse)
    if arr is None:
        return und(slots, "perimeter-map")
    # position of every perimeter sample as (index on axis 1, index on axis 2)
    P = [(s[dims["1"]], s[dims["2"]]) for s in slots]
    nmax = n_coarse - 1
    if not all((a in (0, nmax)) or (b in (0, nmax)) for a, b in P):
        bad = [k for k, (a, b) in enumerate(P) if not ((a in (0, nmax)) or (b in (0, nmax)))]
        run.violated("C07.R9", ib, None, "perimeter samples %s are copied from interior nodes of the coarse grid, not from an image edge" % _ranges(bad),
                     kind="perimeter-interior", construct=CONSTRUCT)
        return

    ev = sym.make_evaluator(project, S, [])
    ev._closures = dict(ev_outer._closures)
    r = ev.run(fn, env=env)
    params = [a.arg for a in fn.args.args]
    # the extreme sample: the closure's parameter applied to the perimeter array
    e_atoms = set()

    def find_e(t):
        if not isinstance(t, tuple) or not t:
            return
        if t[0] == "call" and t[1][0] == "sym" and t[1][1] in params:
            e_atoms.add(t)
            return
        for x in t[1:] if isinstance(t[0], str) else t:
            if isinstance(x, tuple):
                find_e(x)
    # stores into the columns of the refined pixel list: `<fresh array>[..., c] = value`
    by_base = {}
    for e in r.events:
        if e.kind != "store" or e.term[1][0][0] != "sub":
            continue
        lv, val = e.term[1]
        idx = lv[2]
        if idx[0] != "tuple" or len(idx[1]) != 2 or idx[1][0] != ("const", Ellipsis) or lv[1][0] != "new":
            continue
        by_base.setdefault(lv[1][1], []).append((e, idx[1][1], val))
        find_e(val)
        find_e(idx[1][1])
        for c in e.pc:
            find_e(c)
    col_stores = [v for v in by_base.values() if len(v) >= 2]
    if len(col_stores) != 1 or len(e_atoms) != 1:
        return und("the refined pixel list of %s is not built by column stores `pix[..., c] = ...` from one extreme-sample index "
                   "(%d candidate arrays, %d index atoms)" % (name, len(col_stores), len(e_atoms)), "refined-shape", fn)
    col_stores = col_stores[0]
    first_node = col_stores[0][0].node
    e_atom = next(iter(e_atoms))
    f = project.fn(S + ".WcsSampler._image_bounds." + name)
    run.note_func(f)

    def size_hook(envv):
        # the length of a coarse index array is the coarse grid size
        def hook(t, rec):
            if t[0] == "attr" and t[2] == "size" and which_axis(t[1], envv) is not None:
                return n_coarse
            if t[0] == "call" and t[1] == ("sym", "len") and len(t[2]) == 1 and which_axis(t[2][0], envv) is not None:
                return n_coarse
            if t[0] == "item" and t[2] == 0 and t[1][0] == "attr" and t[1][2] == "shape" and which_axis(t[1][1], envv) is not None:
                return n_coarse
            return NotImplemented
        return [hook]

    def as_int(t, envv):
        v = _teval.teval(t, envv, size_hook(envv))
        if v is _teval.UNKNOWN or v is _teval.RAISES or isinstance(v, bool) or not isinstance(v, int):
            return None
        return v

    def which_axis(t, envv, depth=0):
        """'1' / '2' if t denotes one of the two coarse index arrays (directly, or picked from a tuple of them)."""
        if t == c1:
            return "1"
        if t == c2:
            return "2"
        if depth > 6 or not isinstance(t, tuple) or not t:
            return None
        if t[0] in ("sub", "item") and isinstance(t[1], tuple) and t[1] and t[1][0] in ("tuple", "list"):
            j = t[2] if not isinstance(t[2], tuple) else as_int(t[2], envv)
            if isinstance(j, int) and not isinstance(j, bool) and -len(t[1][1]) <= j < len(t[1][1]):
                return which_axis(t[1][1][j], envv, depth + 1)
            return None
        if t[0] == "ite":
            c = _teval.teval(t[1], envv)
            if c is _teval.UNKNOWN or c is _teval.RAISES:
                return None
            return which_axis(t[2] if c else t[3], envv, depth + 1)
        return None

    def elem(t, envv):
        """(axis, index) if t is one element of a coarse index array."""
        if t[0] in ("sub", "item"):
            ax = which_axis(t[1], envv)
            if ax is None:
                return None
            kv = t[2] if not isinstance(t[2], tuple) else as_int(t[2], envv)
            if isinstance(kv, bool) or not isinstance(kv, int):
                return None
            if kv < 0:
                kv += n_coarse
            return (ax, kv) if 0 <= kv < n_coarse else None
        if t[0] == "ite":
            c = _teval.teval(t[1], envv)
            if c is _teval.UNKNOWN or c is _teval.RAISES:
                return None
            return elem(t[2] if c else t[3], envv)
        return None

    def value(t, envv):
        if t[0] == "new":
            return value(t[2], envv)
        if t[0] == "ite":
            c = _teval.teval(t[1], envv)
            if c is _teval.UNKNOWN or c is _teval.RAISES:
                return None
            return value(t[2] if c else t[3], envv)
        if t[0] == "call" and show(t[1]) == "np.linspace" and len(t[2]) >= 2:
            a, b = elem(t[2][0], envv), elem(t[2][1], envv)
            if a and b and a[0] == b[0]:
                return ("lin", a[0], min(a[1], b[1]), max(a[1], b[1]))
            return None
        if t[0] == "call" and show(t[1]) == "np.full" and len(t[2]) >= 2:
            a = elem(t[2][1], envv)
            return ("fix", a[0], a[1]) if a else None
        if t[0] == "call" and show(t[1]) == "np.repeat" and len(t[2]) >= 2:
            a = elem(t[2][0], envv)
            return ("fix", a[0], a[1]) if a else None
        a = elem(t, envv)
        if a:
            return ("fix", a[0], a[1])
        if t[0] == "poly":
            # np.zeros(n) + A[k]
            fixed = None
            for m, c in t[1]:
                if c != 1 or len(m) != 1 or m[0][1] != 1:
                    return None
                at = m[0][0]
                inner = at[2] if at[0] == "new" else at
                if inner[0] == "call" and show(inner[1]) in ("np.zeros", "np.zeros_like"):
                    continue
                a = elem(at, envv)
                if a is None or fixed is not None:
                    return None
                fixed = a
            return ("fix", fixed[0], fixed[1]) if fixed else None
        return None

    def columns(envv):
        """{column: value} of the refined pixel list for one sample, or None."""
        out = {}
        for e, ci, val in col_stores:
            live = True
            for c in e.pc:
                if c[0] == "loop":
                    return None
                cv = _teval.teval(c, envv)
                if cv is _teval.UNKNOWN or cv is _teval.RAISES:
                    return None
                if not cv:
                    live = False
                    break
            if not live:
                continue
            col = num_value(ci)
            col = int(col) if col is not None and col.denominator == 1 else as_int(ci, envv)
            if col not in (0, 1):
                return None
            out[col] = value(val, envv)
        return out if sorted(out) == [0, 1] and None not in out.values() else None

    problems = {}
    unknown = []
    size = len(P)
    for k in range(size):
        envv = {e_atom: k}
        cv = columns(envv)
        if cv is None:
            unknown.append(k)
            continue
        v0, v1 = cv[0], cv[1]
        lin = [v for v in (v0, v1) if v[0] == "lin"]
        fix = [v for v in (v0, v1) if v[0] == "fix"]
        if len(lin) != 1 or len(fix) != 1 or lin[0][1] == fix[0][1]:
            unknown.append(k)
            continue
        _, ax, lo, hi = lin[0]
        _, bx, q = fix[0]
        pos = {"1": P[k][0], "2": P[k][1]}
        p = pos[ax]
        if q != pos[bx] or not (lo <= p <= hi):
            problems.setdefault("window-misses-sample", []).append(k)
            continue
        if lo > max(p - 1, 0) or hi < min(p + 1, nmax):
            problems.setdefault("window-off-centre", []).append(k)
            continue
        # perimeter neighbours that lie on another edge (k is a corner): the first coarse cell of that edge is not searched
        nb = []
        for j in (k - 1, k + 1):
            if j < 0:
                j = size - 2 if P[0] == P[-1] else None
            elif j >= size:
                j = 1 if P[0] == P[-1] else None
            if j is not None:
                nb.append(P[j])
        if any({"1": a, "2": b}[bx] != q for a, b in nb):
            problems.setdefault("corner-one-edge", []).append(k)
    if unknown:
        return und("the refinement window of perimeter samples %s could not be evaluated (an array expression outside "
                   "linspace / constant column over the coarse index arrays)" % _ranges(unknown), "window-form", first_node)
    texts = {
        "window-misses-sample": "the pixels refined for perimeter sample(s) %s do not contain that sample's own position on the image edge "
                                "(the refinement looks at another edge or another stretch of the edge than the one the coarse extreme lies on): "
                                "the true extreme longitude is not found and the bounds fall short",
        "window-off-centre": "the refinement window of perimeter sample(s) %s does not reach one coarse sample to either side of the "
                             "sample (it is centred on a neighbouring sample): the coarse cell on the far side of the extreme is never "
                             "searched and the longitude bounds can fall short of the image",
        "corner-one-edge": "corner sample(s) %s of the perimeter walk are refined along one of their two edges only: an extreme in the "
                           "first coarse cell of the other edge is missed and the longitude bounds can fall short of the image",
    }
    for kind in ("window-misses-sample", "window-off-centre", "corner-one-edge"):
        if kind in problems:
            run.violated("C07.R9", f, first_node, texts[kind] % _ranges(problems[kind]), kind=kind, construct=CONSTRUCT,
                         samples=_ranges(problems[kind]), perimeter_length=size)
    good = size - sum(len(v) for v in problems.values())
    if good:
        run.holds("C07.R9", f, first_node, "%d of %d perimeter samples: the refined stretch lies on the sample's edge, contains it and "
                  "reaches one coarse sample to either side" % (good, size), construct=CONSTRUCT + " (samples in order)")


def _ranges(xs):
    xs = sorted(xs)
    out = []
    i = 0
    while i < len(xs):
        j = i
        while j + 1 < len(xs) and xs[j + 1] == xs[j] + 1:
            j += 1
        out.append(str(xs[i]) if i == j else "%d-%d" % (xs[i], xs[j]))
        i = j + 1
    return ", ".join(out)


# ---------------------------------------------------------------------------------------------------------------------
# R10: the footprint box and the sampler use the same pixel <-> world model

_FULL = {"all_pix2world", "all_world2pix", "pixel_to_world", "pixel_to_world_values", "array_index_to_world", "array_index_to_world_values",
         "world_to_pixel", "world_to_pixel_values", "world_to_array_index", "world_to_array_index_values"}
_CORE = {"wcs_pix2world", "wcs_world2pix"}


def _r10_transform_agreement(run):
    """The sampler decides which sky positions receive data by inverting the image's WCS; the box behind the tile filter is
    computed by applying it forwards.  Both must use the same model: astropy's `all_*` / high-level API calls include the
    distortion terms (SIP, lookup tables), the `wcs_*` calls are the core transform only.  A box from the core transform around
    an image that is sampled with distortions falls short of the sampled footprint by the size of the distortion."""
    project = run.project
    ib = project.fn(S + ".WcsSampler._image_bounds")
    sm = project.funcs.get(S + ".WcsSampler.sampler")
    if sm is None:
        run.undecided("C07.R10", ib, None, "WcsSampler.sampler not found", kind="no-sampler")
        return

    def wcs_calls(f):
        out = []
        for x in ast.walk(f.node):
            if isinstance(x, ast.Call) and isinstance(x.func, ast.Attribute):
                m = x.func.attr
                recv = ast.unparse(x.func.value)
                if m in _FULL | _CORE and "wcs" in recv.lower():
                    out.append((x, m, "full" if m in _FULL else "core"))
                elif m == "to_pixel":
                    mode = [k.value for k in x.keywords if k.arg == "mode"]
                    kind = "full"
                    if mode:
                        kind = {"all": "full", "wcs": "core"}.get(mode[0].value if isinstance(mode[0], ast.Constant) else None)
                    out.append((x, m, kind))
        return out
    fwd, inv = wcs_calls(ib), wcs_calls(sm)
    run.note_func(ib, sm)
    if not fwd or not inv:
        run.undecided("C07.R10", ib if not fwd else sm, None, "no pixel/world transform call found in %s" % ("_image_bounds" if not fwd else "sampler"), kind="transform-calls")
        return
    if any(k is None for _x, _m, k in fwd + inv):
        run.undecided("C07.R10", sm, None, "a transform is called with a mode that is not a literal", kind="transform-mode")
        return
    inv_kinds = {k for _x, _m, k in inv}
    if len(inv_kinds) != 1:
        run.undecided("C07.R10", sm, inv[0][0], "the sampler mixes full and core transforms (%s)" % sorted({m for _x, m, _k in inv}), kind="transform-mixed")
        return
    want = next(iter(inv_kinds))
    bad = [(x, m) for x, m, k in fwd if k != want]
    if bad:
        x, m = bad[0]
        run.violated("C07.R10", ib, x, "the footprint box is computed with %s (%s transform) at %d site(s), but the sampler locates pixels with %s (%s transform): for an image "
                     "with distortion terms (SIP) the box and the sampled footprint differ by the size of the distortion, and the tile filter rejects tiles the sampler "
                     "would fill" % (m, "core, distortion ignored" if want == "full" else "full", len(bad), inv[0][1], "full, including distortion" if want == "full" else "core"),
                     kind="bounds-transform-mismatch")
    else:
        run.holds("C07.R10", ib, fwd[0][0], "%d forward transform call(s) of the bounds and the sampler's inverse (%s) use the same (%s) model" % (len(fwd), inv[0][1], want))
