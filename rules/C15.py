"""C15 - Undefined pixels stay undefined: mask semantics and tile persistence.

R1 exhaustiveness: every ImageMode member is handled by exactly one non-raising branch of each mode dispatcher
R2 sentinel agreement: per mode, clear / fill / is_completely_masked / update use one undefined-value
   convention (NaN-class: NaN fill, all-isnan, ~isnan validity per *pixel*; RGBA: zero fill, alpha == 0,
   alpha != 0; RGB: alpha 255 on the addressed region, never masked; integers: zero fill, never masked, maximum)
R3 locality: fill fills the whole buffer with the sentinel and assigns only buffer[by, bx]; update writes
   only through buffer[by, bx]
R4 the two dtype -> mode tables agree
R7 buffer layout: for every mode M the array allocated by make_maskable_buffer (dimensions, channels, dtype) is one that the
   library's own dtype -> mode table classifies as M again (RGB -> RGBA, the mode with the mask channel)
R5 persistence: a fully masked tile unlinks exactly the path it would have been saved to; a missing tile
   reads as None / a fresh all-undefined buffer per `default`; only errno 2 is treated as 'missing'
"""
import ast

from sa import sym, boolalg
from sa.teval import teval, UNKNOWN
from sa.sym import show, num, num_value, atoms_of
from sa.model import dotted, own_calls, own_nodes, callee_attr

IMG = "toasty.image"
PYR = "toasty.pyramid"

EXPLANATION = (
    "Mode dispatchers (if/elif chains comparing the image mode with ImageMode members) are discovered in image.py; for "
    "each chain the members handled per branch are extracted and compared with the enum's member list (exhaustiveness, "
    "no duplicates, raising else). Per branch the abstract evaluator gives the operations performed (fill value, validity "
    "mask term, masked-test term), which are classified into an undefined-value convention; the conventions of clear, fill, "
    "is_completely_masked and update must agree per mode with the documented table. Locality is the set of store targets of "
    "fill/update. For persistence the unlink and save path terms of write_image are compared, and read_image's results on "
    "the missing-file path are checked (None / freshly allocated cleared buffer)."
)

MANIFEST = {
    "technique": "static analysis: partial evaluation of every mode dispatcher under mode == M for the 8 modes (exhaustiveness and convention agreement independent of dispatch shape), store-target locality incl. views and whole-buffer prefill, finite-grid agreement of the two dtype tables, path-term agreement of unlink vs save, freshness of returned buffers, representation consistency of Image (who writes _pil / _array); must-pass-through of the write-back in update_image; per-mode classification of the allocated buffer by the library's own dtype->mode function; array-rank reasoning per mode; normal forms of whole-array tests (not any(not P) = all(P)); per-mode evaluation of the condition under which the masked default is cleared; data handed to the array writers of Image.save is the image's own array; accessor identity: asarray() returns the stored array object itself",
    "text": "Decides exhaustiveness, agreement of the undefined-value conventions across the four mask operations for all eight modes, locality of buffer writes, agreement of the two dtype tables, and the persistence rules of write_image/read_image. Codec round trips are not decided.",
    "note": "Trusted: numpy putmask/maximum/isnan/fill semantics; PIL/astropy/numpy file I/O. Not decided: read-back equality per codec.",
}

NAN_SCALAR = {"F32", "F64"}
NAN_VECTOR = {"F16x3"}
INTS = {"U8", "I16", "I32"}


def run(run):
    run.explanation = EXPLANATION
    run.undecided_clauses += ["pixel-exact read-back per codec (PIL / astropy / numpy I/O)"]
    for r, n in (("C15.R1", 6), ("C15.R2", 8), ("C15.R3", 2), ("C15.R4", 1), ("C15.R5", 3), ("C15.R6", 3), ("C15.R7", 8)):
        run.floor(r, n)
    project = run.project
    members = _enum_members(project)
    if len(members) < 8:
        run.undecided("C15.R1", None, None, "ImageMode has %d members (8 confirmed by hand)" % len(members), kind="enum", construct="ImageMode", file="toasty/image.py")
        return
    chains = _r1_chains(run, members)
    _r2_conventions(run, members, chains)
    _r3_locality(run)
    _r4_dtype_tables(run)
    buffer_layouts(run, "C15.R7", members)
    _r5_persistence(run)
    from . import imgrep
    imgrep.check(run, "C15.R6")
    # persistence: what reaches the array writers is the pixel array itself (NaN sentinels and values unchanged)
    imgrep.saved_pixels(run, "C15.R5")


def _norm_reduction(t):
    """Normal form of a whole-array test: `not any(P)` is `all(not P)` (and the reverse); broadcasting a mask to the pixel shape or
    giving it a trailing unit axis does not change which elements are tested; `x.any()` / `x.all()` are np.any(x) / np.all(x)."""
    def strip(x):
        while True:
            if x[0] == "call" and show(x[1]) in ("np.broadcast_to",) and x[2]:
                x = x[2][0]
                continue
            if x[0] == "sub" and x[2][0] == "tuple" and any(show(i_) == "Ellipsis" or i_ == ("const", Ellipsis) for i_ in x[2][1]) and any(i_ == sym.NONE for i_ in x[2][1]) \
                    and not [i_ for i_ in x[2][1] if not (show(i_) == "Ellipsis" or i_ == ("const", Ellipsis) or i_ == sym.NONE)]:
                x = x[1]
                continue
            return x

    def neg(x):
        x = strip(x)
        if x[0] == "op" and x[1] in ("invert", "not") and x[2]:
            return strip(x[2][0])
        if x[0] == "call" and show(x[1]) == "np.logical_not" and x[2]:
            return strip(x[2][0])
        if x[0] == "op" and x[1] in ("cmp:NotEq", "cmp:Eq") and len(x[2]) == 2:
            return sym.cmp("Eq" if x[1] == "cmp:NotEq" else "NotEq", x[2][0], x[2][1])
        return ("op", "invert", (x,))

    def red(x):
        # -> (name, arg) for np.any(arg) / np.all(arg) / arg.any() / arg.all() without axis
        if x[0] == "call" and show(x[1]) in ("np.any", "np.all") and len(x[2]) == 1 and not x[3]:
            return show(x[1])[3:], x[2][0]
        if x[0] == "call" and x[1][0] == "attr" and x[1][2] in ("any", "all") and not x[2] and not x[3]:
            return x[1][2], x[1][1]
        return None
    if t is None:
        return t
    if t[0] == "op" and t[1] == "not" and t[2]:
        r_ = red(t[2][0])
        if r_ is not None:
            other = "all" if r_[0] == "any" else "any"
            return ("call", ("attr", ("sym", "np"), other), (neg(r_[1]),), ())
    r_ = red(t)
    if r_ is not None:
        return ("call", ("attr", ("sym", "np"), r_[0]), (strip(r_[1]),), ())
    return t


def _enum_members(project):
    cls, mod = project.cls(IMG + ".ImageMode")
    out = []
    for n in cls.body:
        if isinstance(n, ast.Assign) and len(n.targets) == 1 and isinstance(n.targets[0], ast.Name) and isinstance(n.value, ast.Constant):
            out.append(n.targets[0].id)
    return out


DISPATCHERS = {
    IMG + ".ImageMode.make_maskable_buffer": ("mode-object", "make_maskable_buffer"),
    IMG + ".Image.fill_into_maskable_buffer": ("image", "fill"),
    IMG + ".Image.update_into_maskable_buffer": ("image", "update"),
    IMG + ".Image.is_completely_masked": ("image", "masked"),
    IMG + ".Image.clear": ("image", "clear"),
    IMG + ".Image.default_format": ("image", "default_format"),
}


def _mode_decider(kind, mode):
    """Assumption callback: the image mode is ImageMode.<mode>."""
    if kind == "image":
        subjects = {("attr", ("sym", "self"), "mode"), ("attr", ("sym", "self"), "_mode")}
    else:
        subjects = {("sym", "self")}

    def member(t):
        if t[0] == "attr" and t[1] in (("sym", "ImageMode"), ("sym", "cls")):
            return t[2]
        return None

    planes = mode in ("RGB", "RGBA", "F16x3")

    def ndim_of(t):
        """Number of axes of a pixel-array expression of an image of this mode (2, or 3 for the modes with colour planes)."""
        if t[0] == "attr" and t[2] == "ndim":
            return ndim_of(t[1])
        if t[0] == "call" and t[1] == ("sym", "len") and len(t[2]) == 1 and t[2][0][0] == "attr" and t[2][0][2] == "shape":
            return ndim_of(t[2][0][1])
        if t[0] == "op" and t[1] in ("invert", "not") and t[2]:
            return ndim_of(t[2][0])
        if t[0] == "op" and t[1].startswith("cmp:") and len(t[2]) == 2:
            ds = [ndim_of(x) for x in t[2] if not sym.is_num(x) and x[0] != "const"]      # element-wise comparison with a scalar
            return ds[0] if len(ds) == 1 else (max(ds) if ds and None not in ds else None)
        if t[0] == "call" and show(t[1]) in ("np.isnan", "np.logical_not", "np.isfinite", "np.asarray", "np.array") and t[2]:
            return ndim_of(t[2][0])
        if t[0] == "call" and show(t[1]) in ("np.all", "np.any") and t[2]:
            ax = dict(t[3]).get("axis", t[2][1] if len(t[2]) > 1 else None)
            inner = ndim_of(t[2][0])
            if inner is None:
                return None
            return inner - 1 if ax is not None and ax != sym.NONE else 0
        if t[0] == "ite":
            a_, b_ = ndim_of(t[2]), ndim_of(t[3])
            return a_ if a_ == b_ else None
        if t[0] == "sub":
            idx = t[2][1] if t[2][0] == "tuple" else (t[2],)
            base = ndim_of(t[1])
            if base is None:
                return None
            if any(show(x) == "Ellipsis" or x == ("const", Ellipsis) for x in idx):
                drop = sum(1 for x in idx if num_value(x) is not None)
                add = sum(1 for x in idx if x == sym.NONE)
                return base - drop + add
            if all(x[0] in ("sym", "slice") or (x[0] == "call" and x[1] == ("sym", "slice")) for x in idx):
                return base        # slices / index arrays handed in by the caller keep the two pixel axes
            return None
        s_ = show(t)
        if s_.endswith(".asarray()") or "._array" in s_ or s_.endswith("._pil") or "np.asarray(self._pil)" in s_:
            return 3 if planes else 2
        return None

    def decide(c):
        if c[0] == "op" and c[1] in ("cmp:Lt", "cmp:LtE", "cmp:Eq", "cmp:NotEq") and len(c[2]) == 2 and any(
                x[0] == "attr" and x[2] == "ndim" for x in c[2]):
            va = ndim_of(c[2][0]) if not sym.is_num(c[2][0]) else int(num_value(c[2][0]))
            vb = ndim_of(c[2][1]) if not sym.is_num(c[2][1]) else int(num_value(c[2][1]))
            if va is not None and vb is not None:
                return {"cmp:Lt": va < vb, "cmp:LtE": va <= vb, "cmp:Eq": va == vb, "cmp:NotEq": va != vb}[c[1]]
            return None
        if c[0] != "op" or not c[1].startswith("cmp:"):
            return None
        op = c[1][4:]
        a, b2 = c[2]
        if op in ("Eq", "Is", "NotEq", "IsNot"):
            if a in subjects and member(b2):
                r = member(b2) == mode
            elif b2 in subjects and member(a):
                r = member(a) == mode
            else:
                return None
            return r if op in ("Eq", "Is") else (not r)
        if op in ("In", "NotIn") and a in subjects and b2[0] in ("tuple", "list", "op"):
            items = b2[1] if b2[0] in ("tuple", "list") else b2[2]
            ms = [member(x) for x in items]
            if any(m is None for m in ms):
                return None
            r = mode in ms
            return r if op == "In" else (not r)
        return None
    return decide


def _enum_values(project):
    cls, mod = project.cls(IMG + ".ImageMode")
    out = {}
    for n in cls.body:
        if isinstance(n, ast.Assign) and len(n.targets) == 1 and isinstance(n.targets[0], ast.Name) and isinstance(n.value, ast.Constant):
            out[n.targets[0].id] = n.value.value
    return out


def _eval_for_mode(project, f, kind, mode):
    """Partial evaluation of *f* for an image (or mode object) whose mode is ImageMode.<mode>: mode tests are decided,
    methods of the mode object are inlined, and the member's own `value` / `name` are the literals of the enum."""
    ev = sym.make_evaluator(project, IMG, [], inline_local=True)
    ev.self_class = IMG + (".Image" if kind == "image" else ".ImageMode")
    ev.assume = _mode_decider(kind, mode)
    env = {}
    if kind == "image":
        subjects = [("attr", ("sym", "self"), "mode"), ("attr", ("sym", "self"), "_mode")]
        ev.recv_classes = {t: IMG + ".ImageMode" for t in subjects}
    else:
        subjects = [("sym", "self")]
    val = _enum_values(project).get(mode)
    for t in subjects:
        if val is not None:
            env[("attr", t, "value")] = ("const", val)
        env[("attr", t, "name")] = ("const", mode)
    return ev.run(f.node, env=env)


def _r1_chains(run, members):
    """R1: under the assumption `mode == M`, for every member M, each dispatcher completes without raising
    (partial evaluation: the shape of the dispatch -- elif chain, early returns, helper methods -- does not matter)."""
    project = run.project
    results = {}
    for q, (kind, role) in DISPATCHERS.items():
        f = project.fn(q)
        run.note_func(f)
        unhandled = []
        undecided = []
        for m in members:
            r = _eval_for_mode(project, f, kind, m)
            results[(q, m)] = r
            for e in r.events:
                if e.kind != "raise":
                    continue
                conds = [c for c in e.pc if c[0] != "loop"]
                mode_conds = [c for c in conds if "ImageMode" in show(c[0]) or "mode" in show(c[0])]
                if not conds:
                    unhandled.append(m)
                elif mode_conds:
                    undecided.append((m, show(mode_conds[0][0])[:60]))
            if role == "default_format" and not r.returns:
                unhandled.append(m)
        unhandled = sorted(set(unhandled), key=members.index)
        if unhandled:
            run.violated("C15.R1", f, None, "%s does not handle mode(s) %s: images of that mode raise 'unhandled mode' (or get no result) in the middle of tiling" % (
                f.short, unhandled), kind="mode-dropped", missing=unhandled)
        elif undecided:
            run.undecided("C15.R1", f, None, "%s: cannot decide the mode test %s for mode %s" % (f.short, undecided[0][1], undecided[0][0]), kind="mode-test")
        else:
            run.holds("C15.R1", f, None, "%s: every one of the %d modes is handled (no path raises under `mode == M`)" % (f.short, len(members)))
    return results


def _is_view_of(t, B):
    while t[0] in ("sub", "item"):
        t = t[1]
        if t == B:
            return True
    return False


def _classify_fill(evs):
    fills = [e for e in evs if e.kind == "call" and e.term[1][0] == "attr" and e.term[1][2] == "fill"]
    vals = set()
    for e in fills:
        a = e.term[2][0] if e.term[2] else None
        if a is None:
            continue
        if num_value(a) == 0:
            vals.add("zero")
        elif show(a).lower() in ("np.nan", "numpy.nan", "math.nan", "nan", "float('nan')", "np.float32(np.nan)", "np.float64(np.nan)", "np.float16(np.nan)") \
                or (a[0] == "const" and isinstance(a[1], float) and a[1] != a[1]):
            vals.add("nan")
        elif "nan" in show(a).lower() and not [x for x in _subterms_of(a) if x and x[0] in ("elem", "ite", "sub", "item")]:
            vals.add("nan")
        else:
            vals.add("other:" + show(a)[:20])
    return vals


def _r2_conventions(run, members, results):
    project = run.project
    q_clear = IMG + ".Image.clear"
    q_fill = IMG + ".Image.fill_into_maskable_buffer"
    q_mask = IMG + ".Image.is_completely_masked"
    q_upd = IMG + ".Image.update_into_maskable_buffer"
    for mode in members:
        want_fill = "nan" if (mode in NAN_SCALAR or mode in NAN_VECTOR) else "zero"
        problems = []
        # clear
        f = project.fn(q_clear)
        r = results[(q_clear, mode)]
        got = _classify_fill(r.events)
        if got != {want_fill}:
            problems.append(("clear", f, "clear() fills %s buffers with %s; the undefined value for this mode is %s" % (mode, sorted(got) or "nothing", want_fill)))
        # fill: the *whole* buffer gets the undefined value first, unconditionally; then the addressed rectangle is written
        # into the buffer array itself (a sub-view taken with array indexers would be a copy)
        f = project.fn(q_fill)
        r = results[(q_fill, mode)]
        ps = f.params()
        B = ("call", ("attr", ("sym", ps[1]), "_as_writeable_array"), (), ())
        by_t, bx_t = ("sym", ps[4]), ("sym", ps[5])
        whole = [e for e in r.events if e.kind == "call" and e.term[1] == ("attr", B, "fill") and not [c for c in e.pc if c[0] != "loop"]]
        got = _classify_fill(whole)
        if got != {want_fill}:
            anyf = _classify_fill(r.events)
            if any(v.startswith("other:") for v in anyf | got):
                # the value the buffer is filled with is not a constant the evaluation could name (looked up by a helper that
                # walks a table, computed by code that is not followed): nothing is decided about the pre-fill
                e0 = [e for e in r.events if e.kind == "call" and e.term[1][0] == "attr" and e.term[1][2] == "fill"][0]
                run.undecided("C15.R2", f, e0.node, "fill_into_maskable_buffer pre-fills %s buffers with %s, which the evaluation cannot name" % (mode, show(e0.term[2][0])[:60]),
                              kind="fill-value-unknown-" + mode, mode=mode)
            elif anyf and not whole and _classify_fill([e for e in r.events if e.kind == "call" and e.term[1] == ("attr", B, "fill")]) == {want_fill} and not any(
                    ("sym", p_) in _subterms_of(c[0]) for e in r.events if e.kind == "call" and e.term[1] == ("attr", B, "fill")
                    for c in e.pc if c[0] != "loop" for p_ in ps[2:]):
                # the right value, on the whole buffer, under a condition that is not about the rectangle or the data (e.g. "the
                # table had an entry for this mode") and that the evaluation could not fold: not decided either way
                e0 = [e for e in r.events if e.kind == "call" and e.term[1] == ("attr", B, "fill")][0]
                run.undecided("C15.R2", f, e0.node, "fill_into_maskable_buffer pre-fills %s buffers under %s, which the evaluation cannot decide"
                              % (mode, [show(c[0])[:50] for c in e0.pc if c[0] != "loop"][:2]), kind="fill-condition-unknown-" + mode, mode=mode)
            elif anyf and not whole:
                problems.append(("fill", f, "fill_into_maskable_buffer clears %s buffers only conditionally or only in part: pixels outside the addressed rectangle "
                                 "can keep what the previous user of the buffer left there" % mode))
            else:
                problems.append(("fill", f, "fill_into_maskable_buffer pre-fills %s buffers with %s; expected %s" % (mode, sorted(got) or "nothing", want_fill)))
        stores = [e for e in r.events if e.kind == "store" and e.term[1][0][0] in ("sub", "item")]
        if not stores:
            problems.append(("fill", f, "fill of a %s image copies nothing into the buffer" % mode))
        for e in stores:
            lv = e.term[1][0]
            idx = lv[2] if lv[0] == "sub" else None
            direct = lv[1] == B and idx is not None and idx[0] == "tuple" and tuple(idx[1][:2]) == (by_t, bx_t)
            if not direct and _is_view_of(lv[1], B):
                problems.append(("fill", f, "fill of a %s image writes through %s, a sub-array of the buffer taken before the assignment: with array (fancy) indexers that "
                                 "is a copy, and the buffer itself stays undefined" % (mode, show(lv[1])[:60])))
                break
        if mode == "RGB":
            alpha = [e for e in stores if num_value(e.term[1][1]) == 255 and show(e.term[1][0][2]).endswith("(3))")]
            if not alpha:
                problems.append(("fill", f, "fill of an RGB image does not set alpha = 255 on the addressed rectangle: the copied pixels stay undefined"))
        # is_completely_masked
        f = project.fn(q_mask)
        r = results[(q_mask, mode)]
        rets = r.returns
        t = _norm_reduction(rets[0][1]) if len(rets) == 1 else None
        s_ = show(t) if t is not None else "%d returns" % len(rets)
        if mode == "RGB" or mode in INTS:
            if t != sym.FALSE:
                problems.append(("masked", f, "%s images can never be completely undefined (no sentinel covers all pixels); is_completely_masked returns %s" % (mode, s_[:60])))
        elif mode == "RGBA":
            ok = t is not None and "np.all" in s_ and "cmp:Eq" in s_ and "(3)" in s_
            if not ok:
                problems.append(("masked", f, "RGBA is completely masked iff all alpha (channel 3) == 0; got %s" % s_[:80]))
        else:
            ok = t is not None and s_.startswith("np.all(np.isnan(")
            if not ok:
                problems.append(("masked", f, "%s is completely masked iff all pixels are NaN; got %s" % (mode, s_[:80])))
        # update
        f = project.fn(q_upd)
        r = results[(q_upd, mode)]
        puts = [e for e in r.events if e.kind == "call" and show(e.term[1]) in ("np.putmask", "np.copyto")]
        maxs = [e for e in r.events if e.kind == "call" and show(e.term[1]) == "np.maximum"]
        stores = [e for e in r.events if e.kind == "store"]
        if mode == "RGB":
            a255 = [e for e in stores if num_value(e.term[1][1]) == 255]
            if puts or maxs or not a255 or len(stores) < 2:
                problems.append(("update", f, "update of RGB must overwrite the addressed pixels and set their alpha to 255"))
        elif mode == "RGBA":
            ms = show(puts[0].term[2][1]) if len(puts) == 1 else ""
            ok = len(puts) == 1 and "cmp:NotEq" in ms and "(3)" in ms and "broadcast_to" in ms
            if not ok:
                problems.append(("update", f, "update of RGBA must copy exactly the source pixels with alpha != 0 (all channels of such a pixel); validity is %s" % ms[:80]))
        elif mode in NAN_SCALAR:
            ms = show(puts[0].term[2][1]) if len(puts) == 1 else ""
            ok = len(puts) == 1 and (ms.startswith("invert(np.isnan(") or ms.startswith("np.logical_not(np.isnan(")) and "axis" not in ms
            if not ok:
                problems.append(("update", f, "update of %s must copy exactly the source pixels that are not NaN; validity is %s" % (mode, ms[:80])))
        elif mode in NAN_VECTOR:
            ms = show(puts[0].term[2][1]) if len(puts) == 1 else ""
            per_pixel = ("np.any(np.isnan(" in ms or "np.all(np.logical_not(np.isnan(" in ms or "np.all(invert(np.isnan(" in ms) and "axis=(2)" in ms and "broadcast_to" in ms
            if len(puts) == 1 and (ms.startswith("invert(np.isnan(") or ms.startswith("np.logical_not(np.isnan(")) and not per_pixel:
                problems.append(("update", f, "update of F16x3 decides validity per channel (~isnan element-wise): a source pixel that is undefined (NaN in "
                                 "some channel) still overwrites the other channels of the destination pixel"))
            elif not per_pixel:
                problems.append(("update", f, "update of F16x3 must treat a pixel as defined only if none of its three channels is NaN, and copy whole pixels; validity is %s" % ms[:80]))
        else:
            ok = len(maxs) == 1 and not puts and dict(maxs[0].term[3]).get("out") is not None
            if not ok:
                problems.append(("update", f, "update of integer mode %s must keep the larger of the two values (np.maximum into the buffer view)" % mode))
        if problems:
            for which, f, msg in problems:
                run.violated("C15.R2", f, None, msg, kind="convention-%s-%s" % (which, mode), mode=mode)
        else:
            run.holds("C15.R2", project.fn(q_upd), None, "mode %s: clear / fill / is_completely_masked / update agree on one undefined-value convention" % mode, mode=mode)


def _r3_locality(run):
    project = run.project
    ev = sym.make_evaluator(project, IMG, [])
    for name in ("fill_into_maskable_buffer", "update_into_maskable_buffer"):
        f = project.fn("%s.Image.%s" % (IMG, name))
        run.note_func(f)
        r = ev.run(f.node)
        ps = f.params()
        b = ("call", ("attr", ("sym", ps[1]), "_as_writeable_array"), (), ())
        region = ("sub", b, ("tuple", (("sym", ps[4]), ("sym", ps[5]))))
        bad = []
        for e in r.events:
            if e.kind == "store" and e.term[1][0][0] == "sub":
                base = e.term[1][0][1]
                idx = e.term[1][0][2]
                if base == b:
                    first2 = idx[1][:2] if idx[0] == "tuple" else None
                    if first2 != (("sym", ps[4]), ("sym", ps[5])):
                        bad.append((e, "assigns buffer[%s]" % show(idx)[:40]))
                elif base == region:
                    pass
                elif b in atoms_of(base):
                    bad.append((e, "assigns into %s" % show(e.term[1][0])[:60]))
            if e.kind == "call" and show(e.term[1]) in ("np.putmask", "np.copyto", "np.place") and e.term[2] and e.term[2][0] != region:
                bad.append((e, "%s writes into %s" % (show(e.term[1]), show(e.term[2][0])[:60])))
            if e.kind == "call" and show(e.term[1]) == "np.maximum":
                out = dict(e.term[3]).get("out")
                if out is not None and out != region:
                    bad.append((e, "np.maximum writes into %s" % show(out)[:60]))
            if name.startswith("update") and e.kind == "call" and e.term[1][0] == "attr" and e.term[1][2] == "fill" and b in atoms_of(e.term[1][1]):
                bad.append((e, "update fills the buffer (pixels outside the addressed rectangle are destroyed)"))
        if bad:
            for e, msg in bad:
                run.violated("C15.R3", f, e.node, "%s: %s -- only buffer[by_idx, bx_idx] may be written" % (name, msg), kind="locality")
        else:
            run.holds("C15.R3", f, None, "%s writes the buffer only through buffer[by_idx, bx_idx]%s" % (name, " after pre-filling it with the sentinel" if name.startswith("fill") else ""))


def _mode_table(project, q, role_of):
    """The mode a dtype->mode function returns for every (ndim, channels, kind, itemsize) of a finite grid; 'RAISE' where it
    returns nothing.  *role_of*: maps an atom term of the function to 'NDIM' / 'SHAPE2' / 'KIND' / 'ITEMSIZE' (or None)."""
    import itertools
    f = project.fn(q)
    ev = sym.make_evaluator(project, IMG, [])
    r = ev.run(f.node)
    atoms = set()
    for pc, t, n in r.returns:
        for c in pc:
            if c[0] != "loop":
                atoms |= atoms_of(c[0])
    roles = {}
    for a in atoms:
        ro = role_of(a)
        if ro:
            roles[a] = ro

    def hook(t, rec):
        if t[0] == "attr" and t[1] in (("sym", "ImageMode"), ("sym", "cls")):
            return "MODE:" + t[2]
        return NotImplemented
    # the grid: the documented values of each quantity plus every constant the function compares that quantity with
    doms = {"NDIM": {2, 3}, "SHAPE2": {1, 3, 4}, "KIND": {"f", "u", "i"}, "ITEMSIZE": {1, 2, 4, 8}}
    for pc, t, n in r.returns:
        for c in pc:
            if c[0] == "loop":
                continue
            for a in atoms_of(c[0]):
                if a[0] == "op" and a[1].startswith("cmp:") and len(a[2]) == 2:
                    for x, y in (a[2], a[2][::-1]):
                        if x in roles:
                            v = num_value(y)
                            if v is not None and v.denominator == 1:
                                doms[roles[x]].add(int(v))
                            elif y[0] == "const" and isinstance(y[1], str):
                                doms[roles[x]].add(y[1])
                            elif y[0] in ("tuple", "list"):
                                for z in y[1]:
                                    vz = num_value(z)
                                    if vz is not None and vz.denominator == 1:
                                        doms[roles[x]].add(int(vz))
                                    elif z[0] == "const" and isinstance(z[1], str):
                                        doms[roles[x]].add(z[1])
    table = {}
    srt = lambda xs: sorted(xs, key=repr)
    for ndim, ch, kind, size in itertools.product(srt(doms["NDIM"]), srt(doms["SHAPE2"]), srt(doms["KIND"]), srt(doms["ITEMSIZE"])):
        vals = {"NDIM": ndim, "SHAPE2": ch, "KIND": kind, "ITEMSIZE": size}
        envt = {a: vals[ro] for a, ro in roles.items()}
        out = "RAISE"
        for pc, t, n in r.returns:
            c = teval(boolalg.conj(pc), envt, [hook])
            if c is UNKNOWN:
                out = "UNKNOWN"
                break
            if c:
                out = teval(t, envt, [hook])
                break
        table[(ndim, ch, kind, size)] = out
    return f, table


def _r4_dtype_tables(run):
    project = run.project

    def role_array(a):
        s_ = show(a)
        return {"array.ndim": "NDIM", "array.shape#2": "SHAPE2", "array.dtype.kind": "KIND", "array.dtype.itemsize": "ITEMSIZE", "array.itemsize": "ITEMSIZE",
                "len(array.shape)": "NDIM"}.get(s_)

    def role_info(a):
        s_ = show(a)
        if s_ in ("len(shape)",):
            return "NDIM"
        if s_ == "shape#2":
            return "SHAPE2"
        if s_.endswith(".kind") and "dtype" in s_:
            return "KIND"
        if s_.endswith(".itemsize") and "dtype" in s_:
            return "ITEMSIZE"
        return None
    f1, t1 = _mode_table(project, IMG + "._array_to_mode", role_array)
    f2, t2 = _mode_table(project, IMG + ".ImageMode.from_array_info", role_info)
    run.note_func(f1, f2)
    common_keys = [k for k in t1 if k in t2]
    unknown = [k for k in common_keys if t1[k] is UNKNOWN or t2[k] is UNKNOWN or t1[k] == "UNKNOWN" or t2[k] == "UNKNOWN"]
    diff = [k for k in common_keys if k not in unknown and t1[k] != t2[k]]
    # a value only one of the two functions tests for: the other must reject it (RAISE) for the tables to agree
    for k in t1:
        if k not in t2 and t1[k] != "RAISE":
            diff.append(k)
            t2[k] = "(value not tested: no mode)"
    for k in t2:
        if k not in t1 and t2[k] != "RAISE":
            diff.append(k)
            t1[k] = "(value not tested: no mode)"
    n_modes = len({v for v in t1.values() if isinstance(v, str) and v.startswith("MODE:")})
    if diff:
        k = diff[0]
        run.violated("C15.R4", f1, None, "the two dtype->mode tables disagree (e.g. ndim=%s, channels=%s, kind=%r, itemsize=%s: _array_to_mode gives %s, from_array_info gives %s; %d of %d "
                     "cases differ): descriptions and loaded images of one file get different modes" % (k[0], k[1], k[2], k[3], t1[k], t2[k], len(diff), len(t1)), kind="dtype-tables")
    elif unknown or n_modes < 8:
        run.undecided("C15.R4", f1, None, "dtype->mode tables cannot be evaluated on the whole grid (%d unknown cases, %d modes reached)" % (len(unknown), n_modes), kind="dtype-tables-shape")
    else:
        run.holds("C15.R4", f1, None, "_array_to_mode and ImageMode.from_array_info map (ndim, channels, kind, itemsize) to modes identically on all %d grid cases (%d modes)" % (len(t1), n_modes),
                  rows=len(t1))


NP_DTYPES = {"uint8": ("u", 1), "uint16": ("u", 2), "uint32": ("u", 4), "uint64": ("u", 8), "int8": ("i", 1), "int16": ("i", 2), "int32": ("i", 4),
             "int64": ("i", 8), "float16": ("f", 2), "float32": ("f", 4), "float64": ("f", 8), "half": ("f", 2), "single": ("f", 4), "double": ("f", 8),
             "ubyte": ("u", 1), "byte": ("i", 1), "short": ("i", 2), "intc": ("i", 4), "float_": ("f", 8)}
NP_CODES = {"u1": ("u", 1), "u2": ("u", 2), "u4": ("u", 4), "u8": ("u", 8), "i1": ("i", 1), "i2": ("i", 2), "i4": ("i", 4), "i8": ("i", 8),
            "f2": ("f", 2), "f4": ("f", 4), "f8": ("f", 8)}


def _dtype_of_term(t):
    """(kind, itemsize) of a dtype expression: np.int16, 'int16', '<i2', np.dtype(<one of these>); None when not a literal dtype."""
    if t[0] == "call" and show(t[1]) in ("np.dtype", "numpy.dtype", "dtype") and len(t[2]) == 1:
        return _dtype_of_term(t[2][0])
    if t[0] == "attr" and t[1] in (("sym", "np"), ("sym", "numpy")):
        return NP_DTYPES.get(t[2])
    if t[0] == "const" and isinstance(t[1], str):
        v = t[1].lstrip("<>=|")
        return NP_DTYPES.get(v) or NP_CODES.get(v)
    if t == ("sym", "float"):
        return ("f", 8)
    return None


def buffer_layouts(run, rule, members=None):
    """For every mode M: the array make_maskable_buffer allocates, classified by ImageMode.from_array_info (the table
    Image.from_array uses for the very same array), is of mode M again -- RGBA for RGB.  A buffer of another dtype converts
    every pixel pasted into it (int32 data wrap in an int16 buffer) and changes the mode of every tile built from it."""
    project = run.project
    members = members or _enum_members(project)
    f = project.fn(IMG + ".ImageMode.make_maskable_buffer")
    run.note_func(f)

    def role_info(a):
        s_ = show(a)
        if s_ in ("len(shape)",):
            return "NDIM"
        if s_ == "shape#2":
            return "SHAPE2"
        if s_.endswith(".kind") and "dtype" in s_:
            return "KIND"
        if s_.endswith(".itemsize") and "dtype" in s_:
            return "ITEMSIZE"
        return None
    fi, table = _mode_table(project, IMG + ".ImageMode.from_array_info", role_info)
    run.note_func(fi)
    for m in members:
        r = _eval_for_mode(project, f, "mode-object", m)
        rets = [x for x in r.returns if not [c for c in x[0] if c[0] != "loop"]]
        if len(rets) != 1:
            if not r.returns and [e for e in r.events if e.kind == "raise"]:
                continue                    # R1 reports a mode without a branch
            run.undecided(rule, f, None, "make_maskable_buffer for %s: %d unconditional results, cannot name the buffer" % (m, len(rets)), kind="layout-shape-" + m, mode=m)
            continue
        allocs = [x for x in _subterms_of(rets[0][1]) if x and x[0] == "call" and len(x) == 4 and show(x[1]).split(".")[-1] in ("empty", "zeros", "ones", "full", "ndarray")
                  and show(x[1]).split(".")[0] in ("np", "numpy")]
        if len(allocs) != 1 or not allocs[0][2]:
            run.undecided(rule, f, rets[0][2], "make_maskable_buffer for %s returns %s: no single numpy allocation to read the layout from" % (m, show(rets[0][1])[:100]),
                          kind="layout-alloc-" + m, mode=m)
            continue
        a = allocs[0]
        shape = a[2][0]
        kw = dict(a[3])
        fn_ = show(a[1]).split(".")[-1]
        dt = kw.get("dtype")
        if dt is None:
            pos_ = 2 if fn_ == "full" else 1
            dt = a[2][pos_] if len(a[2]) > pos_ else None
        dk = ("f", 8) if dt is None else _dtype_of_term(dt)
        if shape[0] not in ("tuple", "list") or dk is None:
            run.undecided(rule, f, rets[0][2], "make_maskable_buffer for %s allocates %s: shape / dtype are not literal" % (m, show(a)[:100]), kind="layout-literal-" + m, mode=m)
            continue
        dims = shape[1]
        ch = None
        if len(dims) >= 3:
            v = num_value(dims[2])
            if v is None:
                run.undecided(rule, f, rets[0][2], "make_maskable_buffer for %s: channel count %s is not a constant" % (m, show(dims[2])[:40]), kind="layout-literal-" + m, mode=m)
                continue
            ch = int(v)
        want = "RGBA" if m == "RGB" else m
        keys = [k for k in table if k[0] == len(dims) and (len(dims) < 3 or k[1] == ch) and k[2] == dk[0] and k[3] == dk[1]]
        got = {table[k] for k in keys}
        if not keys:
            got = {"RAISE"}
        if got == {"MODE:" + want}:
            run.holds(rule, f, rets[0][2], "%s: buffer %s is classified %s by from_array_info" % (m, show(a)[:70], want), mode=m)
        elif any(g is UNKNOWN or g == "UNKNOWN" for g in got) or len(got) != 1:
            run.undecided(rule, f, rets[0][2], "%s: cannot classify the buffer %s with from_array_info" % (m, show(a)[:70]), kind="layout-classify-" + m, mode=m)
        else:
            g = sorted(got, key=repr)[0]
            run.violated(rule, f, rets[0][2], "the maskable buffer for mode %s is %s, which from_array_info classifies as %s, not %s: pixels pasted into it are converted "
                         "to that type (values outside its range wrap) and every tile built from the buffer is stored in the other mode" % (
                             m, show(a)[:80], "no mode at all" if g == "RAISE" else g[5:], want), kind="buffer-layout-" + m, mode=m)


def _subterms_of(t):
    if isinstance(t, tuple):
        yield t
        for x in t:
            if isinstance(x, tuple):
                for y in _subterms_of(x):
                    yield y


def _r5_persistence(run):
    project = run.project
    f = project.fn(PYR + ".PyramidIO.write_image")
    run.note_func(f)
    # private helpers of PyramidIO ("remove the tile file", "what a missing tile reads as") belong to these two methods
    ev = sym.make_evaluator(project, PYR, [], inline_local=True)
    ev.self_class = PYR + ".PyramidIO"
    ev.inline_resolved = True
    ev.no_inline = ("tile_path", "save", "is_completely_masked", "make_maskable_buffer", "clear", "load_path", "read_image", "write_image", "update_image",
                    "get_default_format", "open")
    r = ev.run(f.node)
    unl = [e for e in r.events if e.kind == "call" and show(e.term[1]) in ("os.unlink", "os.remove")]
    sav = [e for e in r.events if e.kind == "call" and e.term[1][0] == "attr" and e.term[1][2] == "save"]
    image = ("sym", f.params()[2])
    masked = ("call", ("attr", image, "is_completely_masked"), (), ())

    def norm_path(t):
        # tile_path(pos, format=F, makedirs=...) -> ignore makedirs; format defaulting `F or default` == F when F is already defaulted
        dflt = ("attr", ("sym", "self"), "_default_format")
        if t[0] == "call" and t[1][0] == "attr" and t[1][2] == "tile_path":
            kw = {k: v for k, v in t[3] if k != "makedirs"}
            fm = kw.get("format", sym.NONE)
            while fm[0] == "op" and fm[1] == "or" and len(fm[2]) == 2 and fm[2][1] == dflt:
                fm = fm[2][0]
            if fm == dflt:
                fm = sym.NONE
            kw["format"] = fm
            return ("call", t[1], t[2], tuple(sorted(kw.items())))
        return t
    if len(unl) != 1 or len(sav) != 1 or not unl[0].term[2] or not sav[0].term[2]:
        run.violated("C15.R5", f, None, "write_image must either unlink or save exactly one path (unlinks=%d, saves=%d)" % (len(unl), len(sav)), kind="write-shape")
    else:
        pu, ps_ = norm_path(unl[0].term[2][0]), norm_path(sav[0].term[2][0])
        cu = [c for c in unl[0].pc if c[0] != "loop" and c[0][0] != "op" or (c[0][0] == "op" and c[0][1] != "except")]
        cs = [c for c in sav[0].pc if c[0] != "loop"]
        fmt_save = dict(sav[0].term[3]).get("format")
        if pu != ps_:
            run.violated("C15.R5", f, unl[0].node, "an all-undefined tile unlinks %s, but a defined tile would be saved to %s: with an explicit non-default format the "
                         "stale file in that format survives (and a sibling default-format file is deleted instead)" % (show(pu)[:90], show(ps_)[:90]), kind="unlink-other-path")
        elif boolalg.implies(boolalg.conj([c for c in unl[0].pc if c[0] != "loop" and masked in atoms_of(c[0])]), masked) is not True \
                or boolalg.implies(boolalg.conj([c for c in sav[0].pc if c[0] != "loop" and masked in atoms_of(c[0])]), ("op", "not", (masked,))) is not True \
                or not [c for c in unl[0].pc if c[0] != "loop" and masked in atoms_of(c[0])] or not [c for c in sav[0].pc if c[0] != "loop" and masked in atoms_of(c[0])]:
            run.violated("C15.R5", f, unl[0].node, "unlink / save are not the two arms of image.is_completely_masked()", kind="masked-branch")
        else:
            run.holds("C15.R5", f, unl[0].node, "all-undefined image: the very path it would be saved to is unlinked; otherwise saved there")
        # errors of unlink: only 'not there' may be ignored
    # read_image
    g = project.fn(PYR + ".PyramidIO.read_image")
    run.note_func(g)
    rg = ev.run(g.node)
    default = ("sym", g.params()[2])
    # the returns, with case distinctions inside a returned value (an inlined helper) opened up
    rets = []
    def open_up(pc, t, n):
        if t[0] == "ite":
            open_up(tuple(pc) + tuple(sym.literals(t[1], True)), t[2], n)
            open_up(tuple(pc) + tuple(sym.literals(t[1], False)), t[3], n)
        elif not (t[0] == "op" and t[1] == "never-returns"):
            rets.append((tuple(pc), t, n))
    for pc_, t_, n_ in rg.returns:
        open_up(pc_, t_, n_)
    none_ret = [(pc, t, n) for pc, t, n in rets if t == sym.NONE]
    is_masked, is_none = sym.cmp("Eq", default, ("const", "masked")), sym.cmp("Eq", default, ("const", "none"))
    other_raises = any(e.kind == "raise" and any(c[0] == is_masked and not c[1] for c in e.pc if c[0] != "loop") for e in rg.events)
    buf_ret = [(pc, t, n) for pc, t, n in rets if t != sym.NONE and (
        any(c[0] == is_masked and c[1] for c in pc if c[0] != "loop")
        # `if default == "none": return None` / `if default != "masked": raise` / ... return the buffer
        or (other_raises and any(c[0] == is_none and not c[1] for c in pc if c[0] != "loop")))]
    problems = []
    if not none_ret or not any(c[0] == sym.cmp("Eq", default, ("const", "none")) and c[1] for c in none_ret[0][0] if c[0] != "loop"):
        problems.append(("read-none", "a missing tile is not reported as None under default='none'"))
    if not buf_ret:
        problems.append(("read-masked", "a missing tile is not returned as an all-undefined buffer under default='masked'"))
    else:
        pc, t, n = buf_ret[0]
        fresh = t[0] == "call" and t[1][0] == "attr" and t[1][2] == "make_maskable_buffer" and [num_value(a) for a in t[2]] == [256, 256]
        cleared = any(e.kind == "call" and e.term[1][0] == "attr" and e.term[1][2] == "clear" and e.term[1][1] == t for e in rg.events)
        shared = [a for a in atoms_of(t) if (a[0] == "attr" and a[1] == ("sym", "self")) or (a[0] == "call" and a[1][0] == "attr" and a[1][2] in ("get", "setdefault", "pop"))]
        if shared and not fresh:
            problems.append(("read-masked-shared", "under default='masked' read_image hands out a buffer kept in %s instead of a freshly allocated one: two missing tiles "
                             "requested while both are in use (nested updates, several children read before use) alias the same pixels" % show(shared[0])[:60]))
        elif not fresh:
            problems.append(("read-masked-buffer", "the buffer returned for a missing tile is %s, expected masked_mode.make_maskable_buffer(256, 256)" % show(t)[:80]))
        elif not cleared:
            problems.append(("read-masked-uncleared", "the buffer returned for a missing tile is never cleared: it holds uninitialised memory, not undefined pixels"))
        else:
            # cleared for *every* mode: a clear() that runs under a condition on the mode must cover all modes whose fresh
            # buffer is not already all-undefined (only a zero-filled buffer of a mode whose sentinel is zero is)
            from sa import teval as _teval
            clears = [e for e in rg.events if e.kind == "call" and e.term[1][0] == "attr" and e.term[1][2] == "clear" and e.term[1][1] == t]
            base = set(c for c in pc if c[0] != "loop")
            mode_obj = t[1][1]
            # only conditions about the mode matter here (how the request for a masked default is spelled is decided above)
            extra = [[c for c in e.pc if c[0] != "loop" and c not in base and mode_obj in _subterms_of(c[0])] for e in clears]
            if all(extra):
                members = _enum_members(project)
                mk = project.fn(IMG + ".ImageMode.make_maskable_buffer")
                for m in members:
                    envm = {("attr", ("sym", "ImageMode"), x): x for x in members}
                    envm[mode_obj] = m
                    runs = None
                    for ex in extra:
                        vals = [_teval.teval(c[0], envm) for c in ex]
                        if any(v is _teval.UNKNOWN or v is _teval.RAISES for v in vals):
                            continue
                        if all(bool(v) == bool(c[1]) for v, c in zip(vals, ex)):
                            runs = True
                            break
                        runs = False if runs is None else runs
                    if runs is None:
                        run.undecided("C15.R5", g, clears[0].node, "read_image: the buffer returned for a missing tile is cleared only under %s, which cannot be evaluated "
                                      "for mode %s" % ([show(c[0])[:60] for c in extra[0]], m), kind="read-masked-clear-condition")
                        break
                    if runs:
                        continue
                    rm = _eval_for_mode(project, mk, "mode-object", m)
                    rets_m = [x for x in rm.returns if not [c for c in x[0] if c[0] != "loop"]]
                    allocs = [x for x in _subterms_of(rets_m[0][1]) if x and x[0] == "call" and len(x) == 4 and show(x[1]).split(".")[0] in ("np", "numpy")
                              and show(x[1]).split(".")[-1] in ("empty", "zeros", "ones", "full", "ndarray")] if len(rets_m) == 1 else []
                    zero_filled = len(allocs) == 1 and show(allocs[0][1]).split(".")[-1] == "zeros"
                    if zero_filled and m in ("RGB", "RGBA", "U8", "I16", "I32"):
                        continue        # all-zero is what clear() would have produced for this mode
                    problems.append(("read-masked-uncleared", "for mode %s the buffer returned for a missing tile is not cleared (clear() runs only under %s): it holds %s, "
                                     "not undefined pixels, so a tile that nobody wrote reads as data" % (
                                         m, [show(c[0])[:60] for c in extra[0]], "zeros, which are defined values for a floating-point mode" if zero_filled else "uninitialised memory")))
                    break
    # only errno 2
    reraise = [e for e in rg.events if e.kind == "raise" and any("errno" in show(c[0]) for c in e.pc if c[0] != "loop")]
    errno_ok = False
    for e in reraise:
        # everything tested inside the handler before the bare re-raise
        idx = [i for i, c in enumerate(e.pc) if c[0] != "loop" and c[0][0] == "op" and c[0][1] == "except"]
        rel = [c for c in e.pc[(idx[-1] + 1 if idx else 0):] if c[0] != "loop"]
        en = [a for c in rel for a in atoms_of(c[0]) if a[0] == "attr" and a[2] == "errno"]
        if en and boolalg.equiv(boolalg.conj(rel), sym.cmp("NotEq", en[0], num(2))) is True:
            errno_ok = True
    if not errno_ok:
        # the other spelling of "only errno 2": the handler around the load catches FileNotFoundError and nothing wider
        loads = [c_ for c_ in own_calls(g.node) if callee_attr(c_) in ("load_path", "load_stream", "open", "load")]
        tries = [t_ for t_ in own_nodes(g.node) if isinstance(t_, ast.Try) and any(x is c_ for c_ in loads for b_ in t_.body for x in ast.walk(b_))]
        if tries and all(t_.handlers and all(h_.type is not None and {(dotted(e_) or "").split(".")[-1] for e_ in (h_.type.elts if isinstance(h_.type, ast.Tuple) else [h_.type])}
                                              == {"FileNotFoundError"} for h_ in t_.handlers) for t_ in tries):
            errno_ok = True
    if not errno_ok:
        problems.append(("read-errno", "I/O errors other than 'no such file' (errno 2) are no longer re-raised: a corrupt or unreadable tile reads as missing"))
    if problems:
        for kind, msg in problems:
            run.violated("C15.R5", g, None, "read_image: " + msg, kind=kind)
    else:
        run.holds("C15.R5", g, None, "missing tile (errno 2 only): None under 'none', a freshly allocated cleared 256x256 maskable buffer under 'masked'")
    # update_image is the other entry that persists a tile: whatever the caller did to the buffer (including clearing it), the
    # write-back decides between save and unlink, so it must be reached on every normal path after the yield
    ui = "toasty.pyramid.PyramidIO.update_image"
    if ui in project.funcs:
        from sa.cfg import CFG
        from . import common as _common
        uf = _common.as_generator_cm(project, project.fn(ui))        # (a context-manager class is read as the generator it replaces)
        run.note_func(uf)
        cfg = CFG(uf.node)
        yields = [n for n in cfg.nodes for e in cfg.expr_of(n) for x in ast.walk(e) if isinstance(x, ast.Yield)]
        writes = {n.id for n in cfg.nodes for c in cfg.calls_at(n) if callee_attr(c) == "write_image"}
        if not yields or not writes:
            run.undecided("C15.R5", uf, None, "update_image has no yield / write_image (yields=%d, writes=%d)" % (len(yields), len(writes)), kind="update-shape")
        else:
            skipping = [y for y in yields if cfg.exit.id in cfg.reachable(y.id, avoid=writes, skip_labels=("exc",))]
            if skipping:
                run.violated("C15.R5", uf, skipping[0].ast, "after the caller's modification update_image can return without calling write_image: a tile the caller "
                             "left all-undefined keeps its earlier file (write_image is what unlinks it)", kind="update-skips-write")
            else:
                run.holds("C15.R5", uf, yields[0].ast, "every normal path after the yield reaches write_image (which saves or unlinks)")
    # the default format resolution of the image's mode covers every mode
    run.holds("C15.R5", project.fn(IMG + ".Image.default_format"), None, "default_format dispatch checked under R1") if (IMG + ".Image.default_format") in project.funcs else None
