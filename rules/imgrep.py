"""Representation consistency of toasty.image.Image, shared by C15 and C16.

An Image holds its pixels as a PIL image (`_pil`) and / or as an array (`_array`).  `asarray()` derives the array from
the PIL image once; everything that changes pixels works on the array.  Two premises keep the two views equal:

* who may write `_pil`: only the constructor path (`from_pil`, on the fresh instance) stores a PIL image; everybody else
  may only drop it (`= None`).  A cached PIL version of an array that can still be written goes stale.
* whoever rebinds `self._array` to something that is not `np.asarray(self._pil)` drops `_pil` on the same path:
  otherwise `aspil()`, `save()` in a PIL format and `make_thumbnail_bitmap()` keep showing the old pixels.
"""
from sa import sym, boolalg
from sa.sym import show

IMG = "toasty.image"


def check(run, rule):
    project = run.project
    n_rebinds = 0
    n_pil = 0
    for f in project.functions_in(IMG):
        if f.cls is None or f.cls.name != "Image" or f.module.kind != "py":
            continue
        ev = sym.make_evaluator(project, IMG, [])
        r = ev.run(f.node)
        stores = [e for e in r.events if e.kind == "store" and e.term[1][0][0] == "attr" and e.term[1][0][2] in ("_pil", "_array")]
        if not stores:
            continue
        run.note_func(f)
        slf = ("sym", "self")
        drops = [e for e in stores if e.term[1][0] == ("attr", slf, "_pil") and e.term[1][1] == sym.NONE]
        for e in stores:
            recv, attr = e.term[1][0][1], e.term[1][0][2]
            val = e.term[1][1]
            if attr == "_pil":
                n_pil += 1
                if val == sym.NONE:
                    run.holds(rule, f, e.node, "%s drops the PIL representation" % f.short)
                elif f.name == "from_pil" and recv != slf:
                    run.holds(rule, f, e.node, "Image.from_pil stores the PIL image on the fresh instance")
                else:
                    run.violated(rule, f, e.node, "%s stores a PIL image (%s) in `_pil` outside construction: it is a second copy of pixels that can still be "
                                 "changed through the array (clear(), flip_parity(), writes into asarray()), so aspil() / save(png) / thumbnails can show stale pixels"
                                 % (f.short, show(val)[:60]), kind="pil-cached")
                continue
            if recv != slf:
                continue     # a fresh instance being built
            n_rebinds += 1
            derived = val == ("call", ("attr", ("sym", "np"), "asarray"), (("attr", slf, "_pil"),), ())
            if derived:
                run.holds(rule, f, e.node, "%s derives the array from the PIL image" % f.short)
                continue
            cond = boolalg.conj(e.pc)
            dropped = any(boolalg.implies(cond, boolalg.conj(d.pc)) is True for d in drops)
            if dropped:
                run.holds(rule, f, e.node, "%s rebinds the pixel array and drops the PIL representation" % f.short)
            else:
                run.violated(rule, f, e.node, "%s rebinds the pixel array (%s) but keeps `_pil`: for an image loaded through PIL, aspil(), save() in a PIL format and "
                             "make_thumbnail_bitmap() go on showing the pixels as they were before" % (f.short, show(val)[:60]), kind="pil-stale-after-rebind")
    if n_rebinds < 2 or n_pil < 2:
        run.undecided(rule, None, None, "only %d rebinding sites of Image._array and %d stores of Image._pil found (>= 2 each confirmed by hand)" % (n_rebinds, n_pil),
                      kind="floor", construct="<Image representations>", file="toasty/image.py")
