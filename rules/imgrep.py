"""Representation consistency of toasty.image.Image, shared by C15 and C16.

An Image holds its pixels as a PIL image (`_pil`) and / or as an array (`_array`).  `asarray()` derives the array from
the PIL image once; everything that changes pixels works on the array.  Two premises keep the two views equal:

* who may write `_pil`: only the constructor path (`from_pil`, on the fresh instance) stores a PIL image; everybody else
  may only drop it (`= None`).  A cached PIL version of an array that can still be written goes stale.
* whoever rebinds `self._array` to something that is not `np.asarray(self._pil)` drops `_pil` on the same path:
  otherwise `aspil()`, `save()` in a PIL format and `make_thumbnail_bitmap()` keep showing the old pixels.
"""
from sa import sym, boolalg
from sa.sym import show

IMG = "toasty.image"


def check(run, rule):
    project = run.project
    n_rebinds = 0
    n_pil = 0
    for f in project.functions_in(IMG):
        if f.cls is None or f.cls.name != "Image" or f.module.kind != "py":
            continue
        ev = sym.make_evaluator(project, IMG, [])
        r = ev.run(f.node)
        stores = [e for e in r.events if e.kind == "store" and e.term[1][0][0] == "attr" and e.term[1][0][2] in ("_pil", "_array")]
        if not stores:
            continue
        run.note_func(f)
        slf = ("sym", "self")
        drops = [e for e in stores if e.term[1][0] == ("attr", slf, "_pil") and e.term[1][1] == sym.NONE]
        for e in stores:
            recv, attr = e.term[1][0][1], e.term[1][0][2]
            val = e.term[1][1]
            if attr == "_pil":
                n_pil += 1
                if val == sym.NONE:
                    run.holds(rule, f, e.node, "%s drops the PIL representation" % f.short)
                elif f.name == "from_pil" and recv != slf:
                    run.holds(rule, f, e.node, "Image.from_pil stores the PIL image on the fresh instance")
                else:
                    run.violated(rule, f, e.node, "%s stores a PIL image (%s) in `_pil` outside construction: it is a second copy of pixels that can still be "
                                 "changed through the array (clear(), flip_parity(), writes into asarray()), so aspil() / save(png) / thumbnails can show stale pixels"
                                 % (f.short, show(val)[:60]), kind="pil-cached")
                continue
            if recv != slf:
                continue     # a fresh instance being built
            n_rebinds += 1
            derived = val == ("call", ("attr", ("sym", "np"), "asarray"), (("attr", slf, "_pil"),), ())
            if derived:
                run.holds(rule, f, e.node, "%s derives the array from the PIL image" % f.short)
                continue
            cond = boolalg.conj(e.pc)
            dropped = any(boolalg.implies(cond, boolalg.conj(d.pc)) is True for d in drops)
            if dropped:
                run.holds(rule, f, e.node, "%s rebinds the pixel array and drops the PIL representation" % f.short)
            else:
                run.violated(rule, f, e.node, "%s rebinds the pixel array (%s) but keeps `_pil`: for an image loaded through PIL, aspil(), save() in a PIL format and "
                             "make_thumbnail_bitmap() go on showing the pixels as they were before" % (f.short, show(val)[:60]), kind="pil-stale-after-rebind")
    _accessor_identity(run, rule)
    if n_rebinds < 2 or n_pil < 2:
        run.undecided(rule, None, None, "only %d rebinding sites of Image._array and %d stores of Image._pil found (>= 2 each confirmed by hand)" % (n_rebinds, n_pil),
                      kind="floor", construct="<Image representations>", file="toasty/image.py")


# ---------------------------------------------------------------------------------------------------------------------
# What Image.save hands to the array writers is the image's own pixel array

_VIEW_CALLS = {"np.asarray", "np.ascontiguousarray", "np.asanyarray", "np.flipud", "np.atleast_2d"}
_LOSSY_CALLS = {"np.float32", "np.float16", "np.float64", "np.round", "np.around", "np.rint", "np.clip", "np.nan_to_num", "np.floor", "np.ceil",
                "np.trunc", "np.abs", "np.int16", "np.int32", "np.uint8", "np.where", "np.maximum", "np.minimum"}
_LOSSY_METHODS = {"astype", "round", "clip", "byteswap", "view", "filled"}


def _own_pixels(t, slf):
    """'own' if the term is the receiver's pixel array seen through value-preserving views, ('lossy', what) if a conversion
    of it, None if nothing can be said."""
    if t == ("call", ("attr", slf, "asarray"), (), ()) or t in (("attr", slf, "_array"), ("attr", slf, "_pil")):
        return "own"
    if not isinstance(t, tuple) or not t:
        return None
    if t[0] == "new":
        return _own_pixels(t[2], slf)
    if t[0] in ("sub", "item"):
        # a slice / reversed view shows the same values; anything else selects part of the data
        inner = _own_pixels(t[1], slf)
        if inner == "own":
            idx = t[2]
            parts = idx[1] if isinstance(idx, tuple) and idx and idx[0] == "tuple" else (idx,)
            ok = all(isinstance(p_, tuple) and (p_ == ("const", Ellipsis) or (p_[0] == "slice" and p_[1] in (("const", None),) and p_[2] in (("const", None),)))
                     for p_ in parts)
            return "own" if ok else None
        return inner
    if t[0] == "call":
        name = show(t[1])
        if name in _VIEW_CALLS and t[2]:
            return _own_pixels(t[2][0], slf)
        if name in _LOSSY_CALLS and t[2] and _own_pixels(t[2][0], slf) is not None:
            return ("lossy", name)
        if t[1][0] == "attr" and t[1][2] in _LOSSY_METHODS and _own_pixels(t[1][1], slf) is not None:
            return ("lossy", "." + t[1][2] + "()")
        return None
    if t[0] == "ite":
        a, b = _own_pixels(t[2], slf), _own_pixels(t[3], slf)
        for x in (a, b):
            if isinstance(x, tuple):
                return x
        return "own" if a == b == "own" else None
    if t[0] == "poly":
        # arithmetic on the pixels
        for a in sym.atoms_of(t):
            if _own_pixels(a, slf) is not None:
                return ("lossy", "arithmetic")
        return None
    return None


def saved_pixels(run, rule):
    """Image.save in an array format (npy, fits) writes the pixel array itself: whatever reaches np.save / fits.writeto /
    an HDU constructor as data is `self.asarray()` seen through value-preserving views - not a converted, rounded, clipped or
    rescaled copy (tiles would no longer read back bit for bit; NaN sentinels could be replaced)."""
    project = run.project
    f = project.fn(IMG + ".Image.save")
    ev = sym.make_evaluator(project, IMG, [])
    ev.self_class = IMG + ".Image"
    r = ev.run(f.node)
    run.note_func(f)
    slf = ("sym", "self")
    n = 0
    for e in r.events:
        if e.kind != "call":
            continue
        name = show(e.term[1])
        data = None
        kw = dict((k, v) for k, v in e.term[3] if k != "**")
        if name in ("np.save", "np.savez", "np.save_compressed") and len(e.term[2]) >= 2:
            data = e.term[2][1]
        elif name.endswith("writeto") and (len(e.term[2]) >= 2 or "data" in kw):
            data = e.term[2][1] if len(e.term[2]) >= 2 else kw["data"]
        elif name.split(".")[-1] in ("PrimaryHDU", "ImageHDU", "CompImageHDU") and (e.term[2] or "data" in kw):
            data = e.term[2][0] if e.term[2] else kw["data"]
        if data is None:
            continue
        n += 1
        v = _own_pixels(data, slf)
        if v == "own":
            run.holds(rule, f, e.node, "%s receives the image's own pixel array" % name)
        elif isinstance(v, tuple):
            run.violated(rule, f, e.node, "Image.save hands %s a converted copy of the pixels (%s: %s) instead of the array itself: tiles no longer read back "
                         "with the values that were stored (precision / range / sentinel changes)" % (name, v[1], show(data)[:80]), kind="lossy-save")
        else:
            run.undecided(rule, f, e.node, "cannot relate the data written by %s (%s) to the image's pixel array" % (name, show(data)[:80]), kind="saved-data")
    if n < 2:
        run.undecided(rule, f, None, "fewer than two array writers (npy, fits) found in Image.save", kind="floor", construct="<saved pixels>", file="toasty/image.py")
    return n



# ---------------------------------------------------------------------------------------------------------------------
# asarray() hands out the image's own array object: fill / update / clear / flip write *through* what it returns, so a
# copy (np.array, np.ascontiguousarray of a strided view, .copy(), astype) makes those writes vanish

_COPYING = {"np.array", "np.ascontiguousarray", "np.asfortranarray", "np.copy", "np.require", "np.asarray_chkfinite", "copy.copy", "copy.deepcopy"}
_COPY_METHODS = {"copy", "astype", "tolist", "flatten"}


def _accessor_identity(run, rule):
    project = run.project
    q = IMG + ".Image.asarray"
    if not project.has(q):
        run.undecided(rule, None, None, "Image.asarray not found (anchor vanished)", kind="anchor", construct="Image.asarray")
        return
    f = project.fn(q)
    run.note_func(f)
    ev = sym.make_evaluator(project, IMG, [])
    r = ev.run(f.node)
    slf = ("sym", "self")
    rets = [e for e in r.events if e.kind == "return"]
    own = ("attr", slf, "_array")
    derived = ("call", ("attr", ("sym", "np"), "asarray"), (("attr", slf, "_pil"),), ())

    def leaves(t):
        if isinstance(t, tuple) and t and t[0] == "ite":
            return leaves(t[2]) + leaves(t[3])
        return [t]
    bad = und = 0
    for e in rets:
        for v in leaves(e.term):
            if v in (own, derived) or (v[0] == "new" and v[2] in (own, derived)):
                continue
            name = show(v[1]) if v[0] == "call" else ""
            if v[0] == "call" and (name in _COPYING or (v[1][0] == "attr" and v[1][2] in _COPY_METHODS)) and sym.contains(v, own):
                run.violated(rule, f, e.node, "Image.asarray returns %s: for an array that is not already in that layout this is a fresh copy, so what fill / update / "
                             "clear / flip_parity write into it never reaches the image (a cleared tile stays defined, an update is lost)" % show(v)[:70], kind="accessor-copies")
                bad += 1
            else:
                run.undecided(rule, f, e.node, "Image.asarray returns %s: cannot tell that this is the stored array object" % show(v)[:70], kind="accessor-term")
                und += 1
    if rets and not bad and not und:
        run.holds(rule, f, rets[0].node, "Image.asarray returns the stored array object itself (writes through it reach the image)")
    elif not rets:
        run.undecided(rule, f, None, "Image.asarray has no return", kind="accessor-term")
